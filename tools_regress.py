#!/usr/bin/env python3
"""Development aid: run the whole corpus of seeded changes (seeded/*/patch.diff, seeded/own/*.diff) through the
quick checks that are expected to report them (tools_mutant.sh: scratch copy of /repo, VERIF_REPO) and write
seeded/REGRESSION.json.  usage: tools_regress.py [-j N] [name-substring ...]"""
import glob
import json
import os
import re
import subprocess
import sys
import time
from concurrent.futures import ThreadPoolExecutor

V = os.path.dirname(os.path.abspath(__file__))
REVERT = {"F1": ["C02", "C12"], "F2": ["C02", "C12"], "F3": ["C06"], "F4": ["C06"], "F5": ["C16"], "F6": ["C18", "C01"], "F7": ["C09"],
          "F8": ["C01"], "F9": ["C08"], "F10": ["C08"], "F10b": ["C08"], "F11": ["C10"], "F12": ["C10"], "F16": ["C19"], "F17": ["C16"],
          "F18": ["C13"], "F19": ["C08"], "F20": ["C10"]}


def corpus():
    out = []
    for d in sorted(glob.glob(os.path.join(V, "seeded", "*"))):
        name = os.path.basename(d)
        patch = os.path.join(d, "patch.diff")
        if not os.path.exists(patch):
            continue
        ids = []
        mp = os.path.join(d, "meta.json")
        if os.path.exists(mp):
            m = json.load(open(mp))
            for x in m.get("checks") or m.get("detected_by") or []:
                ids += re.findall(r"\bC\d\d\b", x)
            if m.get("property") and not ids:
                ids.append(m["property"])
        elif name.startswith("revert-"):
            ids = REVERT.get(name[len("revert-"):], [])
        seen = []
        for i in ids:
            if i not in seen:
                seen.append(i)
        out.append((name, patch, seen[:2]))
    for p in sorted(glob.glob(os.path.join(V, "seeded", "own", "*.diff"))):
        name = "own/" + os.path.basename(p)[:-5]
        out.append((name, p, ["C" + os.path.basename(p)[1:3]]))
    return out


# kept for the record: changes that turned out NOT to violate the statement (no check may report them)
EQUIVALENT = {"own/c16-done-early", "c01-retry-break-drops-rest", "c03b-deferred-publish-bound-to-stale-client", "c03c-retry-handle-prepended"}   # the last three: neutralised by fix F19, see their meta.json


def one(item):
    name, patch, ids = item
    t0 = time.time()
    p = subprocess.run([os.path.join(V, "tools_mutant.sh"), patch] + ids, capture_output=True, text=True)
    res = {}
    for m in re.finditer(r"^== (C\d\d) rc=(\d+) (\d+) violations; kinds:(.*)$", p.stdout, re.M):
        res[m.group(1)] = {"rc": int(m.group(2)), "violations": int(m.group(3)), "kinds": " ".join(m.group(4).split())}
    base_ok = bool(re.search(r"^ok\s", p.stdout, re.M))
    return {"name": name, "checks": res, "baseline_ok": base_ok, "detected": any(v["rc"] == 1 and v["violations"] > 0 for v in res.values()),
            "wall_s": round(time.time() - t0), "tail": "" if res else (p.stdout + p.stderr)[-400:]}


def main():
    args = sys.argv[1:]
    j = 3
    if args[:1] == ["-j"]:
        j = int(args[1])
        args = args[2:]
    items = [c for c in corpus() if c[0] not in EQUIVALENT and (not args or any(a in c[0] for a in args))]
    rows = []
    with ThreadPoolExecutor(max_workers=j) as ex:
        for r in ex.map(one, items):
            rows.append(r)
            print("%-52s %s  %s" % (r["name"], "DETECTED" if r["detected"] else "** MISSED **" if r["baseline_ok"] else "?? baseline/patch trouble",
                                    "; ".join("%s rc=%d %s" % (k, v["rc"], v["kinds"]) for k, v in r["checks"].items())), flush=True)
    if not args:
        json.dump({"when": time.strftime("%Y-%m-%d %H:%M"), "rows": rows}, open(os.path.join(V, "seeded", "REGRESSION.json"), "w"), indent=1)
    print("%d changes, %d detected" % (len(rows), sum(r["detected"] for r in rows)))


if __name__ == "__main__":
    main()
