#!/bin/bash
# usage: tools_mutant.sh <patch.diff> <check id>...
# applies the patch to a scratch copy of /repo (never to /repo itself), checks that it builds and passes
# the baseline tests, runs the quick checks against the copy (VERIF_REPO), removes the copy and
# restores the evidence files.
set -u
HERE=$(cd "$(dirname "$0")" && pwd)
patch=$1; shift
copy=$(mktemp -d /tmp/mutrepo-XXXXXX)
cp -r /repo/. "$copy"/
trap 'rm -rf "$copy" /tmp/verif-evidence-*' EXIT
git -C "$copy" apply "$patch" || { echo "patch does not apply"; exit 2; }
( cd "$copy" && GOFLAGS=-mod=mod GOPROXY=off GOSUMDB=off go build ./... && go test -vet=off -count=1 . 2>&1 | tail -1 )
for id in "$@"; do
  out=$(cd "$HERE" && VERIF_REPO="$copy" ./check $id quick 2>&1); rc=$?
  echo "== $id rc=$rc $(echo "$out" | grep -c '^VIOLATION') violations; kinds: $(echo "$out" | grep -o 'kind=[^ ]*' | sort | uniq -c | tr '\n' ' ')"
  echo "$out" | grep -i 'infra' | head -3
done
