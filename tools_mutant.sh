#!/bin/bash
# usage: tools_mutant.sh <patch.diff> <check id>...   applies the patch to /repo, runs the quick checks, reverts
set -u
patch=$1; shift
git -C /repo apply "$patch" || { echo "patch does not apply"; exit 2; }
trap 'git -C /repo checkout -- . ; git -C /repo clean -fdq; git -C /verif checkout -- evidence' EXIT
( cd /repo && GOFLAGS=-mod=mod GOPROXY=off GOSUMDB=off go build ./... && go test -vet=off -count=1 . 2>&1 | tail -1 )
for id in "$@"; do
  out=$(cd /verif && ./check $id quick 2>&1); rc=$?
  echo "== $id rc=$rc $(echo "$out" | grep -c '^VIOLATION') violations; kinds: $(echo "$out" | grep -o 'kind=[^ ]*' | sort | uniq -c | tr '\n' ' ')"
  echo "$out" | grep -i 'infra' | head -3
done
