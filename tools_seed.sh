#!/bin/bash
# usage: tools_seed.sh <out dir of a mutant agent> <seeded name> <check ids...>
# 1. copies patch.diff / demo / meta.json to /verif/seeded/<name>/
# 2. confirms in a scratch copy of /repo: patch applies, builds (both tags), baseline tests pass, demo fails with / passes without
# 3. runs the named quick checks against the mutated copy
set -u
HERE=$(cd "$(dirname "$0")" && pwd)
out=$1; name=$2; shift 2
dst=/verif/seeded/$name
mkdir -p "$dst"
cp "$out/patch.diff" "$dst/patch.diff"
cp "$out"/zz_demo_test.go "$dst/" 2>/dev/null
cp "$out/meta.json" "$dst/meta.agent.json" 2>/dev/null
export GOFLAGS=-mod=mod GOPROXY=off GOSUMDB=off GOTOOLCHAIN=local
copy=$(mktemp -d /tmp/seedrepo-XXXXXX)
cp -r /repo/. "$copy"/
trap 'rm -rf "$copy" /tmp/verif-evidence-*' EXIT
demo=$(python3 -c "import json,sys; print(json.load(open('$out/meta.json')).get('demo_cmd','go test -vet=off -count=1 -run Demo .'))" 2>/dev/null)
cp "$dst/zz_demo_test.go" "$copy/" 2>/dev/null
echo "-- demo WITHOUT change:"; ( cd "$copy" && timeout 300 $demo 2>&1 | tail -2 )
git -C "$copy" apply "$dst/patch.diff" || { echo "PATCH DOES NOT APPLY"; exit 2; }
echo "-- build:"; ( cd "$copy" && go build ./... && go build -tags verif ./... && echo build-ok )
echo "-- demo WITH change:"; ( cd "$copy" && timeout 300 $demo 2>&1 | tail -3 )
rm -f "$copy/zz_demo_test.go"
echo "-- baseline tests with change:"; ( cd "$copy" && go test -vet=off -count=1 . 2>&1 | tail -1 )
for id in "$@"; do
  outp=$(cd "$HERE" && VERIF_REPO="$copy" timeout 900 ./check $id quick 2>&1); rc=$?
  echo "== $id rc=$rc $(echo "$outp" | grep -c '^VIOLATION') violations; kinds: $(echo "$outp" | grep -o 'kind=[^ ]*' | sort | uniq -c | tr '\n' ' ')"
  echo "$outp" | grep -i 'infra' | head -3
done
