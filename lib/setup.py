#!/usr/bin/env python3
"""MANIFEST.setup_cmd: warm the Go build cache for the harness (offline) and check the tools."""
import os
import subprocess
import sys

sys.path.insert(0, os.path.dirname(os.path.abspath(__file__)))
import vlib

try:
    b = vlib.build_harness()
    print("harness builds:", b)
    p = subprocess.run(["java", "-cp", "/opt/veriftools/tla/tla2tools.jar", "tlc2.TLC", "-h"], capture_output=True, text=True)
    print("tlc available:", p.returncode in (0, 1))
finally:
    vlib.cleanup()
