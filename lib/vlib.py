"""Shared machinery of the /verif checks: building the harness from /repo's working tree,
running TLC in scratch directories, parsing its output, known findings, verdict lines and
evidence files.  Standard library only."""
import hashlib
import json
import os
import re
import shutil
import subprocess
import sys
import tempfile
import time

VERIF = os.path.dirname(os.path.dirname(os.path.abspath(__file__)))
REPO = os.environ.get("VERIF_REPO", "/repo")
SPEC = os.path.join(VERIF, "spec")
HARNESS = os.path.join(VERIF, "harness")
EVID = os.path.join(VERIF, "evidence")
REPLAYS = os.path.join(VERIF, "replays")
if os.path.realpath(REPO) != "/repo":
    # development aid (a scratch copy of the repository with a seeded change): evidence/ describes /repo only
    EVID = os.path.join(tempfile.gettempdir(), "verif-evidence-%d" % os.getpid())
    REPLAYS = os.path.join(tempfile.gettempdir(), "verif-replays-mutants")
    os.makedirs(EVID, exist_ok=True)
KNOWN = os.path.join(VERIF, "known_findings.jsonl")
NCPU = os.cpu_count() or 4

GOENV = dict(os.environ, GOFLAGS="-mod=mod", GOPROXY="off", GOSUMDB="off", GOTOOLCHAIN="local",
             CGO_ENABLED=os.environ.get("CGO_ENABLED", "0"))


class Infra(Exception):
    """Trouble of the machinery itself (exit 2), never a verdict."""


def seed():
    try:
        return int(os.environ.get("VERIF_SEED", "1"))
    except ValueError:
        return 1


_scratch = []


def scratch(prefix="verif-"):
    d = tempfile.mkdtemp(prefix=prefix)
    _scratch.append(d)
    return d


def cleanup():
    for d in _scratch:
        shutil.rmtree(d, ignore_errors=True)
    _scratch.clear()


# --------------------------------------------------------------------------------------
# Go harness
# --------------------------------------------------------------------------------------
def build_harness(race=False):
    """Build /verif/harness/cmd/drive against /repo's current working tree with -tags verif.
    Returns the path of the binary (inside a scratch dir of this invocation)."""
    out = os.path.join(scratch("verif-bin-"), "drive-race" if race else "drive")
    gosum = os.path.join(REPO, "go.sum")
    cmd = ["go", "build", "-tags", "verif", "-o", out]
    if os.path.realpath(REPO) != "/repo":
        # development aid (mutation testing against a scratch copy of the repository):
        # same module file with the replace directive pointed at VERIF_REPO
        md = scratch("verif-mod-")
        mod = open(os.path.join(HARNESS, "go.mod")).read().replace("=> /repo", "=> " + os.path.realpath(REPO))
        with open(os.path.join(md, "go.mod"), "w") as fh:
            fh.write(mod)
        if os.path.exists(gosum):
            shutil.copy(gosum, os.path.join(md, "go.sum"))
        cmd += ["-modfile", os.path.join(md, "go.mod")]
    elif os.path.exists(gosum):
        shutil.copy(gosum, os.path.join(HARNESS, "go.sum"))
    env = dict(GOENV)
    if os.environ.get("VERIF_COVER"):
        # development aid: statement coverage of the library under the harness (GOCOVERDIR must be set by the caller)
        cmd[2:2] = ["-cover", "-coverpkg=github.com/at-wat/mqtt-go/...,./..."]
    if race:
        cmd.insert(2, "-race")
        env["CGO_ENABLED"] = "1"
    cmd.append("./cmd/drive")
    t0 = time.time()
    p = subprocess.run(cmd, cwd=HARNESS, env=env, capture_output=True, text=True)
    if p.returncode != 0:
        raise Infra("harness build failed:\n" + p.stdout + p.stderr)
    return out


PANIC_MARKS = ("panic:", "fatal error:", "DATA RACE", "runtime error", "SIGSEGV", "unexpected signal", "[signal ")


def is_panic(text):
    """The text a dead worker left behind shows that the Go runtime ended the process (panic, fatal error, race report)."""
    return any(m in text for m in PANIC_MARKS)


def run_drive(binary, args, stdin=None, timeout=900, env=None, killed_ok=False):
    """Runs the harness driver.  A worker that the supervisor had to kill (no result within its time limit) or that died
    without a panic says nothing about the library: exit 2 -- unless the caller (killed_ok) deals with such rows itself."""
    e = dict(os.environ)
    if env:
        e.update(env)
    try:
        p = subprocess.run([binary] + args, input=stdin, capture_output=True, text=True, timeout=timeout, env=e)
    except subprocess.TimeoutExpired:
        raise Infra("driver timed out: %s" % " ".join(args))
    if not killed_ok:
        for line in p.stdout.splitlines():
            if '"crash"' in line:
                try:
                    r = json.loads(line)
                except ValueError:
                    continue
                if isinstance(r, dict) and "crash" in r and not is_panic(r["crash"]):
                    raise Infra("a driver worker was killed or died without a panic (%s %s): %s" % (" ".join(args[:2]), r.get("id"), r["crash"][-400:]))
    return p


# --------------------------------------------------------------------------------------
# TLC
# --------------------------------------------------------------------------------------
class TLCResult:
    def __init__(self, out, rc, wall):
        self.out = out
        self.rc = rc
        self.wall = wall
        self.states = 0       # distinct
        self.generated = 0
        self.violated = None  # name of violated invariant / property
        self.error = None
        m = re.findall(r"(\d+) states generated, (\d+) distinct states found", out)
        if m:
            self.generated, self.states = int(m[-1][0]), int(m[-1][1])
        m = re.search(r"Invariant (\S+) is violated", out)
        if m:
            self.violated = m.group(1)
        m = re.search(r"Action property (\S+) is violated", out)
        if m:
            self.violated = m.group(1)
        m = re.search(r"Temporal property (\S+) was violated", out)
        if m:
            self.violated = self.violated or m.group(1)
        if "Temporal properties were violated" in out:
            self.violated = self.violated or "temporal"
        if re.search(r"Deadlock reached", out):
            self.violated = self.violated or "deadlock"
        m = re.search(r"Error: (.*)", out)
        if m and not self.violated:
            self.error = m.group(1)
        self.finished = "Model checking completed. No error has been found." in out or \
            bool(re.search(r"Finished in", out)) and not self.violated and not self.error

    def printed(self, tag):
        """Values printed with PrintT(<<tag, value>>): returns the list of raw value strings."""
        res = []
        for m in re.finditer(r'<<"%s", (.*)>>\s*$' % re.escape(tag), self.out, re.M):
            res.append(m.group(1))
        return res


def tlc(module, cfg=None, files=(), extra=(), workers=None, timeout=600, deque=False, heap=None,
        simulate=None, depth=None, tlc_seed=None, cwd=None, coverage=False):
    """Run TLC on spec/<module>.tla in a scratch copy of /verif/spec (plus `files`: mapping
    name -> text or path to copy).  Returns TLCResult.  Raises Infra on timeout."""
    d = cwd or scratch("verif-tlc-")
    if not cwd:
        for f in os.listdir(SPEC):
            if f.endswith((".tla", ".cfg")):
                shutil.copy(os.path.join(SPEC, f), d)
    if isinstance(files, dict):
        for name, content in files.items():
            p = os.path.join(d, name)
            if isinstance(content, str) and os.path.exists(content) and "\n" not in content:
                shutil.copy(content, p)
            else:
                with open(p, "w") as fh:
                    fh.write(content)
    meta = tempfile.mkdtemp(prefix="meta-", dir=d)
    cmd = ["java", "-XX:+UseParallelGC"]
    if heap:
        cmd.append("-Xmx%s" % heap)
    cmd += ["-Xss64m"]
    if deque:
        cmd.append("-Dtlc2.tool.queue.IStateQueue=StateDeque")
    cmd += ["-cp", "/opt/veriftools/tla/tla2tools.jar:/opt/veriftools/tla/CommunityModules-deps.jar", "tlc2.TLC"]
    cmd += ["-metadir", meta, "-workers", str(workers or 1), "-noGenerateSpecTE"]
    if cfg:
        cmd += ["-config", cfg]
    if simulate:
        cmd += ["-simulate", simulate]
    if depth:
        cmd += ["-depth", str(depth)]
    if tlc_seed is not None:
        cmd += ["-seed", str(tlc_seed)]
    if coverage:
        cmd += ["-coverage", "1"]
    cmd += list(extra)
    cmd.append(module)
    t0 = time.time()
    try:
        p = subprocess.run(cmd, cwd=d, capture_output=True, text=True, timeout=timeout)
    except subprocess.TimeoutExpired as e:
        subprocess.run(["pkill", "-f", meta], capture_output=True)
        raise Infra("TLC timed out after %ss on %s/%s" % (timeout, module, cfg))
    finally:
        shutil.rmtree(meta, ignore_errors=True)
    r = TLCResult(p.stdout + p.stderr, p.returncode, time.time() - t0)
    r.dir = d
    return r


def tlc_ok(r, what):
    """Demand a clean finished run (used for model instances and trace validation)."""
    if r.violated or r.error or not r.finished:
        tail = "\n".join(r.out.splitlines()[-60:])
        raise Infra("TLC run for %s did not finish cleanly (violated=%s error=%s):\n%s" % (what, r.violated, r.error, tail))
    return r


def parse_tla_value(s):
    """Parse the subset of TLA+ value syntax TLC prints (strings, ints, booleans, sequences,
    sets, records, functions (x :> y @@ ...)) into Python objects (sets -> sorted lists with
    a '__set__' marker omitted: we return lists)."""
    pos = [0]
    n = len(s)

    def ws():
        while pos[0] < n and s[pos[0]] in " \t\r\n":
            pos[0] += 1

    def val():
        ws()
        c = s[pos[0]]
        if c == '"':
            j = pos[0] + 1
            out = []
            while s[j] != '"':
                if s[j] == "\\":
                    j += 1
                out.append(s[j])
                j += 1
            pos[0] = j + 1
            return "".join(out)
        if s.startswith("<<", pos[0]):
            pos[0] += 2
            items = []
            ws()
            if s.startswith(">>", pos[0]):
                pos[0] += 2
                return items
            while True:
                items.append(val())
                ws()
                if s.startswith(">>", pos[0]):
                    pos[0] += 2
                    return items
                assert s[pos[0]] == ",", s[pos[0]:pos[0] + 20]
                pos[0] += 1
        if c == "{":
            pos[0] += 1
            items = []
            ws()
            if s[pos[0]] == "}":
                pos[0] += 1
                return items
            while True:
                items.append(val())
                ws()
                if s[pos[0]] == "}":
                    pos[0] += 1
                    return items
                assert s[pos[0]] == ","
                pos[0] += 1
        if c == "[":
            pos[0] += 1
            rec = {}
            while True:
                ws()
                m = re.match(r"(\w+)\s*\|->", s[pos[0]:])
                assert m, s[pos[0]:pos[0] + 30]
                pos[0] += m.end()
                rec[m.group(1)] = val()
                ws()
                if s[pos[0]] == "]":
                    pos[0] += 1
                    return rec
                assert s[pos[0]] == ","
                pos[0] += 1
        if c == "(":
            # function  (k :> v @@ k :> v)
            pos[0] += 1
            fn = {}
            while True:
                k = val()
                ws()
                assert s.startswith(":>", pos[0])
                pos[0] += 2
                v = val()
                fn[json.dumps(k) if not isinstance(k, str) else k] = v
                ws()
                if s[pos[0]] == ")":
                    pos[0] += 1
                    return fn
                assert s.startswith("@@", pos[0])
                pos[0] += 2
        m = re.match(r"-?\d+", s[pos[0]:])
        if m:
            pos[0] += m.end()
            return int(m.group(0))
        m = re.match(r"(TRUE|FALSE)", s[pos[0]:])
        if m:
            pos[0] += m.end()
            return m.group(0) == "TRUE"
        m = re.match(r"\w+", s[pos[0]:])
        if m:
            pos[0] += m.end()
            return m.group(0)
        raise ValueError("cannot parse TLA value at: " + s[pos[0]:pos[0] + 40])

    return val()


# --------------------------------------------------------------------------------------
# Known findings, verdicts, evidence
# --------------------------------------------------------------------------------------
def known_findings():
    res = []
    if os.path.exists(KNOWN):
        for line in open(KNOWN):
            line = line.strip()
            if line and not line.startswith("#"):
                res.append(json.loads(line))
    return res


class Verdicts:
    """Collects witnesses of one check run and turns them into output lines / exit code.
    A witness is (property, kind, where, detail, replay-object)."""

    def __init__(self, pid):
        self.pid = pid
        self.known = [k for k in known_findings() if k.get("property") == pid and k.get("status") == "open"]
        self.violations = []
        self.known_hits = {}
        self.notes = []

    def witness(self, kind, where, detail, replay):
        for k in self.known:
            if k["kind"] == kind and (k.get("where") in (None, "", "*") or k.get("where") == where):
                self.known_hits.setdefault((kind, k.get("where", "")), (k, detail))
                return "known"
        self.violations.append((kind, where, detail, replay))
        return "violation"

    def finish(self):
        """Print verdict lines; returns the exit code."""
        for (kind, where), (k, detail) in sorted(self.known_hits.items()):
            print("KNOWN-FINDING: property=%s %s [%s%s] %s" % (
                self.pid, k.get("what", kind), kind, ("@" + where) if where else "", detail))
        seen = set()
        perkind = {}
        os.makedirs(REPLAYS, exist_ok=True)
        for kind, where, detail, replay in self.violations:
            key = (kind, where)
            if key in seen:
                continue
            seen.add(key)
            perkind[kind] = perkind.get(kind, 0) + 1
            if perkind[kind] > 3:
                continue      # at most three replay files per witness kind; the total is in the evidence
            body = json.dumps({"property": self.pid, "kind": kind, "where": where, "detail": detail,
                               "replay": replay}, indent=1, sort_keys=True, default=str)
            h = hashlib.sha1(body.encode()).hexdigest()[:10]
            path = os.path.join(REPLAYS, "%s-%s-%s.json" % (self.pid, re.sub(r"\W+", "_", kind)[:40], h))
            with open(path, "w") as fh:
                fh.write(body)
            print("VIOLATION property=%s replay=%s" % (self.pid, path))
            print("  kind=%s where=%s %s" % (kind, where, detail))
        return 1 if self.violations else 0


def write_evidence(pid, tier, level, coverage, wall_s, assumptions, violations=0):
    os.makedirs(EVID, exist_ok=True)
    ev = {
        "property_id": pid,
        "tier": tier,
        "seed": seed(),
        "level": level,
        "coverage": coverage,
        "assumptions": assumptions,
        "wall_s": round(wall_s, 2),
        "violations": violations,
    }
    tmp = os.path.join(EVID, ".%s.json.tmp" % pid)
    with open(tmp, "w") as fh:
        json.dump(ev, fh, indent=1, sort_keys=True, default=str)
    os.replace(tmp, os.path.join(EVID, "%s.json" % pid))


def main_wrapper(fn):
    """Run a check function(tier) -> exit code with uniform handling of infrastructure errors."""
    try:
        rc = fn()
    except Infra as e:
        print("INFRA-ERROR: %s" % e, file=sys.stderr)
        rc = 2
    except SystemExit:
        raise
    except BaseException:   # a defect of the machinery is never a verdict about the library
        import traceback
        traceback.print_exc()
        print("INFRA-ERROR: internal error of the check (see traceback)", file=sys.stderr)
        rc = 2
    finally:
        if not os.environ.get("VERIF_KEEP"):
            cleanup()
    sys.exit(rc)


def ndjson_write(path, rows):
    with open(path, "w") as fh:
        for r in rows:
            fh.write(json.dumps(r, sort_keys=True, separators=(",", ":")) + "\n")


def ndjson_read(path):
    return [json.loads(l) for l in open(path) if l.strip()]


def chunks(lst, n):
    for i in range(0, len(lst), n):
        yield lst[i:i + n]
