"""C16 -- connection state callback, Err() and Done() report what really happened.

Design level: spec/Conn.tla (lifecycle of one BaseClient: Connect in 4 steps, reader epilogue in 5,
Disconnect in 3, peer accept/refuse/close/malformed, local Close, keep-alive error store, context
cancellation) checked exhaustively by TLC against the clauses of the statement.
Code level: every combination of CONNACK behaviour x end causes (alone and racing pairs) of that
model is executed on a real BaseClient over netsim, plus reconnecting-client runs with keep-alive on
first and re-established connections; TLC validates the recorded callback logs and Err()/Done()
samples against spec/ConnObs.tla (observers C16_*)."""
import itertools
import json
import os
import random
import sys
import time

sys.path.insert(0, os.path.dirname(os.path.abspath(__file__)))
sys.path.insert(0, os.path.join(os.path.dirname(os.path.abspath(__file__)), "..", "lib"))
import vlib  # noqa: E402
import retry_family as rf  # noqa: E402

PID = "C16"
ENDS = ["peerclose", "localclose", "malformed", "badflags", "disconnect", "kaerr"]


def base_scenarios(tier, rng):
    out = []
    i = 0
    # Connect outcomes that never establish the connection
    for ca in ("refuse", "refuse1", "refuse6", "refuse17", "refuse128", "refuse255", "silent", "malformed", "peerclose"):
        for cancel in (False, True):
            if ca == "silent" and not cancel:
                continue      # Connect would legitimately wait for ever (assumption A5)
            for tail in ([], ["disconnect"], ["localclose"]):
                out.append({"id": "b%d" % i, "connack": ca, "connectCancel": cancel, "steps": ["sample"] + tail + ["sample"]})
                i += 1
    # ... because the CONNECT packet itself cannot be written: the transport reports an error and stays open (writeErr) or
    # dies inside the write (cutBefore); Connect fails, and when the transport is closed (by the cut, by Close(), by
    # Disconnect) the connection has ended: Done() closed, Closed reported once with the error unless Disconnect was called
    for o in ("writeErr", "cutBefore"):
        for tail in ([], ["disconnect"], ["localclose"], ["localclose", "disconnect"]):
            out.append({"id": "b%d" % i, "connack": "accept", "faults": [{"p": "CONNECT", "n": 1, "o": o}], "steps": ["sample"] + tail + ["wait", "sample"]})
            i += 1
    # established connection: one end cause, two end causes in sequence, two racing
    for a in ENDS:
        out.append({"id": "b%d" % i, "connack": "accept", "steps": ["sample", a, "wait", "sample"]})
        i += 1
        for b in ENDS:
            if b == "kaerr" and a == "disconnect":
                continue      # an application storing an error itself after its own graceful Disconnect is not the library's doing
            out.append({"id": "b%d" % i, "connack": "accept", "steps": ["sample", a, b, "wait", "sample"]})
            i += 1
            out.append({"id": "b%d" % i, "connack": "accept", "steps": ["sample", a, b + "!", "wait", "sample"]})
            i += 1
    # the connection ends because an acknowledgement of inbound traffic cannot be written (half-broken transport):
    # an abnormal end like any other -- Closed with the non-nil error, Err() non-nil, Done() closed
    for step, pk in (("in1", "PUBACK"), ("in2", "PUBREC"), ("in2", "PUBCOMP")):
        for o in ("cutBefore", "cutAfter"):
            for tail in ([], ["disconnect"]):
                out.append({"id": "b%d" % i, "connack": "accept", "faults": [{"p": pk, "n": 1, "o": o}], "steps": ["sample", step, "wait"] + tail + ["sample"]})
                i += 1
    # the client itself detects a protocol violation (SUBACK with a wrong number of return codes) and ends the connection
    for tail in ([], ["disconnect"], ["localclose"]):
        out.append({"id": "b%d" % i, "connack": "accept", "steps": ["sample", "subbad", "wait"] + tail + ["sample"]})
        i += 1
    # ... and healthy inbound traffic does not end it
    for step in ("in1", "in2"):
        out.append({"id": "b%d" % i, "connack": "accept", "steps": ["sample", step, "sleep", "sample", "disconnect", "wait", "sample"]})
        i += 1
    reps = 3 if tier == "quick" else 30
    racing = [s for s in out if any(x.endswith("!") for x in s["steps"])]
    for r in range(reps):
        for s in racing:
            out.append(dict(s, id="%s-r%d" % (s["id"], r)))
    return out


def hold_scenarios():
    # the reader's Closed callback is held between the state change and the callback (hook connStateCb)
    out = []
    for i, (a, b) in enumerate(itertools.product(["peerclose", "malformed", "localclose"], ["disconnect", "localclose", "kaerr"])):
        out.append({"id": "h%d" % i, "connack": "accept", "hold": "closedcb", "steps": ["sample", a, "sleep", b + "!", "releasecb", "wait", "sample"]})
    return out


def reconn_scenarios(tier, rng):
    S = rf.scenario
    out = []
    opts = {"pingMs": 15, "connTimeoutMs": 400, "sampleAfterMs": 50}
    P = rf.PUB
    out.append(S("k-plain", [P(1)], ["conn"], [], opts=opts))
    samp = {"k": "sample", "at": "idle"}
    for i, (o, pk) in enumerate(itertools.product(["cutBefore", "cutAfter"], ["PUBLISH", "PINGREQ"])):
        sc = S("k-cut-%d" % i, [P(1), P(1)], ["conn", "idle"], [{"p": pk, "n": 1, "o": o}], opts=opts)
        sc["reqs"].append(samp)
        out.append(sc)
    # a keep-alive PINGREQ that cannot be written while the transport stays open (a write deadline, a broken pipe seen by
    # the writer only): the connection is given up with THAT error, it is not reported as a ping time-out
    for i in (1, 2, 3):
        sc = S("k-pingwerr-%d" % i, [P(1), P(1)], ["conn", "idle"], [{"p": "PINGREQ", "n": i, "o": "writeErr"}], opts=opts)
        sc["reqs"].append(samp)
        out.append(sc)
    for i in range(3):
        sc = S("k-peer-%d" % i, [P(1)], ["conn"], [], opts=opts)
        sc["reqs"] += [{"k": "sample", "at": "idle"}] + [{"k": "peerclose", "at": "idle"}, {"k": "pub", "q": 1, "at": "idle"}, {"k": "sample", "at": "idle"}] * (i + 1)
        out.append(sc)
    # Disconnect arriving while a keep-alive PINGREQ is in flight (held inside its write)
    for wk in (3, 4):
        sc = S("k-discping-%d" % wk, [P(1)], ["conn"], [], opts=dict(opts, sampleAfterMs=60))
        sc["reqs"].append({"k": "disconnect", "at": "write:%d" % wk})
        out.append(sc)
        # ... and the PINGRESP of that ping never comes: the ping ends with the connection Disconnect closes (F17)
        # (the reconnect loop is delayed at its wake-up so that the keep-alive goroutine sees the failed ping first)
        sc = S("k-discping-silent-%d" % wk, [P(1)], ["conn"], [{"k": wk, "o": "dropAck"}], opts=dict(opts, sampleAfterMs=80, holdLoopWakeMs=30))
        sc["reqs"].append({"k": "disconnect", "at": "write:%d" % wk})
        out.append(sc)
    out.append(S("k-refused2", [P(1), P(1)], ["conn", "idle"], [{"p": "PUBLISH", "n": 1, "o": "cutAfter"}], connacks=[{}, {"code": 3}], opts=opts))
    n = 10 if tier == "quick" else 150
    comps = None
    for j in range(n):
        nf = rng.randint(0, 2)
        faults = [{"p": rng.choice(["PUBLISH", "PINGREQ", "SUBSCRIBE"]), "n": rng.randint(1, 3), "o": rng.choice(["cutBefore", "cutAfter"])} for _ in range(nf)]
        wl = [rng.choice([P(0), P(1), P(2), rf.SUB(("x", 1))]) for _ in range(rng.randint(1, 3))]
        sc = S("k-r%d" % j, wl, ["conn"] * len(wl), faults, opts=opts)
        sc["reqs"] += [{"k": "sample", "at": "idle"}]
        out.append(sc)
    return out


def run_conn(binary, scs, conc):
    if not scs:
        return {}
    inp = "\n".join(json.dumps(s) for s in scs) + "\n"
    p = vlib.run_drive(binary, ["run", "conn", "-j", str(vlib.NCPU), "-c", str(conc)], stdin=inp, timeout=900)
    if p.returncode != 0:
        raise vlib.Infra("conn driver failed: " + p.stderr[-2000:])
    return {json.loads(l)["id"]: json.loads(l) for l in p.stdout.splitlines() if l.strip()}


def cb_digest(res):
    out = []
    for e in res.get("evs", []):
        if e["e"] == "ConnState":
            out.append("g%d:%s(%s)" % (e["g"], e["s"], e["cls"]))
        elif e["e"] == "Sample":
            out.append("g%d:sample(err=%s,done=%s)" % (e["g"], e["err"], e["done"]))
        elif e["e"] == "Step":
            out.append("[%s]" % e["name"])
        elif e["e"] == "Close":
            out.append("close g%d by %s" % (e["g"], e["by"]))
    return out


def run(tier):
    t0 = time.time()
    rng = random.Random(vlib.seed() * 31 + 16)
    verd = vlib.Verdicts(PID)
    binary = vlib.build_harness()
    # design level
    r = vlib.tlc_ok(vlib.tlc("Conn", cfg="Conn.cfg", workers=4, timeout=300), "Conn model")
    # with the keep-alive goroutine of the reconnecting client; the designs before fixes F5 / F17 are refuted
    rka = vlib.tlc_ok(vlib.tlc("Conn", cfg="ConnKA.cfg", workers=4, timeout=300), "Conn model with keep-alive")
    kacfg = open(os.path.join(vlib.SPEC, "ConnKA.cfg")).read()
    for sw in (("BugKaNoDiscCheck",), ("BugKaNoCtxCheck", "BugKaNoDiscCheck")):
        c2 = kacfg
        for x in sw:
            c2 = c2.replace("%s = FALSE" % x, "%s = TRUE" % x)
        rb = vlib.tlc("Conn", cfg="KB.cfg", files={"KB.cfg": c2}, workers=1, timeout=300)
        if rb.violated != "ErrNilAfterGraceful":
            raise vlib.Infra("non-vacuity: Conn with %s not refuted (%s)" % (sw, rb.violated))
    # a reader goroutine that is started only after CONNECT was written (c16g) is refuted: Done() is not closed although the
    # connection has ended
    rw = vlib.tlc("Conn", cfg="KW.cfg", files={"KW.cfg": open(os.path.join(vlib.SPEC, "Conn.cfg")).read().replace("BugReaderAfterWrite = FALSE", "BugReaderAfterWrite = TRUE")}, workers=1, timeout=300)
    if rw.violated not in ("DoneIffEnded", "ClosedExactlyOnceIfNoDisconnect"):
        raise vlib.Infra("non-vacuity: Conn with BugReaderAfterWrite not refuted (%s)" % rw.violated)
    f14 = vlib.tlc("Conn", cfg="ConnF14.cfg", workers=1, timeout=300)
    if f14.violated != "NoClosedAfterDisconnected":
        raise vlib.Infra("Conn model: F14 configuration no longer violates NoClosedAfterDisconnected (%s)" % f14.violated)
    # code level
    base = base_scenarios(tier, rng)
    hold = hold_scenarios()
    rec = reconn_scenarios(tier, rng)
    results = {}
    results.update(run_conn(binary, base, 4))
    results.update(run_conn(binary, hold, 1))
    hooked = [s for s in rec if s.get("opts", {}).get("holdLoopWakeMs")]
    results.update(rf.run_scenarios(binary, [s for s in rec if s not in hooked], conc=2))
    results.update(rf.run_scenarios(binary, hooked, conc=1))      # process-global hook: one scenario per process at a time
    byid = {s["id"]: s for s in base + hold + rec}
    crashes = [r_ for r_ in results.values() if "crash" in r_]
    for c in crashes:
        kind, msg = rf.crash_kind(c["crash"])
        verd.witness(kind, "", msg, {"scenario": byid[c["id"]], "crash": c["crash"][-3000:]})
    reports, totals = rf.validate(results, spec="ConnObs")
    nval = 0
    distinct = set()
    samples = []
    for sid, rep in reports.items():
        res = results[sid]
        if rep["hw"] != rep["len"] + 1:
            raise vlib.Infra("ConnObs rejected trace %s at event %d" % (sid, rep["hw"]))
        nval += 1
        dg = cb_digest(res)
        distinct.add(json.dumps(dg))
        if len(samples) < 3 and len(dg) > 4:
            samples.append({"scenario": byid[sid], "observed": dg})
        for v in rep["v"]:
            if not v["o"].startswith("C16_"):
                continue
            where = ""
            if v["o"] == "C16_NoClosedAfterDisconnected":
                # which history: was Disconnect called on a connection that had already ended?
                evs = res["evs"]
                g = evs[v["at"] - 1]["g"]
                closed_at = min([e["seq"] for e in evs if e["e"] == "Close" and e["g"] == g] or [10 ** 9])
                called_at = min([e["seq"] for e in evs if e["e"] == "Call" and e.get("kind") == "Disconnect"] or [10 ** 9])
                where = "disconnect-after-connection-ended" if closed_at < called_at else "disconnect-on-live-connection"
            if v["o"] == "C16_ClosedCauseTruthful" and sid in byid and "reqs" in byid[sid]:
                # timing observer (a PINGRESP that a loaded machine delivers after the response timeout looks like a false
                # time-out): it has to fail twice more when the scenario runs alone
                again = 0
                for a_ in range(2):
                    sc2 = dict(byid[sid], id=sid + "-again%d" % a_)
                    r2 = rf.run_scenarios(binary, [sc2], conc=1)
                    rep2, _ = rf.validate(r2, spec="ConnObs")
                    again += any(x["o"] == v["o"] for x in rep2[sc2["id"]]["v"])
                if again < 2:
                    verd.notes.append("not reproduced: %s %s" % (v["o"], sid))
                    continue
            verd.witness(v["o"], where, "scenario %s: %s" % (sid, " ".join(dg)), {"scenario": byid[sid], "observer": v["o"], "trace": res["evs"]})
    import dialer_family
    dialer_runs = dialer_family.c16(binary, verd)
    rc = verd.finish()
    vlib.write_evidence(PID, tier, "model_checking", {
        "states": r.states + rka.states + totals["states"], "transitions": r.generated + rka.generated + totals["states"],
        "traces_validated_against_impl": nval, "model_states": r.states + rka.states,
        "scenarios": {"base": len(base), "held_callback": len(hold), "reconnecting_with_keepalive": len(rec)},
        "evaluations": len(results), "distinct_nontrivial": len(distinct),
        "rule": "CONNACK behaviour x end causes (single, sequential pairs, racing pairs repeated; also failing acknowledgement writes for inbound QoS 1/2 traffic) on one BaseClient; reconnecting client with keep-alive over cuts/peer closes; distinct = distinct observed callback/sample logs",
        "samples": samples or [{"note": "none"}], "exhaustive": False,
    }, time.time() - t0, ["A4: Transport.Close/Write return", "samples are taken by the driver while it injects no fault",
                           "the held-callback scenarios use the verif hook connStateCb as a scheduler gate"], violations=len(verd.violations))
    print("C16: Conn model %d states; %d real traces validated (ConnObs), %d distinct logs; %.0fs" % (r.states, nval, len(distinct), time.time() - t0))
    return rc
