"""C20 -- handlers behind ServeMux / ServeAsync get private copies of the message.

spec/Clone.tla      heap model of messages (message objects + payload backing arrays), the dispatchers
                    ServeMux / ServeAsync / clone, handlers that observe-then-mutate, the caller re-using its
                    message; the property = invariants NoBadObs /\ CallerIntact /\ HoldersIntact.
spec/CloneTrace.tla trace validation of what the driver recorded on the real code.

What a run does
  1. TLC proves the invariants on Impl = "Deep" over all cases within the tier's bounds, and shows for every
     wrong implementation (shallow payload copy, no copy in ServeMux / ServeAsync, a dropped field) that the
     invariant expected to break does break (non-vacuity).
  2. TLC enumerates every schedule of visible events for every dispatcher shape (topology x sync/async flags
     x caller program).  Schedules do not depend on the mutation kinds and payload shape (they only change
     values), so the cases to execute are shape schedules combined with mutation vectors / payload shapes
     / payload scale chosen here (systematic grid for one handler, seeded sampling beyond); CloneTrace
     re-checks that each executed case is a case of the specification.
  3. The Go driver (family "clone") enforces each schedule on the real code with gate channels and records
     what every handler saw on entry, the caller's messages after each caller step, and the messages kept
     by the handlers at the end.
  4. TLC (CloneTrace) replays every recorded trace against Clone.tla: accepted <=> the run satisfied the
     property.  Rejected with a value difference => VIOLATION; stuck on the structure of the schedule,
     stalls and crashes => infrastructure error.
"""
import json
import os
import random
import sys
import time
from concurrent.futures import ThreadPoolExecutor

sys.path.insert(0, os.path.join(os.path.dirname(os.path.abspath(__file__)), "..", "lib"))
import vlib  # noqa: E402

PID = "C20"
ALLM = ["topic", "inplace", "append", "reslice", "retain", "dup", "qos", "id", "all"]
CORE = ["topic", "inplace", "append", "all"]
ALLP = ["nil", "empty", "tight", "spare", "spare0"]
ALLMODE = ["one", "one_cmut", "reuse", "fresh"]
ALLT = ["mux", "async", "amux", "clone"]
BIG = 30000          # payload scale of "large payload" cases: 3 model bytes -> 90 kB
INVS = ("Isolation", "TypeOK", "Owned", "Complete")

# (wrong implementation, invariant that must break)
NONVAC = [("ShallowPayload", "NoBadObs"), ("ShallowPayload", "CallerIntact"), ("ShallowPayload", "HoldersIntact"),
          ("MuxNoClone", "NoBadObs"), ("MuxNoClone", "CallerIntact"), ("MuxNoClone", "HoldersIntact"),
          ("AsyncNoClone", "NoBadObs"), ("AsyncNoClone", "HoldersIntact"),
          ("DropDup", "NoBadObs"), ("DropID", "NoBadObs"), ("DropRetain", "NoBadObs"), ("SwapFlags", "NoBadObs")]


def tset(xs):
    return "{" + ", ".join('"%s"' % x for x in xs) + "}"


def cfg(impl="Deep", maxh=2, muts=ALLM, pays=ALLP, modes=ALLMODE, tops=ALLT, reduce=True, record=False, invs=INVS,
        spec="Spec", extra=""):
    return ("SPECIFICATION %s\nCHECK_DEADLOCK FALSE\nCONSTANTS\n Impl = \"%s\"\n MaxH = %d\n MutKinds = %s\n PayKinds = %s\n"
            " Modes = %s\n Tops = %s\n Reduce = %s\n Record = %s\n" % (
                spec, impl, maxh, tset(muts), tset(pays), tset(modes), tset(tops),
                "TRUE" if reduce else "FALSE", "TRUE" if record else "FALSE")
            + "".join("INVARIANT %s\n" % i for i in invs) + extra)


# ---------------------------------------------------------------------------------------
# TLC jobs
# ---------------------------------------------------------------------------------------
def proof(label, workers, **kw):
    r = vlib.tlc("Clone", cfg="p.cfg", files={"p.cfg": cfg(**kw)}, workers=workers, heap="20g", timeout=1500)
    vlib.tlc_ok(r, "Clone model " + label)
    return {"run": label, "states": r.states, "transitions": r.generated, "wall_s": round(r.wall, 1)}


def nonvac(impl, inv):
    r = vlib.tlc("Clone", cfg="n.cfg", files={"n.cfg": cfg(impl=impl, maxh=2, muts=CORE, invs=(inv,))}, workers=1, timeout=600)
    if r.violated != inv:
        raise vlib.Infra("non-vacuity: Impl=%s was expected to violate %s, TLC says violated=%s error=%s\n%s" % (
            impl, inv, r.violated, r.error, r.out[-1500:]))
    return {"impl": impl, "violates": inv}


def shapes(label, maxh, modes, workers):
    """Every schedule of every dispatcher shape (mutation kind / payload shape fixed: they do not influence
    which schedules exist)."""
    r = vlib.tlc("Clone", cfg="g.cfg", files={"g.cfg": cfg(maxh=maxh, muts=["all"], pays=["spare"], modes=modes, record=True)},
                 workers=workers, heap="8g", timeout=900)
    vlib.tlc_ok(r, "schedule enumeration " + label)
    out = []
    for raw in r.printed("CASE"):
        j = json.loads(vlib.parse_tla_value(raw))
        sched = [{k: e[k] for k in ("e", "h", "r") if k in e} for e in j["sched"]]
        out.append({"top": j["cs"]["top"], "flags": [h["a"] for h in j["cs"]["hs"]], "mode": j["cs"]["mode"], "sched": sched})
    if not out:
        raise vlib.Infra("schedule enumeration produced nothing:\n" + r.out[-2000:])
    return out, r.states


def validate(results, batch, par):
    """CloneTrace over the recorded traces.  Returns ({id: report}, states, transitions)."""
    ids = sorted(results)
    reports, tot = {}, [0, 0]
    c = cfg(spec="TSpec", maxh=3, invs=(), extra="CONSTRAINT Mon\nPOSTCONDITION Report\n")

    def one(b):
        text = "".join(json.dumps(results[i], sort_keys=True, separators=(",", ":")) + "\n" for i in b)
        r = vlib.tlc("CloneTrace", cfg="v.cfg", files={"v.cfg": c, "clone_traces.ndjson": text}, workers=1, deque=True,
                     heap="3g", timeout=900)
        rep = r.printed("REPORT")
        if not rep or r.error or r.violated:
            raise vlib.Infra("trace validation run failed:\n" + r.out[-4000:])
        return json.loads(vlib.parse_tla_value(rep[-1])), r

    with ThreadPoolExecutor(max_workers=par) as ex:
        for rep, r in ex.map(one, list(vlib.chunks(ids, batch))):
            tot[0] += r.states
            tot[1] += r.generated
            for t in rep:
                reports[t["id"]] = t
    return reports, tot[0], tot[1]


# ---------------------------------------------------------------------------------------
# Cases
# ---------------------------------------------------------------------------------------
def mk(shape, muts, pay, scale):
    cs = {"top": shape["top"], "hs": [{"a": a, "mut": m} for a, m in zip(shape["flags"], muts)], "pay": pay, "mode": shape["mode"]}
    return {"cs": cs, "sched": shape["sched"], "scale": scale}


def key(c):
    return json.dumps([c["cs"], c["sched"], c["scale"]], sort_keys=True)


def nontrivial(c):
    """>= 2 handler invocations, or a mutation (handler body / caller) scheduled before another observer."""
    es = [e["e"] for e in c["sched"]]
    hs = [i for i, e in enumerate(es) if e == "h"]
    return len(hs) >= 2 or any(e == "cmut" and any(h > i for h in hs) for i, e in enumerate(es))


def compose(shs, rng, tier):
    quick = tier == "quick"
    cases = {}

    def add(c):
        cases.setdefault(key(c), c)

    def scale_for(pay, p_big):
        return BIG if pay in ("tight", "spare", "spare0") and rng.random() < p_big else 1

    one = [s for s in shs if len(s["flags"]) == 1]
    multi = [s for s in shs if len(s["flags"]) > 1]
    # (a) grid: one handler -- every schedule x every mutation kind x every payload shape
    for s in one:
        for m in ALLM:
            for p in ALLP:
                add(mk(s, [m], p, 1))
    # (b) every schedule of every multi-handler shape at least once (quick: schedules of the big shapes are sampled)
    cap = 40 if quick else 1500
    by_shape = {}
    for s in multi:
        by_shape.setdefault((s["top"], tuple(s["flags"]), s["mode"]), []).append(s)
    picked = []
    for k in sorted(by_shape):
        lst = by_shape[k]
        picked += lst if len(lst) <= cap else rng.sample(lst, cap)
    for s in picked:
        for _ in range(1):
            pay = rng.choice(ALLP)
            add(mk(s, [rng.choice(ALLM) for _ in s["flags"]], pay, scale_for(pay, 0.08)))
    # (c) the aliasing-sensitive corner, systematically: two handlers, every pair of payload-writing mutations,
    #     array with and without spare capacity, every schedule of the two-handler shapes
    two = [s for s in multi if len(s["flags"]) == 2]
    pw = ["inplace", "append", "all", "reslice", "topic"] if quick else ["inplace", "append", "all", "reslice"]
    for s in (two if not quick else rng.sample(two, min(len(two), 250))):
        for m1 in pw:
            for m2 in pw:
                for p in (("spare",) if quick else ("spare", "tight")):
                    if quick and rng.random() < 0.6:
                        continue
                    add(mk(s, [m1, m2], p, 1))
    # (d) large payloads on the one-handler grid and some two-handler schedules
    for s in one + rng.sample(two, min(len(two), 60 if quick else 600)):
        for p in ("tight", "spare"):
            add(mk(s, [rng.choice(["inplace", "append", "all", "reslice"]) for _ in s["flags"]], p, BIG))
    # (e) the handlers of a mux registered under one and the same filter string (registrations must not be merged)
    for s in rng.sample([x for x in multi if x["top"] in ("mux", "amux")], 60 if quick else 600):
        c_ = mk(s, [rng.choice(["inplace", "append", "all", "topic"]) for _ in s["flags"]], rng.choice(ALLP), 1)
        c_["sameFilter"] = True
        cases.setdefault(key(c_) + "/same", c_)
    # (f) QoS 0 messages (the copies must not depend on the QoS): a sample of the cases above with the real QoS values
    #     rotated (model 1 -> real 0, model 2 -> real 1)
    for k_ in rng.sample(sorted(cases), min(len(cases), 400 if quick else 4000)):
        c_ = dict(cases[k_], qrot=2)
        cases.setdefault(k_ + "/qrot", c_)
    out = []
    for i, k in enumerate(sorted(cases)):
        c = cases[k]
        c["id"] = "c%06d" % i
        out.append(c)
    return out


# ---------------------------------------------------------------------------------------
def execute(binary, cases):
    text = "".join(json.dumps(c, sort_keys=True, separators=(",", ":")) + "\n" for c in cases)
    p = vlib.run_drive(binary, ["run", "clone", "-j", str(max(2, vlib.NCPU // 2)), "-c", "8"], stdin=text, timeout=1200)
    if p.returncode != 0:
        raise vlib.Infra("driver failed: " + p.stderr[-2000:])
    res = {}
    for line in p.stdout.splitlines():
        if line.strip():
            r = json.loads(line)
            res[r["id"]] = r
    missing = [c["id"] for c in cases if c["id"] not in res]
    if missing:
        raise vlib.Infra("driver returned no result for %d cases (first: %s)" % (len(missing), missing[0]))
    for r in res.values():
        for k in ("crash", "stall", "infra"):
            if r.get(k):
                raise vlib.Infra("case %s: %s: %s -- the schedule could not be enforced on the real code" % (r["id"], k, str(r[k])[-1500:]))
    return res


def judge(v, cases, results, reports):
    byid = {c["id"]: c for c in cases}
    bad = 0
    for i in sorted(reports):
        rep = reports[i]
        if rep["ok"]:
            continue
        if rep["hw"] <= rep["len"] or not rep["mis"]:
            raise vlib.Infra("case %s: recorded trace is not realisable in Clone.tla (stuck at event %d of %d): %s" % (
                i, rep["hw"], rep["len"], json.dumps(results[i])[:1500]))
        m = rep["mis"][0]
        c = byid[i]
        cs = c["cs"]
        kind = {"handler": "handler-observation-differs", "caller": "caller-message-changed", "holder": "kept-message-changed"}[m["what"]]
        where = "%s/%s" % (cs["top"], cs["mode"])
        detail = "hs=%s pay=%s scale=%d schedule=%s: at event %d (%s) real code showed %s, specification demands %s" % (
            ",".join(("async:" if h["a"] else "") + h["mut"] for h in cs["hs"]), cs["pay"], c["scale"],
            " ".join(e["e"] + (str(e.get("h", e.get("r", ""))) if e["e"] in ("h", "call", "ret") else "") for e in c["sched"]),
            m["at"], c["sched"][m["at"] - 1]["e"], json.dumps(m["saw"], sort_keys=True), json.dumps(m["want"], sort_keys=True))
        v.witness(kind, where, detail, {"case": c, "trace": results[i], "report": rep})
        bad += 1
    return bad


def run(tier):
    t0 = time.time()
    quick = tier == "quick"
    rng = random.Random(vlib.seed())
    v = vlib.Verdicts(PID)
    with ThreadPoolExecutor(max_workers=16) as ex:
        fb = ex.submit(vlib.build_harness)
        if quick:
            fsh = [ex.submit(shapes, "H<=2", 2, ALLMODE, 2), ex.submit(shapes, "H<=3 one message", 3, ["one", "one_cmut"], 2)]
            fpr = [ex.submit(proof, "Deep, <=2 handlers, core mutations, reduced", 4, maxh=2, muts=CORE),
                   ex.submit(proof, "Deep, 1 handler, all mutations, every interleaving of dispatch steps", 2, maxh=1, reduce=False)]
        else:
            fsh = [ex.submit(shapes, "H<=3", 3, ALLMODE, 4)]
            fpr = [ex.submit(proof, "Deep, <=3 handlers, inplace/append/all, nil/spare, reduced", 6, maxh=3,
                             muts=["inplace", "append", "all"], pays=["nil", "spare"]),
                   ex.submit(proof, "Deep, <=2 handlers, all mutations, reduced", 2, maxh=2),
                   ex.submit(proof, "Deep, <=2 handlers, inplace/all, nil/spare, every interleaving of dispatch steps", 3, maxh=2,
                             muts=["inplace", "all"], pays=["nil", "spare"], reduce=False)]
        fnv = [ex.submit(nonvac, i, inv) for i, inv in NONVAC]
        binary = fb.result()
        shs, seen, gen_states = [], set(), 0
        for f in fsh:
            lst, st = f.result()
            gen_states += st
            for s in lst:
                k = json.dumps(s, sort_keys=True)
                if k not in seen:
                    seen.add(k)
                    shs.append(s)
        shs.sort(key=lambda s: json.dumps(s, sort_keys=True))
        cases = compose(shs, rng, tier)
        t1 = time.time()
        # probe: one case per dispatcher shape first, so that a schedule that cannot be enforced at all (the real
        # dispatchers no longer have the goroutine structure of the model) is reported quickly instead of after
        # thousands of stall time-outs
        probe = {}
        for c in cases:
            probe.setdefault((c["cs"]["top"], tuple(h["a"] for h in c["cs"]["hs"]), c["cs"]["mode"]), c)
        execute(binary, list(probe.values()))
        results = execute(binary, cases)
        t2 = time.time()
        reports, vstates, vtrans = validate(results, batch=1500 if quick else 4000, par=6)
        t3 = time.time()
        proofs = [f.result() for f in fpr]
        nonv = [f.result() for f in fnv]
    if set(reports) != set(results):
        raise vlib.Infra("trace validation lost traces: %d of %d reported" % (len(reports), len(results)))
    nbad = judge(v, cases, results, reports)
    rc = v.finish()
    nt = [c for c in cases if nontrivial(c)]
    sample = []
    for c in (nt[:1] + nt[len(nt) // 2:len(nt) // 2 + 1]):
        sample.append({"case": c, "trace": results[c["id"]]["ev"]})
    cov = {
        "evaluations": len(cases),
        "distinct_nontrivial": len({key(c) for c in nt}),
        "rule": "distinct (topology, handler flags+mutations, payload shape, caller program, schedule, payload scale) run on the real "
                "ServeMux/ServeAsync/clone; non-trivial = at least two handler invocations, or the caller overwrites its message "
                "before a pending handler observes",
        "samples": sample,
        "states": vstates,
        "transitions": vtrans,
        "traces_validated_against_impl": len(reports),
        "traces_rejected": nbad,
        "shape_schedules_enumerated_by_tlc": len(shs),
        "schedule_enumeration_states": gen_states,
        "model_checking": proofs,
        "non_vacuity": nonv,
        "large_payload_cases": sum(1 for c in cases if c["scale"] > 1),
        "by_topology": {t: sum(1 for c in cases if c["cs"]["top"] == t) for t in ALLT},
        "by_mode": {m: sum(1 for c in cases if c["cs"]["mode"] == m) for m in ALLMODE},
        "by_payload": {p: sum(1 for c in cases if c["cs"]["pay"] == p) for p in ALLP},
        "exhaustive": False,
        "exhaustive_parts": "one-handler shapes: every schedule x mutation kind x payload shape" + (
            "" if quick else "; two-handler shapes: every schedule x 4x4 payload mutations x arrays with / without spare capacity"),
        "phase_wall_s": {"tlc_generate_and_build": round(t1 - t0, 1), "drive": round(t2 - t1, 1), "trace_validation": round(t3 - t2, 1)},
    }
    assumptions = [
        "handler bodies are serialised by the harness (one visible event at a time); concurrent bodies are covered by C10's race runs, not here",
        "two pending invocations of the same asynchronous handler cannot be told apart by the harness; the validation accepts either order",
        "nil and empty payloads are the same value (zero bytes); a copy may turn one into the other",
        "payload bytes beyond len (spare capacity) are not part of the message value; only handlers' kept messages make writes there visible",
        "large payloads are the 3-byte model payloads with every byte repeated %d times" % BIG,
    ]
    vlib.write_evidence(PID, tier, "exploration", cov, time.time() - t0, assumptions, violations=len(v.violations))
    print("C20 %s: %d cases on real code (%d non-trivial, %d large), %d shape schedules from TLC, trace validation %d states, "
          "model checking %s, non-vacuity %d/%d, rejected %d, %.1fs" % (
              tier, len(cases), cov["distinct_nontrivial"], cov["large_payload_cases"], len(shs), vstates,
              "+".join(str(p["states"]) for p in proofs), len(nonv), len(NONVAC), nbad, time.time() - t0))
    return rc


def replay(path):
    obj = json.load(open(path))
    c = obj["replay"]["case"]
    binary = vlib.build_harness()
    results = execute(binary, [c])
    reports, _, _ = validate(results, batch=10, par=1)
    v = vlib.Verdicts(PID)
    judge(v, [c], results, reports)
    return v.finish()
