"""C10 -- safe for concurrent use: packets never interleave on the wire; no data races.

Wire half (decided by the specification): spec/WireWrite.tla -- writers x chunks under muWrite, invariant
"the stream is a concatenation of whole packets", refuted without the mutex; real concurrent callers
(Publish QoS 0/1/2, Subscribe, Unsubscribe, Ping) plus inbound QoS 1/2 traffic that makes the reader
goroutine write acknowledgements, over a transport that delivers every Write in 1-3 byte chunks with
yields and does NOT serialise Write calls; TLC parses the byte stream the broker side received and
checks it is exactly the multiset of whole packets produced (spec/TraceWire.tla).
Memory half (outside what an explicit-state model can decide; declared auxiliary, DESIGN.md section 9):
the same concurrent compositions and reconnect scenarios generated from the specifications are run
under the Go race detector (GORACE=halt_on_error); a report is a witness with the racing frames."""
import json
import os
import random
import re
import sys
import time

sys.path.insert(0, os.path.dirname(os.path.abspath(__file__)))
sys.path.insert(0, os.path.join(os.path.dirname(os.path.abspath(__file__)), "..", "lib"))
import vlib  # noqa: E402
import retry_family as rf  # noqa: E402

PID = "C10"
OPS = "012sugx"


def wire_scenarios(tier, rng):
    out = []
    n = 60 if tier == "quick" else 1500
    for i in range(n):
        k = rng.randint(3, 8)
        callers = ["".join(rng.choice(OPS) for _ in range(rng.randint(2, 5))) for _ in range(k)]
        out.append({"id": "w%d" % i, "callers": callers, "inbound": rng.randint(0, 4), "chunk": rng.choice([1, 1, 2, 3]), "extra": i % 3 == 0})
    # large packets (tens of KiB, beyond any internal buffering or splitting threshold) next to small writers and acknowledgements
    for j in range(6 if tier == "quick" else 60):
        callers = ["L" + rng.choice(["", "L", "0"]), "L", rng.choice(["0101", "s0g1", "1g1g", "2121"]), rng.choice(["g0g0", "0s0u", "2g2u"])]
        out.append({"id": "wl%d" % j, "callers": callers, "inbound": rng.randint(2, 6), "chunk": rng.choice([512, 1024, 4096]), "extra": False})
    # many writers of medium / large messages at once: whoever releases the write lock between two parts of one packet
    # meets a waiter (Go's mutex hands the lock over to a waiter that has been starving for more than 1 ms)
    for j in range(10 if tier == "quick" else 100):
        k = rng.randint(6, 9)
        callers = [rng.choice(["MMMM", "MLMM", "M0M1M", "LMM", "MM2M", "MgMsM"]) for _ in range(k)]
        out.append({"id": "wm%d" % j, "callers": callers, "inbound": rng.randint(0, 3), "chunk": rng.choice([64, 128, 256]), "extra": False})
    return out


def race_where(text):
    """The innermost frame of each of the two racing accesses.  Returns (where, library_race): a report is
    the library's only if both accesses happen in library code (or in the standard library called from it)."""
    accesses = []
    for b in re.split(r"\n\n", text):
        b = b.strip()
        b = re.sub(r"^=+\nWARNING: DATA RACE\n", "", b)
        if re.match(r"(Read|Write|Previous read|Previous write|Atomic|Previous atomic)", b):
            fr = re.findall(r"^  (\S+)\(", b, re.M)
            fr = [f for f in fr if not f.startswith(("runtime.", "sync.", "sync/atomic.", "internal/"))]
            accesses.append(fr)
    if len(accesses) < 2:
        return "?", True
    inner = []
    direct = 0      # accesses whose innermost frame is library code
    onbehalf = 0    # accesses inside harness code that the library called with its own buffer (Transport.Read/Write, handler)
    for fr in accesses[:2]:
        top = fr[0] if fr else "?"
        if "github.com/at-wat/mqtt-go." in top:
            direct += 1
        else:
            # an access inside the standard library counts for whoever called it
            caller = next((f for f in fr if "at-wat/mqtt-go." in f or f.startswith(("main.", "verifharness/"))), "?")
            if "at-wat/mqtt-go." in caller:
                direct += 1
            elif any("at-wat/mqtt-go." in f for f in fr):
                onbehalf += 1
            top = caller
        inner.append(re.sub(r"\.func\d+(\.\d+)*$", "", top.split("mqtt-go.")[-1]))
    # the library's race: both accesses in library code, or one in library code and the other in a transport /
    # handler method the library invoked (it reads or fills the buffer the library handed over)
    lib = direct == 2 or (direct == 1 and onbehalf == 1)
    return " <-> ".join(sorted(inner)), lib


def run_race(binary, family, scs, conc):
    if not scs:
        return []
    inp = "\n".join(json.dumps(s) for s in scs) + "\n"
    p = vlib.run_drive(binary, ["run", family, "-j", str(vlib.NCPU), "-c", str(conc), "-timeout", "120s"], stdin=inp, timeout=1800,
                       env={"GORACE": "halt_on_error=1 exitcode=66"})
    if p.returncode != 0:
        raise vlib.Infra("race driver failed: " + p.stderr[-2000:])
    return [json.loads(l) for l in p.stdout.splitlines() if l.strip()]


def run(tier):
    t0 = time.time()
    rng = random.Random(vlib.seed() * 5 + 10)
    verd = vlib.Verdicts(PID)
    binary = vlib.build_harness()
    # model
    r = vlib.tlc_ok(vlib.tlc("WireWrite", cfg="WireWrite.cfg", workers=4, timeout=300), "WireWrite model")
    cfgb = open(os.path.join(vlib.SPEC, "WireWrite.cfg")).read().replace("BugNoMutex = FALSE", "BugNoMutex = TRUE")
    rb = vlib.tlc("WireWrite", cfg="WB.cfg", files={"WB.cfg": cfgb}, workers=1, timeout=300)
    if not rb.violated:
        raise vlib.Infra("non-vacuity: WireWrite without mutex not refuted")
    # the retrying client's task goroutine, its wake-up channel and Disconnect: everything under c.mu (RetryStop.tla);
    # the code before fix F20 and the seeded change c10g are refuted (NoRace / NoSendOnClosed)
    rscfg = open(os.path.join(vlib.SPEC, "RetryStop.cfg")).read().replace('Apps = {"a1", "a2"}', 'Apps = {"a1", "a2", "a3"}')
    rs = vlib.tlc_ok(vlib.tlc("RetryStop", cfg="RS.cfg", files={"RS.cfg": rscfg}, workers=4, timeout=300), "RetryStop model")
    for sw in ("BugChTaskOutsideLock", "BugSendOutsideLock"):
        rsb = vlib.tlc("RetryStop", cfg="RSB.cfg", files={"RSB.cfg": rscfg.replace("%s = FALSE" % sw, "%s = TRUE" % sw)}, workers=1, timeout=300)
        if rsb.violated not in ("NoRace", "NoSendOnClosed"):
            raise vlib.Infra("non-vacuity: RetryStop with %s not refuted (%s)" % (sw, rsb.violated))
    # ... and bound to the real RetryClient: recorded orders of its critical sections (hooks SetClient / pushTask / tgPop,
    # fired under c.mu) while goroutines submit during SetClient / Connect / Disconnect must be behaviours of the model
    # (TraceRetryStop.tla); a corrupted copy of the first trace must be rejected (the binding is not vacuous)
    ssc = [{"id": "st%d" % k, "reqs": [], "plan": {}, "opts": {"stopApps": 3, "stopSkewUs": (k * 7) % 400}} for k in range(40 if tier == "quick" else 400)]
    sres = rf.run_scenarios(binary, ssc, conc=1)
    straces = [{"id": i, "evs": r_["evs"]} for i, r_ in sorted(sres.items()) if "evs" in r_ and not r_.get("info", {}).get("infra")]
    if len(straces) < len(ssc) * 0.9:
        raise vlib.Infra("stop-race runs: only %d of %d finished" % (len(straces), len(ssc)))
    bad_copy = json.loads(json.dumps(straces[0]))
    for e_ in bad_copy["evs"]:
        if e_["e"] == "push":
            e_["n"] += 1
            break
    bad_copy["id"] = "corrupted"
    stext = "\n".join(json.dumps(x) for x in straces + [bad_copy]) + "\n"
    st = vlib.tlc("TraceRetryStop", cfg="TraceRetryStop.cfg", files={"stop_traces.ndjson": stext}, workers=1, timeout=600, deque=True)
    srep = st.printed("REPORT")
    if st.violated:
        verd.witness("retrystop-" + st.violated, "", "a recorded run of the RetryClient's critical sections violates %s of RetryStop.tla" % st.violated, {"tlc": st.out[-3000:]})
        srows = []
    elif not srep:
        raise vlib.Infra("TraceRetryStop failed:\n" + st.out[-2000:])
    else:
        srows = json.loads(vlib.parse_tla_value(srep[-1]))
    stop_rejected = [x["id"] for x in srows if x["hw"] != x["len"] + 1]
    if srows and "corrupted" not in stop_rejected:
        raise vlib.Infra("non-vacuity: TraceRetryStop accepted a corrupted trace")
    stop_rejected = [x for x in stop_rejected if x != "corrupted"]
    for sid in stop_rejected[:5]:
        print("DRIFT property=C10 trace=%s: the recorded order of SetClient / pushTask / tgPop is not a behaviour of RetryStop.tla" % sid)
    # wire half on the real code
    scs = wire_scenarios(tier, rng)
    byid = {s["id"]: s for s in scs}
    inp = "\n".join(json.dumps(s) for s in scs) + "\n"
    p = vlib.run_drive(binary, ["run", "wire", "-j", str(vlib.NCPU), "-c", "2", "-timeout", "60s"], stdin=inp, timeout=1500)
    if p.returncode != 0:
        raise vlib.Infra("wire driver failed: " + p.stderr[-2000:])
    results = []
    for l in p.stdout.splitlines():
        if l.strip():
            x = json.loads(l)
            if "crash" in x:
                kind, msg = rf.crash_kind(x["crash"])
                verd.witness(kind, "", msg, {"scenario": byid[x["id"]], "crash": x["crash"][-3000:]})
            else:
                results.append(x)
    bad = []
    for chunk in vlib.chunks(results, 400):
        text = "\n".join(json.dumps(x, separators=(",", ":")) for x in chunk) + "\n"
        tr = vlib.tlc("TraceWire", cfg="TW.cfg", files={"wire_runs.ndjson": text, "TW.cfg": ""}, workers=1, timeout=900, heap="4g")
        rep = tr.printed("REPORT")
        if not rep:
            raise vlib.Infra("TraceWire failed:\n" + tr.out[-3000:])
        bad += json.loads(vlib.parse_tla_value(rep[-1]))["bad"]
    resid = {x["id"]: x for x in results}
    for b in bad:
        x = resid[b]
        verd.witness("stream-not-whole-packets", "", "callers %s inbound %d chunk %d: %d bytes received, %d packets expected, call errors %s"
                     % (byid[b]["callers"], byid[b]["inbound"], byid[b]["chunk"], len(x["stream"]), len(x["expected"]) + x["pings"], x["errs"][:3]),
                     {"scenario": byid[b], "stream": x["stream"], "expected": x["expected"]})
    # memory half: race detector over the same compositions + reconnect scenarios
    races = 0
    race_runs = 0
    try:
        rbin = vlib.build_harness(race=True)
    except vlib.Infra as e:
        rbin = None
        verd.notes.append("race build unavailable: %s" % str(e)[:200])
    if rbin:
        wsub = [dict(s, id="r" + s["id"]) for s in scs[: (20 if tier == "quick" else 300)]]
        comps = rf.gen_components()
        import retry_checks
        rsc = retry_checks.regress()[:10] + retry_checks.sampled("c10", rng, 40 if tier == "quick" else 600, comps, ["w_pub", "w_sub", "w_mixed"],
                                                              connacks=retry_checks.KEPT + retry_checks.LOST + [[]] * 3,
                                                              optgen=lambda r_: {"pingMs": r_.choice([0, 0, 10]), "connTimeoutMs": 300, "hammer": r_.random() < 0.6})
        # several reconnects with requests in flight while other goroutines keep calling Ping / Stats / Client / Handle
        for j in range(12 if tier == "quick" else 60):
            wl = [retry_checks.PUB(1), retry_checks.PUB(2), retry_checks.SUB(("x", 1))][: 2 + j % 2]
            fl = [{"k": 2, "o": "cutAfter"}, {"k": 4, "o": rng.choice(["cutBefore", "cutAfter"])}, {"k": 7, "o": "cutAfter"}][: 2 + j % 2]
            rsc.append(rf.scenario("c10h-%d" % j, wl, ["conn"] * len(wl), fl, connacks=retry_checks.LOST[0] if j % 3 == 0 else [],
                                   opts={"hammer": True, "hammerSleepUs": 10 + 20 * (j % 3), "connTimeoutMs": 300}))
        # ... and the reconnect handshake held inside a ConnectOption (after SetClient, before the new client is initialised)
        # for a few milliseconds while those goroutines keep calling
        for j in range(6 if tier == "quick" else 30):
            sc = rf.scenario("c10g-%d" % j, [retry_checks.PUB(1 + j % 2)], ["conn"], [{"k": 2, "o": "cutAfter"}], opts={"hammer": True, "hammerSleepUs": 20, "connTimeoutMs": 300})
            sc["reqs"] += [{"k": "sleep", "ms": 3, "at": "connopt:3"}]
            rsc.append(sc)
        # Disconnect while other goroutines keep submitting requests through the same retrying client (the task queue and its
        # wake-up channel are closed by Disconnect: a submission must either be queued or be refused, c10g)
        dsc = []
        # -- and, the submitting goroutines being there from before Connect, also during the first SetClient (F20: measured
        # 10-25 % of such runs report the race on the tree before the fix, hence 36 of them in the quick tier)
        for j in range(36 if tier == "quick" else 240):
            sc = rf.scenario("c10d-%d" % j, [retry_checks.PUB(1)], ["conn"], [], opts={"hammerPub": (3, 6, 10)[j % 3], "hammerSleepUs": (1, 20, 5, 20)[j % 4], "connTimeoutMs": 300})
            sc["reqs"] += [{"k": "sleep", "ms": 1 + j % 3, "at": "conn"}, {"k": "disconnect", "at": "conn"}]
            dsc.append(sc)
        # subscriptions changing (the submitters' Unsubscribe calls run in the task goroutine) while the reconnect loop
        # restores them after a lost session / with AlwaysResubscribe
        for j in range(10 if tier == "quick" else 80):
            fl = [{"p": "PUBLISH", "n": k, "o": "cutAfter"} for k in (1, 2, 3)][: 2 + j % 2]
            wl = [retry_checks.SUB(("x", 1), ("y", 2))] + [retry_checks.PUB(1)] * (len(fl) + 1)
            sc = rf.scenario("c10r-%d" % j, wl, ["conn"] * len(wl), fl, connacks=retry_checks.LOST[2] if j % 2 else [],
                             opts={"alwaysResub": j % 2 == 0, "hammerPub": 3, "hammerSubs": True, "hammerSleepUs": (50, 200, 1000)[j % 3], "connTimeoutMs": 300})
            dsc.append(sc)
        dsc += [dict(s_, id="c10" + s_["id"]) for s_ in retry_checks.resub_handshake("rh")]
        # DirectlyPublishQoS0: the callers' goroutines write on whatever base client is current while the reconnect loop
        # replaces and initialises it (SetClient, then Connect -> init) -- several reconnects each
        for j in range(16 if tier == "quick" else 80):
            fl = [{"p": "PUBLISH", "n": k, "o": "cutAfter"} for k in (1, 2, 3)][: 2 + j % 2]
            wl = [retry_checks.PUB(1)] * (len(fl) + 1)
            sc = rf.scenario("c10q-%d" % j, wl, ["conn"] * len(wl), fl, opts={"directQoS0": True, "hammerPub": 2 + j % 3, "hammerSleepUs": (1, 5, 20)[j % 3], "connTimeoutMs": 300})
            # ... the handshake held for a moment inside a ConnectOption (after SetClient, before the new client is initialised)
            sc["reqs"] += [{"k": "sleep", "ms": 5, "at": "connopt:%d" % n_} for n_ in range(3, len(fl) + 3)]
            dsc.append(sc)
        # application-side concurrency on the retrying client: Handle / Ping / sample (Client, Err, Done) while requests run
        for s in rsc:
            s["reqs"] = s["reqs"] + [{"k": "handle", "h": 1, "at": "conn"}, {"k": "sample", "at": "conn"}]
        # concurrent requests whose acknowledgements arrive back to back (what the reader hands to a waiter must not be
        # shared with the next acknowledgement it parses)
        import c07_acks
        asc = [{"id": "ab%d" % bi, "batch": b} for bi, b in enumerate(vlib.chunks(c07_acks.bursts(tier, rng) + c07_acks.abandoned(), 6))]
        for fam, lst, conc in (("wire", wsub, 1), ("retry", rsc + dsc, 2), ("acks", asc, 2)):
            for x in run_race(rbin, fam, lst, conc):
                race_runs += 1
                if "crash" in x and "DATA RACE" in x["crash"]:
                    where, lib = race_where(x["crash"])
                    if not lib:
                        raise vlib.Infra("data race inside the harness itself (%s):\n%s" % (where, x["crash"][:3000]))
                    races += 1
                    verd.witness("data-race", where, where, {"scenario": x.get("id"), "report": x["crash"][-6000:]})
                elif "crash" in x:
                    kind, msg = rf.crash_kind(x["crash"])
                    verd.witness(kind, "", msg, {"scenario": x.get("id"), "crash": x["crash"][-3000:]})
    rc = verd.finish()
    vlib.write_evidence(PID, tier, "model_checking", {
        "states": r.states + rs.states, "transitions": r.generated + rs.generated, "traces_validated_against_impl": len(results),
        "retry_stop_model_states": rs.states, "retry_stop_traces_validated": len(straces) - len(stop_rejected), "retry_stop_traces_rejected": stop_rejected[:10],
        "wire_runs": len(results), "race_detector_runs": race_runs, "race_reports": races,
        "evaluations": len(results) + race_runs, "distinct_nontrivial": len({json.dumps(s["callers"]) for s in scs}),
        "rule": "3-8 concurrent callers with 2-5 operations each over {publish q0, publish q1, publish q2, subscribe, unsubscribe, ping}, 0-4 inbound QoS1+QoS2 messages, chunk size 1-3, optional concurrent Err/Done/Stats/Handle callers; acknowledgement bursts and abandoned requests (C07 scripts) under the race detector; the race detector runs the same compositions and reconnect scenarios with Handle/sample calls",
        "samples": [{"scenario": scs[0], "bytes_received": len(results[0]["stream"]) if results else 0}], "exhaustive": False,
        "memory_half": "auxiliary: Go race detector, not decidable by the TLA+ model (DESIGN.md section 9)",
    }, time.time() - t0, ["the chunking transport completes every Write (no short writes: BaseClient.write does not support them)",
                           "race detector: only interleavings that actually occurred are judged"], violations=len(verd.violations))
    print("C10: WireWrite model %d states; %d chunked concurrent runs validated by TLC (TraceWire), %d not whole packets; race detector: %d runs, %d reports; %.0fs"
          % (r.states, len(results), len(bad), race_runs, races, time.time() - t0))
    return rc
