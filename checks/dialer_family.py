"""Family "dialer": the library's own URL dialer against a loop-back TCP listener (harness/cmd/drive/dialer.go).
Used by C05 (WithMaxPayloadLen reaches the client), C09 (every CONNECT of the reconnecting client is the same),
C16 (WithConnStateHandler receives the state changes), C19 (ErrUnsupportedProtocol is inspectable)."""
import json
import os
import sys

sys.path.insert(0, os.path.join(os.path.dirname(os.path.abspath(__file__)), "..", "lib"))
import vlib  # noqa: E402


TRANSPORTS = ("tls", "ws", "wss")


def run(binary, scenarios):
    """Returns {id: result}; scenarios the sandbox cannot run (no loop-back) are left out."""
    inp = "\n".join(json.dumps(s) for s in scenarios) + "\n"
    p = vlib.run_drive(binary, ["run", "dialer", "-j", "4", "-c", "2", "-timeout", "60s"], stdin=inp, timeout=300)
    if p.returncode != 0:
        raise vlib.Infra("dialer driver failed: " + p.stderr[-1500:])
    out = {}
    for line in p.stdout.splitlines():
        if not line.strip():
            continue
        r = json.loads(line)
        if r.get("infra") or "crash" in r:
            raise vlib.Infra("dialer driver: %s" % line[:400])
        if r.get("skipped"):
            continue
        out[r["id"]] = r
    return out


def c05(binary, verd):
    """payload over the maximum configured THROUGH THE DIALER is rejected before anything is written; below it is sent"""
    scs = []
    for mx in (8, 100, 4096):
        for q in (0, 1, 2):
            scs.append({"id": "mx%d-q%d-over" % (mx, q), "max": mx, "payload": mx + 1, "qos": q})
            scs.append({"id": "mx%d-q%d-under" % (mx, q), "max": mx, "payload": mx - 1, "qos": q})
    # the same through the TLS and WebSocket transports the URL dialer can build (mqtts://, ws://, wss://)
    for tr in TRANSPORTS:
        scs.append({"id": "mx100-q1-over-%s" % tr, "max": 100, "payload": 101, "qos": 1, "transport": tr})
        scs.append({"id": "mx100-q2-under-%s" % tr, "max": 100, "payload": 99, "qos": 2, "transport": tr})
    res = run(binary, scs)
    for s in scs:
        r = res.get(s["id"])
        if r is None:
            continue
        wrote = "PUBLISH" in " ".join(r["packets"])
        if s["payload"] > s["max"] and (not r["pubExceeded"] or wrote):
            verd.witness("dialer_max_payload", "over", "WithMaxPayloadLen(%d), payload %d bytes, QoS %d: error %r (ErrPayloadLenExceeded: %s), PUBLISH written: %s"
                         % (s["max"], s["payload"], s["qos"], r["pubErr"], r["pubExceeded"], wrote), {"scenario": s, "result": r})
        if s["payload"] < s["max"] and (r["pubErr"] or not wrote):
            verd.witness("dialer_max_payload", "under", "WithMaxPayloadLen(%d), payload %d bytes, QoS %d: error %r, PUBLISH written: %s"
                         % (s["max"], s["payload"], s["qos"], r["pubErr"], wrote), {"scenario": s, "result": r})
    return len(res)


def c16(binary, verd):
    scs = [{"id": "st-plain", "max": 0, "payload": 3, "qos": 1}, {"id": "st-re2", "max": 0, "payload": 3, "qos": 1, "reconnects": 2}]
    scs += [{"id": "st-re1-%s" % tr, "max": 0, "payload": 3, "qos": 1, "reconnects": 1, "transport": tr} for tr in TRANSPORTS]
    res = run(binary, scs)
    for s in scs:
        r = res.get(s["id"])
        if r is None:
            continue
        n = s.get("reconnects", 0)
        want = ["Active(nil)", "Closed(eof)"] * n + ["Active(nil)", "Disconnected(nil)"]
        got = [x if not x.startswith("Closed(") or x == "Closed(nil)" else "Closed(eof)" for x in r["states"]]
        if got != want:
            verd.witness("dialer_state_handler", s["id"], "WithConnStateHandler saw %s, expected %s" % (r["states"], want), {"scenario": s, "result": r})
    return len(res)


def c19(binary, verd):
    scs = [{"id": "sch-%s" % x, "max": 0, "payload": 1, "qos": 0, "scheme": x} for x in ("http", "ftp", "mqtt5", "")]
    scs.append({"id": "unconnected", "unconnected": True})
    res = run(binary, scs)
    for call, ok in sorted((res.get("unconnected", {}).get("notConnected") or {}).items()):
        if not ok:
            verd.witness("C19_NotConnected", call, "%s on a client that was never connected: errors.Is does not find ErrNotConnected" % call, {"call": call})
    for s in scs:
        r = res.get(s["id"])
        if r is None or s.get("unconnected"):
            continue
        if s["scheme"] and not r["unsupported"]:
            verd.witness("C19_UnsupportedProtocol", s["scheme"], "dialling %s://: error %r, errors.Is(ErrUnsupportedProtocol) = %s" % (s["scheme"], r["dialErr"], r["unsupported"]),
                         {"scenario": s, "result": r})
        if not s["scheme"] and (r["dialErr"] or r["unsupported"]):
            verd.witness("C19_UnsupportedProtocol", "mqtt", "dialling mqtt:// failed: %r" % r["dialErr"], {"scenario": s, "result": r})
    return len(res)


def c09(binary, verd):
    scs = [{"id": "same-connect-%d" % n, "max": 0, "payload": 3, "qos": 1, "reconnects": n} for n in (1, 3)]
    scs += [{"id": "same-connect-2-%s" % tr, "max": 0, "payload": 3, "qos": 2, "reconnects": 2, "transport": tr} for tr in TRANSPORTS]
    res = run(binary, scs)
    for s in scs:
        r = res.get(s["id"])
        if r is None:
            continue
        if len(r["connects"]) < s["reconnects"] + 1 or len(set(r["connects"])) != 1 or any(p.split()[:1] != ["CONNECT"] or p.split().count("CONNECT") != 1 for p in r["packets"]):
            verd.witness("C09_SameConnectViaDialer", "", "URL dialer + reconnecting client: connections saw %s; CONNECT packets %s" % (r["packets"], sorted(set(r["connects"]))),
                         {"scenario": s, "result": r})
    return len(res)
