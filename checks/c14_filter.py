"""C14 - topic filters validate / match per MQTT 3.1.1 section 4.7; ServeMux dispatches accordingly.

Oracle and generator: spec/TopicFilter.tla, evaluated by TLC in four phases (run as parallel TLC
processes):
  lemmas  consistency lemmas of ValidStr / MatchLv / Dispatch (a failure is an infrastructure error,
          never a verdict about the library);
  table   truth table of every filter x every topic name over the level alphabets up to Depth
          levels, plus the same filters as one big ServeMux registration order (forwards, backwards);
  mux     every registration sequence up to MuxLen over a pool of valid and invalid filters,
          with the expected handler sequence for every topic name up to MuxTopicDepth levels;
  random  seeded random character strings (long levels, wildcards inside levels, unicode, odd
          separators) generated HERE from VERIF_SEED and handed to TLC as sequences of
          one-character atoms; TLC computes validity / matches / dispatch on exactly those
          characters with the string-level operators of the specification (no abstraction).
The Go driver (harness/cmd/drive/filter.go, family "filter") runs the real code
(mqtt.VerifTopicFilter = newTopicFilter + Match, and the public ServeMux.Handle / HandleFunc / Serve)
on all of it and returns the disagreements, which become witnesses here."""
import concurrent.futures as cf
import json
import os
import random
import re
import sys
import time

sys.path.insert(0, os.path.dirname(os.path.abspath(__file__)))
import vlib  # noqa: E402

PID = "C14"

# bounds per tier: Depth (table), LemmaDepth, MuxLen, MuxTopicDepth, random groups, TLC timeout
TIERS = {
    "quick":    dict(depth=4, lemma=4, muxlen=3, muxtopic=3, groups=400, tmo=120),
    "thorough": dict(depth=6, lemma=5, muxlen=4, muxtopic=4, groups=6000, tmo=420),
}
MAX_WITNESSES_PER_KIND = 8

ASSUMPTIONS = [
    "topic names served: at least one character, no '+' / '#', not starting with '$' (quantifier of C14; "
    "MQTT 4.7.2 '$' rules and the empty topic name are outside the statement and never fed to the code)",
    "filter strings contain no U+0000 and are far shorter than 65535 bytes (the statement names only the three rules: "
    "non-empty, '+' whole level, '#' whole last level)",
    "a rejected filter must satisfy errors.Is(err, mqtt.ErrInvalidTopicFilter) (the error ServeMux.Handle documents)",
    "exhaustive part: level alphabet {a, b, empty, +, #, a+, #a} for filters and {a, b, empty} for topics; "
    "beyond the depth bound and for other characters only the seeded random sample speaks",
]


# ----------------------------------------------------------------------------------------
# TLC side
# ----------------------------------------------------------------------------------------
def cfg_text(phases, b):
    return ("CONSTANTS\n Phases = {%s}\n Depth = %d\n LemmaDepth = %d\n MuxLen = %d\n MuxTopicDepth = %d\n"
            % (", ".join('"%s"' % p for p in phases), b["depth"], b["lemma"], b["muxlen"], b["muxtopic"]))


def run_phase(phase, b, files=None):
    fs = {"TF_%s.cfg" % phase: cfg_text([phase], b)}
    fs.update(files or {})
    r = vlib.tlc("TopicFilter", cfg="TF_%s.cfg" % phase, files=fs, workers=1, timeout=b["tmo"], heap="6g")
    if "No error has been found" not in r.out:
        raise vlib.Infra("TLC phase %s of TopicFilter.tla failed (a failed lemma / ASSUME is a defect of the "
                         "specification, not of the library):\n%s" % (phase, "\n".join(r.out.splitlines()[-40:])))
    tag = {"lemmas": "LEMMAS", "table": "TABLE", "mux": "MUX", "random": "RANDOM"}[phase]
    pr = r.printed(tag)
    if not pr:
        raise vlib.Infra("TLC phase %s printed no %s summary:\n%s" % (phase, tag, r.out[-2000:]))
    return r, vlib.parse_tla_value(pr[-1])


def s(atoms):
    """sequence of one-character atoms -> the string"""
    return "".join(atoms)


# ----------------------------------------------------------------------------------------
# seeded random strings (the expectation for them is computed by TLC, not here)
# ----------------------------------------------------------------------------------------
ASCII = list("abcdexyzABZ019 _-.:,;=!?@%&*()[]{}<>|~^'\"\\$")
UNI = list("\u00e9\u00fc\u00df\u00f1\u03a9\u0436\u05e9\u0639\u65e5\u672c\u8a9e\ud55c\U0001d11e\U0001f600\u00a0")
FIXED_FILTERS = ["", "/", "//", "#", "+", "/#", "#/", "+/+", "+/#", "/+", "+/", "a/+/", "/+/#", "++", "##", "+#", "#+",
                 "a/#/", "a//#", "a//+//b", "\u00e9/+/\u65e5\u672c", "+/+/+/+/+/+/+/#", "a/b/c/d/e/f/g/h/i/j"]


def rand_word(rng):
    n = rng.choice([1, 1, 2, 3, 5, 8, 12])
    return "".join(rng.choice(UNI) if rng.random() < 0.3 else rng.choice(ASCII) for _ in range(n))


def bad_level(rng, W):
    w = rng.choice(W)
    k = rng.randrange(0, len(w) + 1)
    return rng.choice([w + "+", "+" + w, w + "#", "#" + w, "++", "##", "+#", "#+", w[:k] + "+" + w[k:], w[:k] + "#" + w[k:],
                       "+ ", " #", "+" + w + "+"])


def rand_filter(rng, W):
    if rng.random() < 0.06:
        return rng.choice(FIXED_FILTERS)
    depth = rng.choice([1, 1, 2, 2, 3, 3, 4, 5, 6, 8, 10])
    tidy = rng.random() < 0.6            # aim at a valid filter (TLC decides whether it is)
    out = []
    for i in range(depth):
        last = i == depth - 1
        r = rng.random()
        if tidy:
            if last and r < 0.3:
                l = "#"
            elif r < 0.5:
                l = "+"
            elif r < 0.6:
                l = ""
            else:
                l = rng.choice(W)
        else:
            if r < 0.45:
                l = rng.choice(W)
            elif r < 0.55:
                l = ""
            elif r < 0.7:
                l = "+"
            elif r < 0.8:
                l = "#"
            else:
                l = bad_level(rng, W)
        out.append(l)
    return "/".join(out)


def fix_topic(rng, t, W):
    t = t.replace("+", "").replace("#", "")
    if t == "":
        t = rng.choice(W)
    if t[0] == "$":
        t = "x" + t
    return t


def rand_topic_for(rng, f, W):
    """a topic name shaped after filter f (so that matches are frequent), randomly perturbed"""
    out = []
    for l in f.split("/"):
        if l == "+":
            out.append(rng.choice(W + [""]))
        elif l == "#":
            out.extend(rng.choice(W + [""]) for _ in range(rng.choice([0, 0, 1, 2, 3])))
        else:
            out.append(l.replace("+", "").replace("#", ""))
    r = rng.random()
    if r < 0.15 and out:
        i = rng.randrange(len(out))
        out[i] = rng.choice(W + ["", out[i].swapcase(), out[i] + "x", out[i][:-1]])
    elif r < 0.25:
        out.append(rng.choice(W + [""]))
    elif r < 0.35 and len(out) > 1:
        out.pop(rng.randrange(len(out)))
    elif r < 0.40:
        out.insert(0, "")
    return fix_topic(rng, "/".join(out), W)


def rand_groups(rng, n):
    groups = []
    for gi in range(n):
        W = []
        while len(W) < 4:
            w = rand_word(rng).replace("/", "")
            if w and w not in W:
                W.append(w)
        fs = [rand_filter(rng, W) for _ in range(8)]
        if rng.random() < 0.5:
            fs[rng.randrange(8)] = fs[rng.randrange(8)]      # the same filter registered twice
        ts = []
        for f in fs:
            for _ in range(3):
                ts.append(rand_topic_for(rng, f, W))
        for _ in range(4):
            ts.append(fix_topic(rng, "/".join(rng.choice(W + [""]) for _ in range(rng.choice([1, 2, 3, 5]))), W))
        ts = list(dict.fromkeys(ts))
        groups.append({"id": "r%d" % gi, "fs": fs, "ts": ts})
    return groups


# ----------------------------------------------------------------------------------------
# scenarios for the driver
# ----------------------------------------------------------------------------------------
def build_scenarios(tier, b, out):
    """out: phase -> (TLCResult, summary).  Returns (scenarios, bookkeeping)."""
    scs = []
    info = {}
    # truth table
    d = out["table"][0].dir
    topics = [s(r["s"]) for r in vlib.ndjson_read(os.path.join(d, "topics.ndjson"))]
    rows = [{"f": s(r["s"]), "v": r["v"], "m": r["m"]} for r in vlib.ndjson_read(os.path.join(d, "table.ndjson"))]
    summ = out["table"][1]
    if len(rows) != summ["filters"] or len(topics) != summ["topics"] or len(set(topics)) != len(topics) \
            or len({r["f"] for r in rows}) != len(rows):
        raise vlib.Infra("truth table dump inconsistent with TLC's summary %s" % summ)
    if any(t == "" or t[0] == "$" or "+" in t or "#" in t for t in topics):
        raise vlib.Infra("truth table contains a string that is not a topic name of the property")
    per = 100 if tier == "quick" else 1500
    for k, ch in enumerate(vlib.chunks(rows, per)):
        scs.append({"id": "table-%d" % k, "groups": [{"g": "table", "topics": topics, "rows": ch, "muxes": []}]})
    big = vlib.ndjson_read(os.path.join(d, "bigmux.ndjson"))
    for k, m in enumerate(big):
        scs.append({"id": "bigmux-%s" % ("fwd", "rev")[k], "groups": [{"g": "bigmux", "topics": topics, "rows": [], "muxes": [
            {"regs": [s(x) for x in m["regs"]], "v": m["v"], "d": m["d"]}]}]})
    info["table_rows"], info["table_topics"] = rows, topics
    # enumerated registration orders
    d = out["mux"][0].dir
    mtopics = [s(r["s"]) for r in vlib.ndjson_read(os.path.join(d, "muxtopics.ndjson"))]
    muxes = [{"regs": [s(x) for x in m["regs"]], "v": m["v"], "d": m["d"]} for m in vlib.ndjson_read(os.path.join(d, "mux.ndjson"))]
    if len(muxes) != out["mux"][1]["muxes"] or len(mtopics) != out["mux"][1]["topics"]:
        raise vlib.Infra("mux dump inconsistent with TLC's summary")
    for k, ch in enumerate(vlib.chunks(muxes, 150 if tier == "quick" else 600)):
        scs.append({"id": "mux-%d" % k, "groups": [{"g": "mux", "topics": mtopics, "rows": [], "muxes": ch}]})
    info["muxes"], info["mux_topics"] = muxes, mtopics
    # random strings
    rin, rout = out["random_in"], vlib.ndjson_read(os.path.join(out["random"][0].dir, "rand_out.ndjson"))
    if [g["id"] for g in rin] != [g["id"] for g in rout]:
        raise vlib.Infra("random phase: TLC's output does not line up with the input groups")
    rgroups = []
    for gin, gout in zip(rin, rout):
        rgroups.append({"g": gin["id"], "topics": gin["ts"],
                        "rows": [{"f": f, "v": v, "m": m} for f, v, m in zip(gin["fs"], gout["v"], gout["m"])],
                        "muxes": [{"regs": gin["fs"], "v": gout["v"], "d": gout["d"]}]})
    for k, ch in enumerate(vlib.chunks(rgroups, 25 if tier == "quick" else 100)):
        scs.append({"id": "rand-%d" % k, "groups": ch})
    info["rand_groups"] = rgroups
    return scs, info


def nontrivial(row):
    """the filter contains a wildcard character or is invalid"""
    return (not row["v"]) or "+" in row["f"] or "#" in row["f"]


def count_coverage(info):
    rows, topics = info["table_rows"], info["table_topics"]
    tf, tt = {r["f"] for r in rows}, set(topics)
    nt_filters = sum(1 for r in rows if nontrivial(r))
    distinct_pairs = len(rows) * len(topics)
    distinct_nt = nt_filters * len(topics)
    valid_wild_pairs = sum(1 for r in rows if r["v"] and nontrivial(r)) * len(topics)
    expected_matches = sum(len(r["m"]) for r in rows)
    seen = set()
    rfilters = set()
    for g in info["rand_groups"]:
        for r in g["rows"]:
            rfilters.add(r["f"])
            for j, t in enumerate(g["topics"]):
                if r["f"] in tf and t in tt:
                    continue
                key = (r["f"], t)
                if key in seen:
                    continue
                seen.add(key)
                distinct_pairs += 1
                if nontrivial(r):
                    distinct_nt += 1
                    if r["v"]:
                        valid_wild_pairs += 1
            expected_matches += len(r["m"])
    dispatch_cases = set()
    for m in info["muxes"]:
        for t in info["mux_topics"]:
            dispatch_cases.add((tuple(m["regs"]), t))
    ndisp = len(dispatch_cases) + 2 * len(topics) + sum(len(g["topics"]) for g in info["rand_groups"])
    return dict(distinct_pairs=distinct_pairs, distinct_nontrivial=distinct_nt, distinct_valid_wildcard_pairs=valid_wild_pairs,
                expected_matches=expected_matches, distinct_dispatch_cases=ndisp,
                table_filters=len(rows), table_filters_invalid=sum(1 for r in rows if not r["v"]),
                table_filters_valid_wildcard=sum(1 for r in rows if r["v"] and nontrivial(r)), table_topics=len(topics),
                random_distinct_filters=len(rfilters), random_groups=len(info["rand_groups"]))


# ----------------------------------------------------------------------------------------
# driver + witnesses
# ----------------------------------------------------------------------------------------
def execute(binary, scs):
    d = vlib.scratch("verif-c14-")
    path = os.path.join(d, "scenarios.ndjson")
    vlib.ndjson_write(path, scs)
    with open(path) as fh:
        text = fh.read()
    p = vlib.run_drive(binary, ["run", "filter", "-j", str(min(vlib.NCPU, max(1, len(scs)))), "-c", "1", "-timeout", "240s"], stdin=text, timeout=600)
    if p.returncode != 0:
        raise vlib.Infra("driver failed (rc=%s): %s" % (p.returncode, p.stderr[-2000:]))
    res = {}
    for line in p.stdout.splitlines():
        if line.strip():
            r = json.loads(line)
            res[r["id"]] = r
    missing = [x["id"] for x in scs if x["id"] not in res]
    if missing:
        raise vlib.Infra("driver returned no result for %s" % missing[:5])
    return res


def minimal(sc, m):
    """the smallest scenario that re-exhibits mismatch m of scenario sc"""
    g = sc["groups"][m["group"]]
    tsel = list(range(len(g["topics"]))) if m["topic"] < 0 else [m["topic"]]
    if m["row"] >= 0 and tsel and len(tsel) > 4:
        tsel = tsel[:4]
    topics = [g["topics"][j] for j in tsel]
    renum = {j + 1: k + 1 for k, j in enumerate(tsel)}
    grp = {"g": g["g"], "topics": topics, "rows": [], "muxes": []}
    if m["row"] >= 0:
        r = g["rows"][m["row"]]
        grp["rows"] = [{"f": r["f"], "v": r["v"], "m": [renum[j] for j in r["m"] if j in renum]}]
    if m["mux"] >= 0:
        x = g["muxes"][m["mux"]]
        if len(x["regs"]) > 64:
            # big registration orders: keep the registrations the disagreement is about plus the first few
            keep = set(range(8))
            if m["reg"] >= 0:
                keep.add(m["reg"])
            for j in tsel:
                keep.update(i - 1 for i in x["d"][j])
            keep.update(int(v) - 1 for v in re.findall(r"\d+", m.get("got", "").split("...")[0]))
            keep = sorted(i for i in keep if 0 <= i < len(x["regs"]))
            pos = {i + 1: k + 1 for k, i in enumerate(keep)}
            grp["muxes"] = [{"regs": [x["regs"][i] for i in keep], "v": [x["v"][i] for i in keep],
                             "d": [[pos[i] for i in x["d"][j] if i in pos] for j in tsel]}]
        else:
            grp["muxes"] = [{"regs": x["regs"], "v": x["v"], "d": [x["d"][j] for j in tsel]}]
    return {"id": "replay", "groups": [grp]}


def collect(verd, scs, res):
    """driver results -> witnesses.  Returns totals."""
    tot = dict(filters=0, pairs=0, matched=0, handles=0, dispatch=0, invoked=0, nmism=0)
    per_kind = {}
    by_id = {x["id"]: x for x in scs}
    prio = {"table": 0, "mux": 1, "rand": 2, "bigmux": 3, "replay": 0}      # smallest witnesses first
    for sid in sorted(res, key=lambda x: (prio.get(x.split("-")[0], 9), len(x), x)):
        r = res[sid]
        if "crash" in r:
            raise vlib.Infra("driver worker crashed outside the guarded calls on %s:\n%s" % (sid, r["crash"][-1500:]))
        if r.get("infra"):
            raise vlib.Infra("driver: %s: %s" % (sid, r["infra"]))
        for k in tot:
            tot[k] += r.get(k, 0)
        for m in r["mism"]:
            kind = m["kind"]
            per_kind[kind] = per_kind.get(kind, 0) + 1
            if per_kind[kind] > MAX_WITNESSES_PER_KIND:
                continue
            where = "filter=%s" % json.dumps(m.get("f", ""), ensure_ascii=False)
            if m["mux"] >= 0:
                regs = by_id[sid]["groups"][m["group"]]["muxes"][m["mux"]]["regs"]
                where = "mux=%s" % (json.dumps(regs, ensure_ascii=False) if len(regs) <= 8 else "%d registrations (%s)" % (len(regs), sid))
                if m["reg"] >= 0:
                    where += " reg#%d=%s" % (m["reg"] + 1, json.dumps(m.get("f", ""), ensure_ascii=False))
            if m["topic"] >= 0:
                where += " topic=%s" % json.dumps(m.get("t", ""), ensure_ascii=False)
            detail = "%s: real code %s, specification (TopicFilter.tla) expects %s" % (m["api"], m["got"], m["want"])
            verd.witness(kind, where, detail, {"family": "filter", "scenario": minimal(by_id[sid], m), "seed": vlib.seed(), "from": sid})
    return tot, per_kind


def samples(info, res_ok):
    topics = info["table_topics"]
    out = []
    want = ["+", "a/#", "a/+", "/", "+/", "a+", "#/a", "", "+/+/#", "//"]
    rows = {r["f"]: r for r in info["table_rows"]}
    for f in want:
        r = rows.get(f)
        if r is None:
            continue
        out.append({"filter": f, "spec_valid": r["v"], "spec_matches": [topics[j - 1] for j in r["m"]][:6],
                    "spec_match_count": len(r["m"]), "of_topics": len(topics), "real_code": "agrees" if res_ok else "see violations"})
    for g in info["rand_groups"][:3]:
        m = g["muxes"][0]
        j = max(range(len(g["topics"])), key=lambda k: len(m["d"][k]))
        out.append({"mux_registrations": m["regs"], "accepted": m["v"], "topic": g["topics"][j], "spec_dispatch": m["d"][j],
                    "real_code": "agrees" if res_ok else "see violations"})
    return out


MUX_MC = """---- MODULE MCMux ----
EXTENDS Mux
MatchesDef == {<<"a/+", "a/b">>, <<"a/+", "a/c">>, <<"#", "a/b">>, <<"#", "a/c">>, <<"#", "x">>, <<"a/b", "a/b">>}
====
"""


def mux_model(tier):
    """spec/Mux.tla: registration between dispatches and overlapping dispatches; both wrong implementations refuted."""
    def cfg(cache, shared, serves):
        return ("SPECIFICATION Spec\nCONSTANTS\n Filters = {\"a/+\", \"#\", \"a/b\"}\n Topics = {\"a/b\", \"a/c\", \"x\"}\n Matches <- MatchesDef\n"
                " MaxRegs = 3\n MaxServes = %d\n Procs = {p1, p2}\n BugRouteCache = %s\n BugSharedTopic = %s\nCHECK_DEADLOCK FALSE\n"
                "INVARIANTS DispatchExact NoForeignHandler\n" % (serves, cache, shared))
    r = vlib.tlc_ok(vlib.tlc("MCMux", cfg="ok.cfg", files={"MCMux.tla": MUX_MC, "ok.cfg": cfg("FALSE", "FALSE", 2 if tier == "quick" else 3)}, workers=4, timeout=600), "Mux model")
    for name, c, sh, inv in (("BugRouteCache", "TRUE", "FALSE", "DispatchExact"), ("BugSharedTopic", "FALSE", "TRUE", "NoForeignHandler")):
        rb = vlib.tlc("MCMux", cfg="b.cfg", files={"MCMux.tla": MUX_MC, "b.cfg": cfg(c, sh, 3)}, workers=1, timeout=300)
        if rb.violated != inv:
            raise vlib.Infra("non-vacuity: Mux with %s not refuted (%s)" % (name, rb.violated))
    return r


def run(tier):
    t0 = time.time()
    b = TIERS[tier]
    rng = random.Random(vlib.seed() * 104729 + 14)
    rin = rand_groups(rng, b["groups"])
    rand_text = "".join(json.dumps({"id": g["id"], "fs": [list(f) for f in g["fs"]], "ts": [list(t) for t in g["ts"]]}) + "\n" for g in rin)
    out = {"random_in": rin}
    with cf.ThreadPoolExecutor(max_workers=5) as ex:
        fb = ex.submit(vlib.build_harness)
        futs = {ph: ex.submit(run_phase, ph, b, {"rand_in.ndjson": rand_text} if ph == "random" else None)
                for ph in ("table", "lemmas", "mux", "random")}
        fm = ex.submit(mux_model, tier)
        binary = fb.result()
        for ph, f in futs.items():
            out[ph] = f.result()
        rmux = fm.result()
    t_tlc = time.time() - t0
    scs, info = build_scenarios(tier, b, out)
    res = execute(binary, scs)
    verd = vlib.Verdicts(PID)
    tot, per_kind = collect(verd, scs, res)
    # the driver must have executed everything that was generated
    exp_pairs = sum(len(g["rows"]) * len(g["topics"]) for x in scs for g in x["groups"])
    exp_disp = sum(len(g["muxes"]) * len(g["topics"]) for x in scs for g in x["groups"])
    if tot["pairs"] != exp_pairs or tot["dispatch"] != exp_disp:
        if not per_kind.get("panic"):
            raise vlib.Infra("driver executed %d pairs / %d dispatch cases, expected %d / %d" % (tot["pairs"], tot["dispatch"], exp_pairs, exp_disp))
    pairs_valid = sum(len(g["topics"]) for x in scs for g in x["groups"] for r in g["rows"] if r["v"])
    rc = verd.finish()
    for kind, n in sorted(per_kind.items()):
        if n > MAX_WITNESSES_PER_KIND:
            print("  (%d disagreements of kind %s in total; %d reported)" % (n, kind, MAX_WITNESSES_PER_KIND))
    cov = count_coverage(info)
    lem = out["lemmas"][1]
    cov.update({
        "evaluations": tot["pairs"] + tot["dispatch"],
        "rule": "evaluation = one (filter, topic) pair run through newTopicFilter+Match AND through a one-handler ServeMux, or one "
                "(registration sequence, topic) ServeMux.Serve call, each compared with TLC's expectation; distinct_nontrivial = "
                "distinct (filter string, topic string) pairs whose filter contains '+' or '#' or is invalid per the specification",
        "pairs_executed": tot["pairs"], "dispatch_cases_executed": tot["dispatch"], "handle_calls": tot["handles"],
        "pairs_executed_with_valid_filter": pairs_valid,
        "pairs_executed_with_invalid_filter": tot["pairs"] - pairs_valid,
        "note_invalid_pairs": "for a filter the specification rejects, a pair is one Serve on the mux whose Handle returned the error: "
                              "it only checks that nothing was registered",
        "pairs_matched_by_real_code": tot["matched"], "handler_invocations_in_dispatch_cases": tot["invoked"],
        "disagreements": tot["nmism"], "disagreements_by_kind": per_kind,
        "lemmas_checked_by_tlc": lem["n"], "lemma_space": {"filters": lem["f"], "valid": lem["v"], "topics": lem["t"], "depth": b["lemma"]},
        "depth": b["depth"], "mux_len": b["muxlen"], "mux_pool_sequences": out["mux"][1]["muxes"], "mux_topics": out["mux"][1]["topics"],
        "mux_history_model_states": rmux.states, "mux_history_model": "spec/Mux.tla: 3 filters x 3 topics, <=3 registrations interleaved with <=2/3 dispatches of 2 goroutines; route cache and shared topic buffer refuted",
        "exhaustive": True,
        "exhaustive_scope": "all %d filters x %d topic names over the level alphabets up to %d levels; all registration sequences of length <= %d "
                            "over the 11-filter pool; the random strings are a sample" % (cov["table_filters"], cov["table_topics"], b["depth"], b["muxlen"]),
        "random_generation": "Python (VERIF_SEED) generates character strings; TLC computes the expectation on those characters (string-level operators)",
        "tlc_wall_s": round(t_tlc, 1),
        "samples": samples(info, rc == 0),
    })
    wall = time.time() - t0
    vlib.write_evidence(PID, tier, "exploration", cov, wall, ASSUMPTIONS, violations=len(verd.violations))
    print("C14 topic filters / ServeMux: %d lemmas on %d filters x %d topics; table %d filters x %d topics (depth %d, %d invalid), "
          "%d registration sequences, %d random groups; real code: %d pairs + %d dispatch cases, %d disagreements; %.0fs (TLC+build %.0fs)"
          % (lem["n"], lem["f"], lem["t"], cov["table_filters"], cov["table_topics"], b["depth"], cov["table_filters_invalid"],
             len(info["muxes"]) + 2, len(info["rand_groups"]), tot["pairs"], tot["dispatch"], tot["nmism"], wall, t_tlc))
    return rc


def replay(path):
    """Re-execute the minimal scenario of a replay file on the current tree."""
    body = json.load(open(path))
    sc = body["replay"]["scenario"]
    binary = vlib.build_harness()
    res = execute(binary, [sc])
    verd = vlib.Verdicts(PID)
    collect(verd, [sc], res)
    rc = verd.finish()
    if rc == 0:
        print("replay: the real code agrees with the recorded expectation")
    return rc
