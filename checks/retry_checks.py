"""Registered checks of the retry family: C01 C02 C03 C08 C12 C17 C18."""
import json
import os
import random
import sys
import time

sys.path.insert(0, os.path.dirname(os.path.abspath(__file__)))
import retry_family as rf  # noqa: E402
import vlib  # noqa: E402
from retry_family import PUB, SUB, UNSUB  # noqa: E402

HANDLE = lambda h: {"k": "handle", "h": h}  # noqa: E731

# ---------------------------------------------------------------------------------------
# Regression corpus: scenarios that exhibited the defects repaired by the "fix:" commits
# (F-numbers: DESIGN.md section 7), executed by every check of the family.
# ---------------------------------------------------------------------------------------
def regress():
    S = rf.scenario
    out = []
    # F1: two cuts on one in-flight QoS 2 message
    for m in (False, True):
        out.append(S("reg-F1-%d" % m, [PUB(2)], ["conn"], [{"p": "PUBLISH", "n": 1, "o": "cutAfter"}, {"p": "PUBLISH", "n": 2, "o": "cutAfter"}],
                     opts={"deliverOnRel": m}))
        out.append(S("reg-F1b-%d" % m, [PUB(2), PUB(1), PUB(1)], ["conn"] * 3, [{"k": 3, "o": "cutAfter"}, {"k": 6, "o": "cutAfter"}],
                     opts={"deliverOnRel": m}))
        # F2: publish before Connect, cut right after the broker processed PUBREL
        out.append(S("reg-F2-%d" % m, [PUB(2)], ["pre"], [{"p": "PUBREL", "n": 1, "o": "cutAfter"}], opts={"deliverOnRel": m}))
        out.append(S("reg-F2b-%d" % m, [PUB(2)], ["conn"], [{"p": "PUBREL", "n": 1, "o": "cutBefore"}, {"p": "PUBREL", "n": 2, "o": "cutBefore"}],
                     opts={"deliverOnRel": m}))
    # F6: silent broker on the retransmitting connection
    out.append(S("reg-F6", [PUB(1)], ["conn"], [{"p": "PUBLISH", "n": 1, "o": "cutAfter"}, {"p": "PUBLISH", "n": 2, "o": "dropAck"}],
                 opts={"respTimeoutMs": 40}))
    out.append(S("reg-F6b", [PUB(2)], ["conn"], [{"p": "PUBLISH", "n": 1, "o": "dropAck"}, {"p": "PUBREL", "n": 1, "o": "dropReq"}],
                 opts={"respTimeoutMs": 40}))
    # F8: SetClient while a task is running; next task on the not yet initialised client
    for a in (PUB(0), PUB(1), SUB(("s", 1))):
        for i, b in enumerate((PUB(1), PUB(2), SUB(("x", 1)), UNSUB("x"))):
            sc = S("reg-F8-%s%s-%d" % (a["k"], a.get("q", ""), i), [a], ["conn"], [])
            sc["reqs"] += [{"k": "peerclose", "at": "write:2", "hold": True},
                           dict(rf.scenario("", [b], ["connopt:3"], [])["reqs"][0], hold=True),
                           {"k": "release", "gate": "write:2", "at": "connopt:3", "hold": True},
                           {"k": "sleep", "ms": 30, "at": "connopt:3"}]
            out.append(sc)
    # F9: Unsubscribe queued during an outage, session lost
    out.append(S("reg-F9", [SUB(("x", 1)), PUB(1), UNSUB("x")], ["conn"] * 3, [{"p": "PUBLISH", "n": 1, "o": "cutBefore"}],
                 connacks=[{}, {"sp": "false"}]))
    out.append(S("reg-F9b", [UNSUB("x", "y"), SUB(("x", 1)), UNSUB("x", "x")], ["conn"] * 3, [{"k": 3, "o": "cutBefore"}, {"k": 5, "o": "cutBefore"}],
                 connacks=[{}, {}, {"sp": "false"}]))
    # F10 / F10b: duplicate entries in the established-subscription book
    out.append(S("reg-F10", [SUB(("x", 0)), SUB(("x", 1)), UNSUB("x"), PUB(1)], ["conn"] * 4, [{"p": "PUBLISH", "n": 1, "o": "cutAfter"}],
                 connacks=[{}, {"sp": "false"}]))
    out.append(S("reg-F10b", [SUB(("a", 1)), UNSUB("a", "a")], ["conn"] * 2, []))
    out.append(S("reg-F10c", [SUB(("a", 1), ("b", 1)), UNSUB("b", "b"), PUB(1)], ["conn"] * 3, [{"p": "PUBLISH", "n": 1, "o": "cutAfter"}],
                 connacks=[{}, {"sp": "false"}]))
    return out


def single_faults(prefix, workloads, outcomes=("cutBefore", "cutAfter"), ks=range(1, 8), timing="conn", opts=None, connacks=()):
    out = []
    for wi, w in enumerate(workloads):
        for k in ks:
            for o in outcomes:
                out.append(rf.scenario("%s-%d-%d-%s" % (prefix, wi, k, o), w, [timing] * len(w), [{"k": k, "o": o}], connacks=connacks, opts=opts))
    return out


def sampled(prefix, rng, n, comps, wfams, ffam="f_cuts", p_timing=0.5, p_dials=0.25, connacks=None, optgen=None):
    out = []
    for i in range(n):
        wl = rng.choice(comps[rng.choice(wfams)])
        tm = rng.choice(comps["t_%d" % len(wl)]) if rng.random() < p_timing else ["conn"] * len(wl)
        fl = rng.choice(comps[ffam])
        dl = rng.choice(comps["dials"]) if rng.random() < p_dials else []
        ca = rng.choice(connacks) if connacks else []
        opts = optgen(rng) if optgen else {}
        if rf.needs_conn_timeout(ca):
            opts["connTimeoutMs"] = 30
        out.append(rf.scenario("%s-%d" % (prefix, i), wl, tm, fl, dl, ca, opts))
    return out


def deep_switch(prefix, kinds_a, kinds_b):
    """Client switched while a task is blocked in a write on the old connection (the F8 interleaving),
    for every pair of request kinds."""
    out = []
    for ia, a in enumerate(kinds_a):
        for ib, b in enumerate(kinds_b):
            sc = rf.scenario("%s-%d-%d" % (prefix, ia, ib), [a], ["conn"], [])
            sc["reqs"] += [{"k": "peerclose", "at": "write:2", "hold": True},
                           dict(rf.scenario("", [b], ["connopt:3"], [])["reqs"][0], hold=True),
                           {"k": "release", "gate": "write:2", "at": "connopt:3", "hold": True},
                           {"k": "sleep", "ms": 30, "at": "connopt:3"}]
            out.append(sc)
    return out


def handshake_submits(prefix, firsts, seconds, opts=None):
    """Request A is interrupted on the first connection; request B is submitted at every point of the
    reconnect handshake (while dialling, inside the ConnectOption, while the CONNECT / the retransmission is being written)."""
    out = []
    i = 0
    for a in firsts:
        for o in ("cutBefore", "cutAfter"):
            for b in seconds:
                for at in ("dial:2", "connopt:3", "write:3", "write:4", "write:5"):
                    out.append(rf.scenario("%s-%d" % (prefix, i), [a, b], ["conn", at], [{"k": 2, "o": o}], opts=opts))
                    i += 1
    return out


def resub_handshake(prefix):
    """Subscriptions exist, the connection is lost, and the application changes its subscriptions WHILE the reconnect
    handshake is in progress (dialling, inside a ConnectOption, CONNECT being written, the retransmission being written);
    the session is lost at the broker or AlwaysResubscribe is set, so the client also restores what it has booked."""
    out = []
    i = 0
    for x in (UNSUB("a"), SUB(("b", 1)), SUB(("a", 2)), UNSUB("a", "b")):
        for at in ("dial:2", "connopt:3", "write:3", "write:4"):
            for how in ("lost", "always"):
                wl = [SUB(("a", 1)), PUB(1), x]
                out.append(rf.scenario("%s-%d" % (prefix, i), wl, ["conn", "conn", at], [{"p": "PUBLISH", "n": 1, "o": "cutAfter"}],
                                       connacks=LOST[0] if how == "lost" else [], opts={"alwaysResub": how == "always"}))
                i += 1
    # ... with the task goroutine busy when the connection is back: a publish submitted during the handshake whose PUBACK
    # is slow (25 ms) sits in front of the subscription change; nothing was pending when the connection was lost
    for x in (UNSUB("a"), SUB(("b", 1)), SUB(("a", 2))):
        for at in ("dial:2", "connopt:3"):
            for how in ("lost", "always"):
                sc_ = rf.scenario("%s-%d" % (prefix, i), [SUB(("a", 1))], ["conn"], [{"p": "PUBLISH", "n": 1, "o": "lateAck"}],
                                  connacks=LOST[0] if how == "lost" else [], opts={"alwaysResub": how == "always"})
                sc_["reqs"] += [{"k": "peerclose", "at": "idle"}, {"k": "pub", "q": 1, "at": at}, dict(rf.scenario("x", [x], [at], [])["reqs"][0])]
                out.append(sc_)
                i += 1
    return out


def timeout_drops(prefix, base, ks=range(2, 5)):
    """ResponseTimeout configured and a request or its acknowledgement swallowed by a broker that keeps the
    connection open (first transmissions, and retransmissions after a cut)."""
    out = []
    i = 0
    o2 = {"respTimeoutMs": 40, "connTimeoutMs": 80}
    for w in base:
        for k in ks:
            for o in ("dropReq", "dropAck"):
                out.append(rf.scenario("%s-%d" % (prefix, i), w, ["conn"] * len(w), [{"k": k, "o": o}], opts=dict(o2)))
                i += 1
                out.append(rf.scenario("%s-%d" % (prefix, i), w, ["conn"] * len(w), [{"k": 2, "o": "cutAfter"}, {"k": k + 2, "o": o}], opts=dict(o2)))
                i += 1
    return out


def direct_mode(prefix, rng, n, comps, wfams):
    """DirectlyPublishQoS0: QoS 0 publishes bypass the queue (and must not be submitted before the first connection
    exists: the option hands them to the current client); everything else behaves as in the default mode."""
    out = []
    for sc in sampled(prefix, rng, n, comps, wfams, connacks=KEPT + [[]] * 4, optgen=lambda r: {"directQoS0": True, "deliverOnRel": r.random() < 0.5}):
        for r in sc["reqs"]:
            if r["k"] == "pub" and r.get("q", 0) == 0 and r.get("at") not in ("conn", "idle"):
                r["at"] = "conn"      # (before the first SetClient the option dereferences a nil client: observation in DESIGN.md 13.6)
            # a direct publish is written by the submitting goroutine itself: it cannot also be the one that waits at
            # a gate inside a write
            if str(r.get("at", "")).startswith("write:"):
                r["at"] = "conn"
        out.append(sc)
    return out


KEPT = [[], [{"code": 5}, {}], [{}, {"code": 3}], [{}, {"silent": True}]]        # connack plans that never lose the session
LOST = [[{}, {"sp": "false"}], [{}, {}, {"sp": "false"}], [{}, {"sp": "false"}, {"sp": "false"}]]


def scenarios_for(pid, tier, rng, comps):
    q = tier == "quick"
    n = 250 if q else 4000
    sc = list(regress())
    small = lambda fam, ln: [w for w in comps[fam] if len(w) <= ln]  # noqa: E731
    if pid == "C01":
        sc += single_faults("c01s", small("w_mixed", 2) if q else small("w_mixed", 2) + small("w_sub", 1))
        sc += sampled("c01r", rng, n, comps, ["w_pub", "w_sub", "w_mixed"], connacks=KEPT + LOST + [[]] * 4,
                      optgen=lambda r: {"deliverOnRel": r.random() < 0.5, "alwaysResub": r.random() < 0.2})
        sc += handshake_submits("c01h", [PUB(1), SUB(("s", 1))], [PUB(1), PUB(2), SUB(("x", 1)), UNSUB("x")])
        sc += deep_switch("c01d", [PUB(0), PUB(1), PUB(2), SUB(("s", 1))], [PUB(1), PUB(2), SUB(("x", 1)), UNSUB("x")])
        sc += sampled("c01p", rng, n // 5, comps, ["w_pub", "w_sub", "w_mixed"], connacks=KEPT + [[]] * 4, optgen=lambda r: {"promptAcks": True})
        sc += direct_mode("c01x", rng, n // 5, comps, ["w_pub", "w_mixed"])
        sc += timeout_drops("c01t", [[PUB(1)], [PUB(2)], [SUB(("x", 1))], [UNSUB("x")], [SUB(("x", 1)), UNSUB("x"), PUB(1)]])
        # the connection ends because the client cannot write an acknowledgement of INBOUND traffic (PUBACK / PUBREC / PUBCOMP)
        # while its own requests are in flight or follow: it is an abnormal end like any other, the requests go on
        i = 0
        for qi, pk in ((1, "PUBACK"), (2, "PUBREC"), (2, "PUBCOMP")):
            for o in ("cutBefore", "cutAfter"):
                for wl, tm, later in (([HANDLE(1), PUB(1)], ["pre", "conn"], 1), ([HANDLE(1), SUB(("x", 1))], ["pre", "conn"], 2), ([PUB(1)], ["conn"], 2)):
                    inbound = [{"g": 1, "after": 1, "q": qi, "tag": 101}]
                    sc_ = rf.scenario("c01a-%d" % i, wl, tm, [{"p": pk, "n": 1, "o": o}], inbound=inbound)
                    # (not "idle": a client that never comes back would make that timing infeasible instead of failing)
                    sc_["reqs"] += [{"k": "sleep", "ms": 30, "at": "conn"}, {"k": "pub", "q": later, "at": "conn"}]
                    sc.append(sc_)
                    i += 1
    elif pid == "C02":
        q2 = [w for w in comps["w_pub"] if any(r["q"] == 2 for r in w)]
        for m in (False, True):
            sc += single_faults("c02s%d" % m, [w for w in q2 if len(w) <= (2 if q else 3)], opts={"deliverOnRel": m})
        comps2 = dict(comps, w_q2=q2, w_q2m=[w for w in comps["w_mixed"] if any(r["k"] == "pub" and r["q"] == 2 for r in w)])
        sc += sampled("c02r", rng, n, comps2, ["w_q2", "w_q2", "w_q2m"], connacks=KEPT + [[]] * 4,
                      optgen=lambda r: {"deliverOnRel": r.random() < 0.5})
        # re-subscription (AlwaysResubscribe, session kept) interleaved with unfinished QoS 2 exchanges, also failing itself
        i = 0
        for w in ([SUB(("s", 1)), PUB(2)], [SUB(("s", 1)), PUB(2), PUB(2)], [SUB(("s", 1), ("t2", 0)), PUB(1), PUB(2)]):
            for f1 in ("cutBefore", "cutAfter"):
                for k1 in (3, 4):
                    for f2 in (None, "cutBefore", "cutAfter"):
                        fl = [{"k": k1, "o": f1}] + ([{"p": "SUBSCRIBE", "n": 2, "o": f2}] if f2 else [])
                        for m in (False, True):
                            sc.append(rf.scenario("c02a-%d" % i, w, ["conn"] * len(w), fl, opts={"alwaysResub": True, "deliverOnRel": m}))
                            i += 1
        # a very prompt broker (answers are read before Transport.Write returns), with and without ResponseTimeout
        for w in ([PUB(2)], [PUB(2), PUB(2)], [PUB(1), PUB(2)]):
            for o in ({"promptAcks": True}, {"promptAcks": True, "respTimeoutMs": 40, "connTimeoutMs": 80}):
                for fl in ([], [{"k": 2, "o": "cutAfter"}], [{"k": 3, "o": "cutAfter"}]):
                    for m in (False, True):
                        sc.append(rf.scenario("c02p-%d" % i, w, ["conn"] * len(w), fl, opts=dict(o, deliverOnRel=m)))
                        i += 1
        sc += deep_switch("c02d", [PUB(0), PUB(2)], [PUB(2)])
        sc += timeout_drops("c02t", [[PUB(2)], [PUB(2), PUB(2)], [PUB(1), PUB(2)]], ks=range(2, 6))
    elif pid == "C03":
        sc += single_faults("c03s", [w for w in comps["w_pub"] if len(w) == 2] + ([] if q else small("w_mixed", 2)))
        sc += handshake_submits("c03h", [PUB(1), PUB(2)], [PUB(0), PUB(1), PUB(2), SUB(("x", 1))])
        i = 0
        for a in (PUB(1), PUB(2)):
            for o in ("cutBefore", "cutAfter"):
                for at3 in ("write:4", "write:5", "connopt:3"):
                    for late in (False, True):
                        fl = [{"k": 2, "o": o}] + ([{"k": 4, "o": "lateAck"}] if late else [])
                        g = rf.scenario("c03g-%d" % i, [a, PUB(1), PUB(1)], ["conn", "dial:2", at3], fl)
                        # the writer stays held a little longer: the third request is picked up by the task goroutine meanwhile
                        g["reqs"].append({"k": "sleep", "ms": 3, "at": at3})
                        sc.append(g)
                        i += 1
                        sc.append(rf.scenario("c03g-%d" % i, [a, PUB(1), PUB(1)], ["conn", "dial:2", "idle"], fl + [{"k": 5, "o": "lateAck"}]))
                        i += 1
        # requests submitted during an outage, among them a Subscribe for a new filter, then a reconnect that re-subscribes
        # (session lost / AlwaysResubscribe): the new SUBSCRIBE keeps its place behind the older requests
        for a in (PUB(1), PUB(2)):
            for o in ("cutBefore", "cutAfter"):
                for ar in (False, True):
                    for wl, tm in (([SUB(("a", 1)), a, PUB(1), SUB(("b", 1))], ["conn", "conn", "dial:2", "dial:2"]),
                                   ([SUB(("a", 1)), a, SUB(("b", 2)), PUB(1)], ["conn", "conn", "dial:2", "dial:2"]),
                                   ([a, PUB(2), SUB(("b", 1)), UNSUB("b")], ["conn", "dial:2", "dial:2", "dial:2"])):
                        k = 3 if wl[0]["k"] == "sub" else 2
                        sc.append(rf.scenario("c03s-%d" % i, wl, tm, [{"k": k, "o": o}], connacks=[] if ar else LOST[0], opts={"alwaysResub": ar}))
                        i += 1
        sc += direct_mode("c03x", rng, n // 5, comps, ["w_pub", "w_mixed"])
        sc += sampled("c03r", rng, n, comps, ["w_pub", "w_mixed", "w_mixed"], connacks=KEPT + [[]] * 4 + (LOST if not q else []),
                      optgen=lambda r: {"deliverOnRel": r.random() < 0.3})
    elif pid == "C08":
        for ca in ([], LOST[0]):
            sc += single_faults("c08s%d" % len(ca), small("w_sub", 2) if not q else [w for w in small("w_sub", 2) if len(w) == 2][::3],
                                ks=range(2, 6), connacks=ca)
        sc += sampled("c08r", rng, n, comps, ["w_sub"], connacks=LOST + LOST + KEPT + [[]],
                      optgen=lambda r: {"alwaysResub": r.random() < 0.3, "epilogueLoseSession": r.random() < 0.5})
        sc += resub_handshake("c08h")
        # a broker that grants less than was requested (MQTT 3.8.4): what the client re-subscribes after a session loss is
        # still what the application asked for
        i = 0
        for cap in (0, 1):
            for w in ([SUB(("x", 2))], [SUB(("x", 1), ("y", 2))], [SUB(("x", 2)), SUB(("y", 1)), UNSUB("y")], [SUB(("x", 2)), PUB(1)]):
                for fl in ([], [{"k": 2, "o": "cutAfter"}], [{"k": 3, "o": "cutAfter"}]):
                    for ar in (False, True):
                        sc.append(rf.scenario("c08g-%d" % i, w, ["conn"] * len(w), fl, connacks=[] if ar else LOST[0],
                                              opts={"grantCap": cap, "alwaysResub": ar, "epilogueLoseSession": not ar}))
                        i += 1
        sc += timeout_drops("c08t", [[SUB(("x", 1)), UNSUB("x")], [SUB(("x", 1)), SUB(("y", 2)), UNSUB("y")], [UNSUB("x"), SUB(("x", 2))]])
        # book-keeping of established subscriptions: the same single-fault core, followed by a broker restart
        sc += single_faults("c08e", [w for w in small("w_sub", 2) if len(w) == 2][(1 if q else 0)::(3 if q else 1)], ks=range(2, 5),
                            opts={"epilogueLoseSession": True})
    elif pid == "C12":
        sc += single_faults("c12s", small("w_pub", 2))
        comps3 = dict(comps)
        sc += sampled("c12r", rng, n, comps3, ["w_pub", "w_mixed"], connacks=KEPT + [[]] * 4,
                      optgen=lambda r: {"deliverOnRel": r.random() < 0.5})
        sc += deep_switch("c12d", [PUB(1), PUB(2)], [PUB(1), PUB(2)])
        sc += direct_mode("c12x", rng, n // 5, comps, ["w_pub", "w_mixed"])
        sc += timeout_drops("c12t", [[PUB(1)], [PUB(2)], [PUB(2), PUB(1)]], ks=range(2, 6))
        # retained messages: the flag survives retransmission and the client's queued copy (deferred first transmission)
        R = lambda qq: PUB(qq, retain=True)  # noqa: E731
        sc += single_faults("c12n", [[R(1)], [R(2)], [PUB(1), R(1)], [R(1), PUB(2)], [PUB(2), R(2)], [R(0), R(1)]])
        sc += handshake_submits("c12m", [PUB(1)], [R(0), R(1), R(2)])
        sc += handshake_submits("c12h", [PUB(1), PUB(2)], [PUB(0), PUB(2)])
        # the application re-uses one Message value: a retransmission must not leave DUP set for the next first transmission
        i = 0
        for a in (PUB(1), PUB(2)):
            for b in (PUB(0), PUB(1), PUB(2)):
                for f in ([{"k": 2, "o": "cutAfter"}], [{"k": 2, "o": "cutBefore"}], [{"k": 2, "o": "cutAfter"}, {"k": 4, "o": "cutAfter"}], [{"p": "PUBREL", "n": 1, "o": "cutAfter"}]):
                    sc.append(rf.scenario("c12u-%d" % i, [a, b, b], ["conn", "idle", "idle"], f, opts={"reuseMessage": True}))
                    i += 1
    elif pid == "C18":
        drops = comps["f_drops"]
        base = [[PUB(1)], [PUB(2)], [SUB(("x", 1))], [UNSUB("x")], [PUB(1), PUB(2)], [SUB(("x", 1)), PUB(1)], [PUB(2), UNSUB("y")]]
        i = 0
        for w in base:
            for k in range(2, 6):
                for o in ("dropReq", "dropAck"):
                    sc.append(rf.scenario("c18s-%d" % i, w, ["conn"] * len(w), [{"k": k, "o": o}], opts={"respTimeoutMs": 40, "connTimeoutMs": 80}))
                    i += 1
                    # drop on the connection where the request is being retransmitted
                    sc.append(rf.scenario("c18s-%d" % i, w, ["conn"] * len(w), [{"k": 2, "o": "cutAfter"}, {"k": k + 2, "o": o}], opts={"respTimeoutMs": 40, "connTimeoutMs": 80}))
                    i += 1
        # the acknowledgement swallowed on several connections in a row (first transmission, 1st, 2nd, 3rd retransmission)
        chains = [([PUB(1)], "PUBLISH"), ([PUB(2)], "PUBLISH"), ([PUB(2)], "PUBREL"), ([SUB(("x", 1))], "SUBSCRIBE"), ([UNSUB("x")], "UNSUBSCRIBE"),
                  ([PUB(1), PUB(2)], "PUBLISH"), ([SUB(("x", 1)), PUB(1)], "SUBSCRIBE")]
        for w, pk in chains:
            for ln in (3, 4):
                for o in ("dropAck", "dropReq"):
                    sc.append(rf.scenario("c18c-%d" % i, w, ["conn"] * len(w), [{"p": pk, "n": m + 1, "o": o} for m in range(ln)],
                                          opts={"respTimeoutMs": 40, "connTimeoutMs": 80}))
                    i += 1
        # an OnError callback that looks at the client's Stats() (logging the queue lengths): the report of the timeout must
        # not wedge the client
        for w in ([PUB(1)], [PUB(2)], [SUB(("x", 1))], [PUB(1), PUB(1)]):
            for o in ("dropAck", "dropReq"):
                sc.append(rf.scenario("c18o-%d" % i, w, ["conn"] * len(w), [{"k": 2, "o": o}], opts={"respTimeoutMs": 40, "connTimeoutMs": 80, "onErrorStats": True}))
                i += 1
        # the acknowledgement of a RE-subscription swallowed (session lost at the broker, or AlwaysResubscribe): the first or
        # the second of two established subscriptions, alone or with a publish pending behind them
        for o in ("dropAck", "dropReq"):
            for which in (3, 4):
                for extra in ([], [PUB(1)]):
                    for how in ("lost", "always"):
                        wl = [SUB(("x", 1)), SUB(("y", 2)), PUB(1)] + extra
                        fl = [{"p": "PUBLISH", "n": 1, "o": "cutAfter"}, {"p": "SUBSCRIBE", "n": which, "o": o}]
                        oo = {"respTimeoutMs": 40, "connTimeoutMs": 80}
                        if how == "always":
                            oo["alwaysResub"] = True
                        sc.append(rf.scenario("c18b-%d" % i, wl, ["conn"] * len(wl), fl, connacks=LOST[0] if how == "lost" else [], opts=oo))
                        i += 1
        for j in range(n // 2):
            wl = rng.choice(comps[rng.choice(["w_pub", "w_mixed", "w_sub"])])
            fl = rng.choice(drops)
            sc.append(rf.scenario("c18r-%d" % j, wl, ["conn"] * len(wl), fl, opts={"respTimeoutMs": 40, "connTimeoutMs": 80, "deliverOnRel": rng.random() < 0.5}))
    elif pid == "C17":
        sc += c17_scenarios(rng, n)
    return sc


def c17_scenarios(rng, n):
    """Handle placements x reconnects x inbound message placements."""
    out = []
    i = 0
    locs = ["pre", "conn", "write:2", "dial:2", "connopt:3", "idle"]
    for nre in range(0, 4):                      # number of reconnects
        for place in locs:
            for q in (0, 1, 2):
                faults = [{"p": "PUBLISH", "n": j + 1, "o": "cutAfter"} for j in range(nre)]
                wl = [HANDLE(1), PUB(1)]
                tm = [place, "conn" if place in ("pre", "conn") else place]
                if place == "idle":
                    tm = ["idle", "idle"]
                # on connections after a reconnect the broker may mark what it sends as a re-delivery (DUP): a new
                # connection object has no memory of earlier deliveries, the handler still has to receive it
                inbound = [{"g": g, "after": 0, "q": q, "tag": 100 + g, "dup": g > 1 and q > 0 and i % 2 == 1} for g in range(1, nre + 2)]
                inbound += [{"g": nre + 1, "after": 1, "q": q, "tag": 200}]
                sc = rf.scenario("c17-%d" % i, wl, tm, faults, inbound=inbound)
                out.append(sc)
                i += 1
    # the acknowledgement of an inbound message cannot be written and the connection is replaced: what the reader
    # consumed (QoS 2: PUBLISH and its PUBREL) has reached the handler all the same
    for q, pk in ((1, "PUBACK"), (2, "PUBREC"), (2, "PUBCOMP")):
        for o in ("cutBefore", "cutAfter"):
            inbound = [{"g": 1, "after": 0, "q": q, "tag": 101}, {"g": 2, "after": 0, "q": q, "tag": 102}]
            out.append(rf.scenario("c17-%d" % i, [HANDLE(1), PUB(1)], ["pre", "conn"], [{"p": pk, "n": 1, "o": o}], inbound=inbound))
            i += 1
    # replaced handlers
    for nre in range(1, 3):
        for p1 in ("pre", "conn"):
            for p2 in ("conn", "dial:2", "connopt:3", "idle"):
                faults = [{"p": "PUBLISH", "n": j + 1, "o": "cutBefore"} for j in range(nre)]
                wl = [HANDLE(1), PUB(1), HANDLE(2), PUB(1)]
                tm = [p1, "conn", p2, p2]
                inbound = [{"g": g, "after": a, "q": rng.choice((0, 1, 2)), "tag": 100 * g + a} for g in range(1, nre + 2) for a in (0, 1)]
                out.append(rf.scenario("c17-%d" % i, wl, tm, faults, inbound=inbound))
                i += 1
    # a handler that replaces itself from inside its own callback (a one-shot bootstrap handler): the next messages, on
    # this and on later connections, go to the new one
    for nre in range(0, 3):
        for p1 in ("pre", "conn"):
            for q in (0, 1, 2):
                faults = [{"p": "PUBLISH", "n": j + 1, "o": "cutAfter"} for j in range(nre)]
                inbound = [{"g": 1, "after": 0, "q": q, "tag": 101}, {"g": 1, "after": 0, "q": q, "tag": 102}] + [{"g": g, "after": 0, "q": q, "tag": 100 * g + 1} for g in range(2, nre + 2)]
                out.append(rf.scenario("c17s-%d" % i, [dict(HANDLE(1), swap=2), PUB(1)], [p1, "conn"], faults, inbound=inbound))
                i += 1
    # re-connection attempts that FAIL in between (refused or unanswered CONNECT): the handler is there again on the
    # connection that finally succeeds
    for ca, oo in (([{}, {"code": 3}], {}), ([{}, {"code": 5}, {"code": 2}], {}), ([{}, {"silent": True}], {"connTimeoutMs": 60})):
        for p1 in ("pre", "conn"):
            for q in (0, 1, 2):
                gl = len(ca) + 1
                inbound = [{"g": 1, "after": 0, "q": q, "tag": 101}, {"g": gl, "after": 0, "q": q, "tag": 100 * gl + 1}, {"g": gl, "after": 1, "q": q, "tag": 100 * gl + 2}]
                out.append(rf.scenario("c17f-%d" % i, [HANDLE(1), PUB(1)], [p1, "conn"], [{"p": "PUBLISH", "n": 1, "o": "cutAfter"}], connacks=ca, inbound=inbound, opts=dict(oo)))
                i += 1
    # the handler registered (and replaced) on the RetryClient object that was handed to WithRetryClient
    for nre in (0, 1, 2):
        for p1 in ("pre", "conn"):
            faults = [{"p": "PUBLISH", "n": j + 1, "o": "cutAfter"} for j in range(nre)]
            inbound = [{"g": g, "after": 0, "q": 1, "tag": 100 * g + 1} for g in range(1, nre + 2)]
            out.append(rf.scenario("c17v-%d" % i, [HANDLE(1), PUB(1), HANDLE(2)], [p1, "conn", "idle"], faults, inbound=inbound + [{"g": nre + 1, "after": nre + 1, "q": 1, "tag": 900}],
                                   opts={"handleViaRetry": True}))
            i += 1
    # a RetryClient driven by hand (SetClient / Connect without the reconnect loop) that replaces its connection
    # make-before-break: what still arrives on the previous connection, after SetClient gave the client the next one, is not
    # dropped "merely because a reconnect replaced the underlying connection object"
    for var in ("handleFirst", "handleAfter"):
        for q in (0, 1, 2):
            out.append({"id": "c17m-%s-q%d" % (var, q), "reqs": [], "plan": {}, "opts": {"manualSwitch": var, "manualQoS": q}})
    for j in range(n // 4):
        nh = rng.randint(1, 3)
        wl, tm = [], []
        for h in range(1, nh + 1):
            wl += [HANDLE(h), PUB(rng.choice((0, 1)))]
            at = rng.choice(["pre", "conn", "dial:2", "dial:3", "idle"]) if h == 1 else rng.choice(["conn", "dial:2", "dial:3", "idle"])
            tm += [at, at if at != "pre" else "conn"]
        # keep locations monotone enough to be feasible
        order = {"pre": 0, "conn": 1, "dial:2": 2, "dial:3": 3, "idle": 4}
        pairs = sorted(zip(tm[0::2], range(nh)), key=lambda x: order[x[0]])
        tm2 = []
        for at, _ in pairs:
            tm2 += [at, at if at != "pre" else "conn"]
        faults = [{"p": "PUBLISH", "n": k, "o": rng.choice(("cutBefore", "cutAfter"))} for k in range(1, rng.randint(1, 3))]
        ng = len(faults) + 1
        inbound = [{"g": g, "after": rng.choice((0, 0, 1)), "q": rng.choice((0, 1, 2)), "tag": 100 * g + t} for g in range(1, ng + 1) for t in range(rng.randint(1, 2))]
        out.append(rf.scenario("c17r-%d" % j, wl, tm2, faults, inbound=inbound))
    return out


# model instances per property: (workload, kwargs); quick = small, thorough = more
def model_instances(pid, tier):
    q = tier == "quick"
    inst = []
    if pid == "C01":
        inst = [([PUB(1), PUB(2)], dict(faults=2)), ([SUB(("x", 1)), UNSUB("x")], dict(faults=2, sessions=(True, False))),
                ([PUB(1), PUB(0), PUB(2)], dict(faults=2, direct_qos0=True))]
        if not q:
            inst += [([PUB(0), PUB(1), PUB(2)], dict(faults=2)), ([PUB(2), SUB(("x", 1)), UNSUB("x")], dict(faults=2, sessions=(True, False))),
                     ([PUB(1), PUB(2)], dict(faults=3))]
    elif pid == "C02":
        inst = [([PUB(2), PUB(1)], dict(faults=2, deliver_on_rel=m)) for m in (False, True)]
        if not q:
            inst += [([PUB(2), PUB(2)], dict(faults=3, deliver_on_rel=m)) for m in (False, True)]
            inst += [([PUB(0), PUB(2), SUB(("x", 1))], dict(faults=2, deliver_on_rel=True))]
    elif pid == "C03":
        inst = [([PUB(1), PUB(2)], dict(faults=2)), ([PUB(0), PUB(1)], dict(faults=2)),
                ([PUB(0), PUB(1), PUB(0)], dict(faults=2, direct_qos0=True))]      # DirectlyPublishQoS0: QoS >= 1 keep their order
        if not q:
            inst += [([PUB(1), PUB(0), PUB(2)], dict(faults=2)), ([SUB(("x", 1)), PUB(1), UNSUB("x")], dict(faults=2)), ([PUB(2), PUB(1)], dict(faults=3))]
    elif pid == "C08":
        inst = [([SUB(("x", 1)), PUB(1), UNSUB("x")], dict(faults=2, sessions=(True, False))),
                ([SUB(("x", 0)), SUB(("x", 1)), UNSUB("x")], dict(faults=2, sessions=(True, False), always_resub=True)),
                ([PUB(1), SUB(("y", 1)), UNSUB("y")], dict(faults=2, resp_timeout=True))]
        if not q:
            inst += [([SUB(("x", 1), ("y", 0)), UNSUB("x", "x"), SUB(("y", 1))], dict(faults=2, sessions=(True, False))),
                     ([UNSUB("x", "y"), SUB(("x", 1)), UNSUB("x")], dict(faults=3, sessions=(True, False))),
                     ([SUB(("x", 1)), UNSUB("x"), SUB(("x", 0))], dict(faults=2, sessions=(True, False), always_resub=True))]
    elif pid == "C12":
        inst = [([PUB(2), PUB(1)], dict(faults=2)), ([PUB(0), PUB(2)], dict(faults=2, deliver_on_rel=True))]
        if not q:
            inst += [([PUB(1), PUB(2)], dict(faults=3)), ([PUB(2), PUB(2)], dict(faults=3))]
    elif pid == "C18":
        inst = [([PUB(1)], dict(faults=2, resp_timeout=True)), ([PUB(2)], dict(faults=2, resp_timeout=True))]
        if not q:
            inst += [([PUB(2), SUB(("x", 1))], dict(faults=2, resp_timeout=True)), ([PUB(1), UNSUB("x")], dict(faults=3, resp_timeout=True))]
    elif pid == "C17":
        inst = [([PUB(1)], dict(faults=2, handlers=(1, 2), inbound=2))]
        if not q:
            inst += [([PUB(1)], dict(faults=3, handlers=(1, 2), inbound=2)), ([PUB(0), SUB(("x", 1))], dict(faults=2, handlers=(1, 2, 3), inbound=3, sessions=(True, False)))]
    return inst


MODEL_INVS = {
    "C01": ["NoLoss", "StableDone"], "C02": ["NoDupQoS2", "DeliveredOnce", "NoTxAfterDone", "StableDone"],
    "C03": ["OrderPerConn", "FirstTxOrder"], "C08": ["StableSubs", "NoLoss"],
    "C12": ["DupFlag", "NoPubAfterRel", "NoQoS0Retx"], "C18": ["WaitArmed", "StableDone", "NoLoss"], "C17": ["HandlerFollows", "NoLoss"],
}
MODEL_LIVENESS = {"C01": ["EventuallyStable"], "C18": ["EventuallyStable"]}

TITLES = {"C01": "no accepted request lost", "C02": "QoS 2 exactly once", "C03": "submission order on the wire",
          "C08": "subscriptions converge", "C12": "faithful retransmissions", "C17": "handler follows reconnects",
          "C18": "response timeout prevents stalls"}


def run(pid, tier):
    t0 = time.time()
    rng = random.Random(vlib.seed() * 7919 + int(pid[1:]))
    fam = rf.Family(pid)
    comps = rf.gen_components()
    binary = vlib.build_harness()
    scs = scenarios_for(pid, tier, rng, comps)
    results, reports = fam.execute(binary, scs)
    # liveness stand-ins are re-executed: a one-off stall on a loaded machine is not evidence
    confirm_liveness(fam, binary, results)
    if pid == "C12":
        # the base client's retry handles: a request made before Connect transmitted nothing, so the first PUBLISH that
        # reaches the wire afterwards (through a handle, if the error offers one) is a first transmission (DUP=0)
        pre = [{"id": "pre-%s" % k, "mode": "preconnect", "kind": k} for k in ("pub1", "pub2", "pub0")] + [{"id": "late-%d" % k, "mode": "latepubrec", "kind": "pub2"} for k in range(3)]
        pp = vlib.run_drive(binary, ["run", "errchain", "-j", "2", "-c", "1", "-timeout", "60s"], stdin="\n".join(json.dumps(x) for x in pre) + "\n", timeout=300)
        if pp.returncode != 0:
            raise vlib.Infra("errchain driver failed: " + pp.stderr[-1000:])
        for line in pp.stdout.splitlines():
            if not line.strip():
                continue
            r = json.loads(line)
            if r.get("infra") or "crash" in r:
                raise vlib.Infra("errchain preconnect: %s" % line[:300])
            seq_ = r.get("seq") or []
            if "PUBREL" in seq_ and "PUBLISH" in seq_[seq_.index("PUBREL"):]:
                # a PUBREC that arrives after its Publish gave up belongs to nobody; the retry handle repeats the PUBLISH
                fam.verd.witness("C12_NoPubAfterRel", "base-client-handle", "QoS 2 publish given up before its (late) PUBREC, then retried through its handle on the same connection: "
                                 "packets for that identifier on the wire: %s" % seq_, {"scenario": next(x for x in pre if x["id"] == r["id"]), "result": r})
            if r.get("dups") and r["dups"][0]:
                fam.verd.witness("C12_FirstTransmissionDup", r["kind"], "%s before Connect failed (retry handle offered: %s); after Connect the first PUBLISH on the wire has DUP=1"
                                 % (r["kind"], r["handle"]), {"scenario": next(x for x in pre if x["id"] == r["id"]), "result": r})
    # Layer 2 conformance: are the recorded traces behaviours of the implementation-shaped model?
    # A trace the model rejects is DRIFT (the exhaustive result below no longer transfers to this code),
    # never a verdict.  Quick: the first 10 workload groups; thorough: everything eligible.
    l2_ok, drift, l2_states = rf.l2_validate(scs, results, max_groups=40 if tier == "quick" else 600, timeout=900)
    for sid, at, ev in drift[:5]:
        print("DRIFT property=%s trace=%s event=%d %s" % (pid, sid, at, json.dumps({k: ev[k] for k in ("e", "p", "g", "o", "fs", "tag") if ev and k in ev})))
    # Layer 2: exhaustive check of the implementation-shaped model for the property's invariants
    mstates = mtrans = 0
    minst = []
    for wl, kw in model_instances(pid, tier):
        r = rf.mc_retry(wl, invariants=MODEL_INVS[pid], timeout=900 if tier == "thorough" else 300, **kw)
        vlib.tlc_ok(r, "MqttRetry %s" % json.dumps(wl))
        mstates += r.states
        mtrans += r.generated
        minst.append({"workload": rf.model_workload(wl), "params": {k: v for k, v in kw.items()}, "distinct_states": r.states})
    for wl, kw in (model_instances(pid, tier)[:1] if pid in MODEL_LIVENESS else []):
        r = rf.mc_retry(wl, invariants=[], props=MODEL_LIVENESS[pid], timeout=900, **kw)
        vlib.tlc_ok(r, "MqttRetry liveness %s" % json.dumps(wl))
        minst.append({"workload": rf.model_workload(wl), "liveness": MODEL_LIVENESS[pid], "distinct_states": r.states})
        mstates += r.states
        mtrans += r.generated
    rc = fam.verd.finish()
    cov = {
        "states": mstates + fam.stats["trace_states"] + l2_states,
        "transitions": mtrans + fam.stats["trace_states"] + l2_states,
        "traces_validated_against_impl": fam.stats["traces_validated"],
        "model_states": mstates, "model_instances": minst, "trace_states": fam.stats["trace_states"],
        "layer2_traces_accepted_by_model": l2_ok, "layer2_drift": [{"trace": d[0], "event": d[1]} for d in drift], "layer2_trace_states": l2_states,
        "scenarios_executed": fam.stats["scenarios"], "distinct_fault_traces": len(fam.distinct),
        "evaluations": fam.stats["scenarios"], "distinct_nontrivial": len(fam.distinct),
        "rule": "scenario = workload x submit timing x fault plan x dial/CONNACK plan from spec/Plans.tla (fixed core + VERIF_SEED sample + regression corpus) + option blocks: ResponseTimeout with swallowed packets, DirectlyPublishQoS0, AlwaysResubscribe with failing re-subscriptions, broker granting less than requested, prompt / late acknowledgements, retained messages, re-used Message values; "
                "distinct_nontrivial counts distinct recorded wire traces (packet kinds, tags, DUP, outcomes, dial results) containing at least one fault",
        "infeasible_timing_patterns": fam.stats["skipped_infeasible"], "crashes": fam.stats["crashes"],
        "observers": [p for p in sorted(rf_observers()) if p.startswith(pid)], "observer_failures": fam.observer_hits,
        "samples": fam.samples or [{"note": "no faulty trace sampled"}],
        "exhaustive": False,
    }
    vlib.write_evidence(pid, tier, "model_checking", cov, time.time() - t0, rf.ASSUMPTIONS, violations=len(fam.verd.violations))
    print("%s %s: %d scenarios on the real client, %d traces validated by TLC (MqttEnv), %d distinct faulty traces; Layer 2: %d traces accepted by MqttRetry, %d drift; model: %d distinct states in %d instances; %.0fs"
          % (pid, TITLES[pid], fam.stats["scenarios"], fam.stats["traces_validated"], len(fam.distinct), l2_ok, len(drift), mstates, len(minst), time.time() - t0))
    return rc


def rf_observers():
    import re
    txt = open(os.path.join(vlib.SPEC, "MqttEnv.tla")).read()
    return set(re.findall(r"^(C\d\d_\w+) ==", txt, re.M))


def confirm_liveness(fam, binary, results):
    """C01_Progress / C18_NoStall / C18_TimeoutClosesAndReports ... witnesses (finite stand-ins for liveness, judged with a deadline
    or after a quiet period) must
    reproduce twice more.  At most three witnesses per kind are re-executed; the rest are dropped as
    duplicates of the confirmed ones (or, if none confirms, as unconfirmed)."""
    keep = []
    tried = {}
    for kind, where, detail, replay in fam.verd.violations:
        sc0 = replay.get("scenario") if isinstance(replay, dict) else None
        timed = isinstance(sc0, dict) and bool(sc0.get("opts", {}).get("respTimeoutMs")) and kind[:1] == "C" and "_" in kind
        # (scenarios with a response timeout are judged after a quiet period that has to outlast that timer: every observer
        # of such a run is confirmed, not only the liveness stand-ins)
        if kind not in ("C01_Progress", "C18_NoStall", "C02_ExchangeCompletes", "C17_HandleReturns", "C18_TimeoutClosesAndReports") and not timed:
            keep.append((kind, where, detail, replay))
            continue
        if tried.get(kind, 0) >= 3:
            continue
        tried[kind] = tried.get(kind, 0) + 1
        ok = True
        for attempt in range(2):
            sc = dict(replay["scenario"], id=replay["scenario"]["id"] + "-again%d" % attempt)
            res = rf.run_scenarios(binary, [sc], conc=1)
            rep, _ = rf.validate(res)
            if not any(v["o"] == kind for v in rep[sc["id"]]["v"]):
                ok = False
                break
        if ok:
            keep.append((kind, where, detail, replay))
        else:
            fam.verd.notes.append("not reproduced: %s %s" % (kind, replay["scenario"]["id"]))
    fam.verd.violations = keep


def replay(pid, path):
    """Re-execute the scenario of a replay file and re-validate the recorded trace."""
    body = json.load(open(path))
    sc = body["replay"]["scenario"]
    fam = rf.Family(pid)
    binary = vlib.build_harness()
    fam.execute(binary, [sc], conc=1)
    return fam.verd.finish()
