#!/usr/bin/env python3
"""Development aid (not a registered check): run a broad sample of retry-family scenarios and print
which observers fire, grouped, with one example trace each."""
import json
import os
import random
import sys
import time

sys.path.insert(0, os.path.dirname(os.path.abspath(__file__)))
import retry_family as rf  # noqa: E402
import vlib  # noqa: E402


def main():
    n = int(sys.argv[1]) if len(sys.argv) > 1 else 500
    rng = random.Random(vlib.seed())
    comps = rf.gen_components()
    binary = vlib.build_harness()
    scs = []
    fam = rf.Family("ALL", prefixes=["C"])
    for i in range(n):
        wl = rng.choice(comps[rng.choice(["w_pub", "w_sub", "w_mixed"])])
        tm = rng.choice(comps["t_%d" % len(wl)]) if rng.random() < 0.5 else ["conn"] * len(wl)
        fl = rng.choice(comps["f_cuts"])
        dl = rng.choice(comps["dials"]) if rng.random() < 0.3 else []
        ca = rng.choice(comps["connacks"]) if rng.random() < 0.5 else []
        opts = {"deliverOnRel": rng.random() < 0.5, "alwaysResub": rng.random() < 0.2}
        if rf.needs_conn_timeout(ca):
            opts["connTimeoutMs"] = 30
        scs.append(rf.scenario("x%d" % i, wl, tm, fl, dl, ca, opts))
    t0 = time.time()
    results, reports = fam.execute(binary, scs)
    print("ran %d scenarios in %.1fs; stats=%s" % (n, time.time() - t0, fam.stats))
    print("observer hits:", json.dumps(fam.observer_hits, indent=1, sort_keys=True))
    seen = {}
    for kind, where, detail, replay in fam.verd.violations:
        if kind not in seen:
            seen[kind] = (detail, replay)
    for kind, (detail, replay) in sorted(seen.items()):
        print("==", kind)
        print("   ", json.dumps(replay.get("scenario"), sort_keys=True))
        print("   ", detail[:1200])
    vlib.cleanup()


main()
