"""C13 -- keep-alive detects a silent peer and only a silent peer.

spec/KeepAlive.tla: the loop as a state machine over ping-outcome scripts (TLC: invariants +
termination for all 781 scripts of length <= 4, and the expected (result, number of pings) table).
The real mqtt.KeepAlive is run against a scripted context-respecting client for every script and
compared with the table; the reconnecting client is run over netsim with PINGREQs swallowed at chosen
points and its traces are validated by TLC against spec/ConnObs.tla (C13_SilentPeerDetected,
C13_OnlySilentPeer)."""
import json
import os
import random
import sys
import time

sys.path.insert(0, os.path.dirname(os.path.abspath(__file__)))
sys.path.insert(0, os.path.join(os.path.dirname(os.path.abspath(__file__)), "..", "lib"))
import vlib  # noqa: E402
import retry_family as rf  # noqa: E402

PID = "C13"


def reconn_scenarios(tier, rng):
    S, P = rf.scenario, rf.PUB
    out = []
    opts = {"pingMs": 15, "connTimeoutMs": 150, "quietMs": 200}
    i = 0
    for n in (1, 2, 3):
        for o in ("dropAck", "dropReq"):
            out.append(S("ka-%d" % i, [P(1)], ["conn"], [{"p": "PINGREQ", "n": n, "o": o}], opts=opts))
            i += 1
            # silent on a re-established connection
            out.append(S("ka-%d" % i, [P(1)], ["conn"], [{"p": "PUBLISH", "n": 1, "o": "cutAfter"}, {"p": "PINGREQ", "n": n, "o": o}], opts=opts))
            i += 1
    # twice in a row
    out.append(S("ka-%d" % i, [P(1)], ["conn"], [{"p": "PINGREQ", "n": 1, "o": "dropAck"}, {"p": "PINGREQ", "n": 3, "o": "dropReq"}], opts=opts))
    i += 1
    # healthy runs: many ping intervals, no drop => no keep-alive close
    for j in range(4 if tier == "quick" else 40):
        sc = S("ka-h%d" % j, [P(rng.choice((0, 1, 2)))], ["conn"], [], opts=dict(opts, quietMs=300))
        out.append(sc)
    # a slow response to an abandoned application ping arrives while no ping is outstanding: it belongs to nobody
    # and must not count for the keep-alive ping that follows (the peer is silent from then on)
    for j in range(2):
        sc = S("ka-late%d" % j, [P(1)], ["conn"], [{"p": "PINGREQ", "n": 1, "o": "lateAck"}] + [{"p": "PINGREQ", "n": k, "o": "dropAck"} for k in (2, 3, 4)],
               opts=dict(opts, pingMs=60))
        sc["reqs"] = [{"k": "ping", "ms": 3, "at": "conn"}] + sc["reqs"]
        out.append(sc)
    # a slow but living peer: every PINGRESP comes 25 ms after its PINGREQ -- later than the next ping is due (interval
    # 10 ms) but well within the configured response timeout (250 ms): "keeps running as long as each response arrives
    # within the timeout"
    for j in range(2 if tier == "quick" else 10):
        sc = S("ka-slow%d" % j, [P(1)], ["conn"], [{"p": "PINGREQ", "n": k, "o": "lateAck"} for k in range(1, 12)],
               opts=dict(opts, pingMs=10, connTimeoutMs=250, quietMs=200))
        out.append(sc)
    # the response timeout left at its default (= the ping interval), with and without a keep-alive interval in CONNECT:
    # a responsive broker is kept, a silent one is detected within about the ping interval
    for j, ka in enumerate((0, 1, 5)):
        out.append(S("ka-deft%d" % j, [P(1)], ["conn"], [], opts={"pingMs": 25, "keepAliveSec": ka, "quietMs": 250}))
        out.append(S("ka-defs%d" % j, [P(1)], ["conn"], [{"p": "PINGREQ", "n": 2, "o": "dropAck"}], opts={"pingMs": 25, "keepAliveSec": ka, "quietMs": 250}))
    # "sends a ping every interval while the connection is healthy" -- also while the application keeps sending (what the
    # client writes says nothing about the peer): QoS 0 publishes every 2 ms, pings every 20 ms; later the peer goes silent
    for j in range(2):
        out.append(S("ka-traffic%d" % j, [P(1)], ["conn"], [], opts={"pingMs": 20, "connTimeoutMs": 150, "quietMs": 300, "hammerPub": 1, "hammerSleepUs": 2000, "deadlineMs": 1500}))
        out.append(S("ka-traffs%d" % j, [P(1)], ["conn"], [{"p": "PINGREQ", "n": 3, "o": "dropAck"}], opts={"pingMs": 20, "connTimeoutMs": 100, "quietMs": 300, "hammerPub": 1, "hammerSleepUs": 2000, "deadlineMs": 1500}))
    # a burst of inbound messages for a slow handler behind ServeAsync: the reader goes on reading, the PINGRESPs of a
    # responsive broker are seen in time
    for j, nmsg in enumerate((40, 80)):
        sc = S("ka-async%d" % j, [{"k": "handle", "h": 1}, P(1)], ["pre", "conn"], [], inbound=[{"g": 1, "after": 0, "q": 0, "tag": 1000 + k} for k in range(nmsg)],
               opts={"pingMs": 30, "connTimeoutMs": 120, "quietMs": 400, "asyncHandlerMs": 500, "deadlineMs": 3000})
        out.append(sc)
    # a very prompt peer: the PINGRESP has been read and dispatched before Transport.Write of the PINGREQ returns
    for j in range(2 if tier == "quick" else 10):
        out.append(S("ka-prompt%d" % j, [P(1)], ["conn"], [], opts=dict(opts, pingMs=8, promptAcks=True, quietMs=200)))
    # the application pings too (Client.Ping is part of the public interface): PINGRESPs carry no identifier,
    # and every ping of the keep-alive loop must still get its response while the broker answers every PINGREQ
    for j in range(3 if tier == "quick" else 20):
        out.append(S("ka-app%d" % j, [P(1)], ["conn"], [], opts=dict(opts, pingMs=5, quietMs=300, hammer=True, hammerSleepUs=3000, deadlineMs=1200)))
    for j in range(0 if tier == "quick" else 60):
        fl = [{"p": "PINGREQ", "n": rng.randint(1, 4), "o": rng.choice(("dropAck", "dropReq"))}]
        if rng.random() < 0.5:
            fl.insert(0, {"p": rng.choice(("PUBLISH", "SUBSCRIBE")), "n": 1, "o": rng.choice(("cutBefore", "cutAfter"))})
        wl = [rng.choice([P(1), P(2), rf.SUB(("x", 1))]) for _ in range(rng.randint(1, 2))]
        out.append(S("ka-r%d" % j, wl, ["conn"] * len(wl), fl, opts=opts))
    return out


def run(tier):
    t0 = time.time()
    rng = random.Random(vlib.seed() * 17 + 13)
    verd = vlib.Verdicts(PID)
    binary = vlib.build_harness()
    maxlen = 4 if tier == "quick" else 5
    cfg = open(os.path.join(vlib.SPEC, "KeepAlive.cfg")).read().replace("MaxLen = 4", "MaxLen = %d" % maxlen)
    r = vlib.tlc_ok(vlib.tlc("KeepAlive", cfg="KA.cfg", files={"KA.cfg": cfg}, workers=4, timeout=600), "KeepAlive model")
    table = vlib.ndjson_read(os.path.join(r.dir, "keepalive_table.ndjson"))
    # concurrent pings (keep-alive loop + application): FIFO waiter queue; the single-slot design (finding F18) is refuted
    rp = vlib.tlc_ok(vlib.tlc("Pings", cfg="Pings.cfg", workers=2, timeout=300), "Pings model")
    cfgb = open(os.path.join(vlib.SPEC, "Pings.cfg")).read().replace("BugSingleSlot = FALSE", "BugSingleSlot = TRUE")
    rpb = vlib.tlc("Pings", cfg="PB.cfg", files={"PB.cfg": cfgb}, workers=1, timeout=300)
    if rpb.violated != "EveryPingAnswered":
        raise vlib.Infra("non-vacuity: Pings with a single waiter slot not refuted (%s)" % rpb.violated)
    # real KeepAlive against every script
    scs = [{"id": "s%d" % i, "s": row["s"]} for i, row in enumerate(table)]
    exp = {"s%d" % i: row for i, row in enumerate(table)}
    lines = [json.dumps({"id": "b%d" % bi, "batch": b}) for bi, b in enumerate(vlib.chunks(scs, 40))]
    p = vlib.run_drive(binary, ["run", "keepalive", "-j", str(vlib.NCPU), "-c", "4", "-timeout", "120s"], stdin="\n".join(lines) + "\n", timeout=900)
    if p.returncode != 0:
        raise vlib.Infra("keepalive driver failed: " + p.stderr[-2000:])
    got = []
    for line in p.stdout.splitlines():
        if line.strip():
            rr = json.loads(line)
            if "crash" in rr:
                verd.witness("panic", "", rr["crash"][-300:], {"crash": rr["crash"][-3000:]})
            else:
                got.extend(rr["batch"])
    mism = 0
    for g in got:
        e = exp[g["id"]]
        if g["res"] != e["res"]:
            mism += 1
            kind = "loop-does-not-end" if g["res"] == "no-return" else "timeout-misclassified" if "pingtimeout" in (g["res"], e["res"]) else "result-class"
            verd.witness(kind, "/".join(e["s"]), "script %s: expected %s after %d pings, KeepAlive returned %s after %d" % (e["s"], e["res"], e["pings"], g["res"], g["pings"]),
                         {"script": e["s"], "expected": e, "got": g})
        elif g["pings"] != e["pings"]:
            mism += 1
            verd.witness("ping-count", "/".join(e["s"]), "script %s: expected %d pings, saw %d" % (e["s"], e["pings"], g["pings"]), {"script": e["s"], "expected": e, "got": g})
    # cadence: "sends a ping every interval": the n-th ping of an always-answered loop happens n intervals after the start
    # (the model's Tick step is bound to the ticker period here; timing observer, so it must reproduce three times)
    def cadence(n, iv):
        pp = vlib.run_drive(binary, ["run", "keepalive", "-j", "1", "-c", "1", "-timeout", "60s"],
                            stdin=json.dumps({"id": "cad", "cadence": n, "intervalMs": iv}) + "\n", timeout=120)
        rows = [json.loads(l) for l in pp.stdout.splitlines() if l.strip()]
        if pp.returncode != 0 or not rows or "last_us" not in rows[0]:
            raise vlib.Infra("cadence run failed: %s %s" % (pp.stdout[-300:], pp.stderr[-300:]))
        return rows[0]
    cad_runs = 0
    for n, iv in ((20, 20), (40, 5)) if tier == "quick" else ((20, 20), (40, 5), (60, 10), (10, 100)):
        verdicts = []
        for attempt in range(3):
            g = cadence(n, iv)
            cad_runs += 1
            if g.get("res") != "canceled":
                # the loop's context was cancelled at the n-th ping (every ping answered): it stops with the context's error
                verd.witness("cancel-not-honoured", g.get("res", "?"), "interval %d ms, context cancelled at ping %d of an always-answered loop: KeepAlive %s (%d pings)"
                             % (iv, n, "did not return" if g.get("res") == "no-return" else "returned " + str(g.get("res")), g.get("pings", -1)), {"n": n, "intervalMs": iv, "run": g})
                break
            want = n * iv * 1000.0
            v = "early" if g["last_us"] < want * 0.97 - 500 else "late" if g["last_us"] > want * 1.5 + 40000 else "ok"
            verdicts.append((v, g))
            if v == "ok":
                break
        if all(v == verdicts[0][0] != "ok" for v, _ in verdicts) and len(verdicts) == 3:
            g = verdicts[-1][1]
            verd.witness("ping-cadence", verdicts[0][0], "interval %d ms: ping %d sent %.1f ms after the start (expected about %d ms); three runs agree"
                         % (iv, n, g["last_us"] / 1000.0, n * iv), {"n": n, "intervalMs": iv, "runs": [x for _, x in verdicts]})
    # reconnecting client
    rec = reconn_scenarios(tier, rng)
    byid = {s["id"]: s for s in rec}
    results = rf.run_scenarios(binary, rec, conc=2)
    reports, totals = rf.validate(results, spec="ConnObs")
    nval = 0
    for sid, rep in reports.items():
        if rep["hw"] != rep["len"] + 1:
            raise vlib.Infra("ConnObs rejected trace %s at event %d" % (sid, rep["hw"]))
        nval += 1
        for v in rep["v"]:
            if not v["o"].startswith("C13_"):
                continue
            if v["o"] in ("C13_OnlySilentPeer", "C13_SilentPeerDetected"):
                # timing observer: must reproduce twice more
                again = 0
                for a in range(2):
                    sc2 = dict(byid[sid], id=sid + "-again%d" % a)
                    r2 = rf.run_scenarios(binary, [sc2], conc=1)
                    rep2, _ = rf.validate(r2, spec="ConnObs")
                    again += any(x["o"] == v["o"] for x in rep2[sc2["id"]]["v"])
                if again < 2:
                    continue
            verd.witness(v["o"], "", "scenario %s: %s" % (sid, " | ".join(rf.trace_digest(results[sid]["evs"]))[:500]),
                         {"scenario": byid[sid], "observer": v["o"], "trace": results[sid]["evs"]})
    for sid, res in results.items():
        if "crash" in res:
            kind, msg = rf.crash_kind(res["crash"])
            verd.witness(kind, "", msg, {"scenario": byid[sid], "crash": res["crash"][-3000:]})
        elif sid.startswith("ka-traffic"):
            # >= 300 ms of a healthy connection with a ping interval of 20 ms: 15 pings are due; fewer than 5 PINGREQs on the
            # wire means the loop does not ping while the application is sending (must reproduce once more)
            def pings(r_):
                return sum(1 for e in r_["evs"] if e["e"] == "Write" and e["p"] == "PINGREQ")
            n1 = pings(res)
            if n1 < 5:
                r2 = rf.run_scenarios(binary, [dict(byid[sid], id=sid + "-again")], conc=1)
                n2 = pings(list(r2.values())[0])
                if n2 < 5:
                    verd.witness("ping-cadence-under-traffic", "", "scenario %s: %d and %d PINGREQs in >= 300 ms of a healthy connection (interval 20 ms) while QoS 0 publishes go out every 2 ms"
                                 % (sid, n1, n2), {"scenario": byid[sid], "pings": [n1, n2]})
    rc = verd.finish()
    nontriv = len({tuple(e["s"]) for e in table if any(x != "ok" for x in e["s"])})
    vlib.write_evidence(PID, tier, "model_checking", {
        "states": r.states + rp.states + totals["states"], "transitions": r.generated + rp.generated + totals["states"],
        "traces_validated_against_impl": nval, "keepalive_scripts_run_on_real_code": len(got), "script_mismatches": mism,
        "evaluations": len(got) + len(rec), "distinct_nontrivial": nontriv + len(rec),
        "rule": "all ping-outcome scripts of length <= %d over 6 letters (incl. answers slower than the interval but within the timeout), ping cadence runs, (non-trivial: contains a non-ok outcome) on the real KeepAlive; reconnecting client with swallowed PINGREQs on first / re-established connections and healthy runs" % maxlen,
        "samples": [{"script": table[len(table) // 3]["s"], "expected": table[len(table) // 3]["res"]}, {"scenario": rec[1]}],
        "exhaustive": True,
    }, time.time() - t0, ["the scripted client honours its context (returns ctx.Err() when it is done)",
                           "only orderings decide: interval 5 ms, timeout 300 ms; a 'hang' is the only way to reach the timeout",
                           "C13_OnlySilentPeer (timing) must reproduce on two re-runs"], violations=len(verd.violations))
    print("C13: KeepAlive model %d states; %d scripts on real KeepAlive (%d mismatches); %d reconnect traces validated; %.0fs"
          % (r.states, len(got), mism, nval, time.time() - t0))
    return rc
