"""C06 -- arbitrary broker bytes never crash the client; malformed input ends the link.

spec/Framer.tla: the reader as a byte-driven machine and the per-packet verdict (bad / ok / either)
the statement fixes; spec/FramerGen.tla: 68 concrete packet templates, one or more per clause, whose
verdicts TLC checks against Framer.  Every sequence of up to 2 (quick) / 3 (thorough) templates and
seeded mutations / random byte streams are fed to a real connected BaseClient (child processes: a
panic in the reader goroutine kills the process and is attributed to the stream); every packet
parser is called on all (type, flags, body <= 3/4 bytes over 5 byte values).  TLC re-executes the
specification on the concrete bytes and compares (spec/TraceFramer.tla): hand-overs, whether the
client ended the connection, Err()/Closed callback, largest read buffer."""
import itertools
import json
import os
import random
import sys
import time
from concurrent.futures import ThreadPoolExecutor

sys.path.insert(0, os.path.join(os.path.dirname(os.path.abspath(__file__)), "..", "lib"))
import vlib  # noqa: E402

PID = "C06"
BYTE_ALPHABET = [0, 1, 2, 0x61, 0x80, 0xFF]
BROKER_TYPES = [2, 3, 4, 5, 6, 7, 9, 11, 13]


def templates():
    r = vlib.tlc("FramerGen", cfg="FG.cfg", files={"FG.cfg": ""}, workers=1, timeout=300)
    if "No error has been found" not in r.out:
        raise vlib.Infra("FramerGen failed (template verdicts differ from Framer?):\n" + r.out[-3000:])
    return sorted(vlib.ndjson_read(os.path.join(r.dir, "framer_templates.ndjson")), key=lambda t: t["name"])


def stream_scenarios(tier, rng, tpl):
    out = []
    names = [t["name"] for t in tpl]
    by = {t["name"]: t["bytes"] for t in tpl}
    n = 0
    maxlen = 2 if tier == "quick" else 3
    for ln in range(1, maxlen + 1):
        for seq in itertools.product(names, repeat=ln):
            b = []
            for x in seq:
                b += by[x]
            out.append({"id": "t%d" % n, "mode": "stream", "bytes": b, "split": 0 if n % 3 else 1 + n % 5, "desc": "+".join(seq)})
            n += 1
    if tier == "quick":
        for j in range(1500):
            seq = [rng.choice(names) for _ in range(3)]
            b = []
            for x in seq:
                b += by[x]
            out.append({"id": "t%d" % n, "mode": "stream", "bytes": b, "split": rng.choice([0, 0, 1, 2, 7]), "desc": "+".join(seq)})
            n += 1
    # mutations of valid streams and plain random bytes
    good = [t for t in tpl if t["v"] == "ok"]
    nmut = 2500 if tier == "quick" else 40000
    for j in range(nmut):
        b = []
        for _ in range(rng.randint(1, 5)):
            b += rng.choice(good)["bytes"]
        k = rng.random()
        if k < 0.35:
            for _ in range(rng.randint(1, 3)):
                b[rng.randrange(len(b))] = rng.choice([0, 1, 2, 3, 0x7f, 0x80, 0xff, rng.randrange(256)])
        elif k < 0.5:
            b = b[:rng.randrange(1, len(b) + 1)]
        elif k < 0.65:
            b.insert(rng.randrange(len(b) + 1), rng.randrange(256))
        elif k < 0.8:
            b = [rng.randrange(256) for _ in range(rng.randint(1, 300))]
        elif k < 0.9:
            # long but legal publish around the 127/128 boundary
            pl = rng.choice([120, 121, 122, 123, 124, 125, 126, 200, 290])
            body = [0, 1, 0x61] + [rng.randrange(256) for _ in range(pl)]
            ln = len(body)
            b = [0x30] + ([ln] if ln < 128 else [0x80 | (ln % 128), ln // 128]) + body + b
        else:
            b += [rng.choice([0x30, 0x90, 0x40, 0xD0])] + [0xff] * rng.randint(1, 9) + [rng.randrange(128)]
        out.append({"id": "m%d" % j, "mode": "stream", "bytes": b[:300], "split": rng.choice([0, 0, 0, 1, 3, 16]), "desc": "mutation"})
    return out


def parse_scenarios(tier):
    out = []
    maxb = 3 if tier == "quick" else 4
    n = 0
    for t in BROKER_TYPES:
        for f in range(16):
            for ln in range(0, maxb + 1):
                for body in itertools.product(BYTE_ALPHABET, repeat=ln):
                    out.append({"id": "p%d" % n, "mode": "parse", "t": t, "f": f, "body": list(body)})
                    n += 1
    return out


def run_driver(binary, scs, batch):
    lines = [json.dumps({"id": "b%d" % bi, "mode": "batch", "batch": b}) for bi, b in enumerate(vlib.chunks(scs, batch))]
    p = vlib.run_drive(binary, ["run", "framer", "-j", str(vlib.NCPU), "-c", "2", "-timeout", "180s"], stdin="\n".join(lines) + "\n", timeout=2400)
    if p.returncode != 0:
        raise vlib.Infra("framer driver failed: " + p.stderr[-2000:])
    res, crashed = [], []
    batches = {"b%d" % bi: b for bi, b in enumerate(vlib.chunks(scs, batch))}
    for line in p.stdout.splitlines():
        if not line.strip():
            continue
        r = json.loads(line)
        if "crash" in r:
            crashed.append((batches[r["id"]], r["crash"]))
        elif "infra" in r:
            raise vlib.Infra("framer driver: " + r["infra"])
        else:
            res.extend(r["batch"])
    return res, crashed


def isolate_crashes(binary, crashed):
    """A batch whose worker process died: re-run its scenarios one per process to find the culprits."""
    culprits = []
    survivors = []
    for scs, text in crashed:
        lines = [json.dumps(s) for s in scs]
        p = vlib.run_drive(binary, ["run", "framer", "-j", str(vlib.NCPU), "-c", "1", "-timeout", "60s"], stdin="\n".join(lines) + "\n", timeout=1200)
        for line in p.stdout.splitlines():
            if line.strip():
                r = json.loads(line)
                if "crash" in r:
                    culprits.append(([s for s in scs if s["id"] == r["id"]][0], r["crash"]))
                elif "infra" not in r:
                    survivors.append(r)
    return culprits, survivors


def validate(results, per=3000):
    bad = []

    def one(chunk):
        text = "\n".join(json.dumps(r, separators=(",", ":")) for r in chunk) + "\n"
        r = vlib.tlc("TraceFramer", cfg="TF.cfg", files={"framer_runs.ndjson": text, "TF.cfg": ""}, workers=1, timeout=1200, heap="3g")
        rep = r.printed("REPORT")
        if not rep:
            raise vlib.Infra("TraceFramer failed:\n" + r.out[-3000:])
        return json.loads(vlib.parse_tla_value(rep[-1]))["bad"]

    with ThreadPoolExecutor(max_workers=min(12, vlib.NCPU)) as ex:
        for b in ex.map(one, list(vlib.chunks(results, per))):
            bad.extend(b)
    return bad


def crash_where(text):
    import re
    m = re.search(r"panic: (.*)", text)
    fr = re.findall(r"github\.com/at-wat/mqtt-go\.([^\s(]+(?:\([^)]*\))?[^\s(]*)\(", text)
    return (fr[0] if fr else "?"), (m.group(1).strip() if m else "process died")


def classify_stream(r, exp):
    if r.get("res"):
        return "reader-stuck"
    if r["maxbuf"] > 268435455:
        return "buffer-beyond-max-packet"
    if r["died"] and (r["errnil"] or not r["cbclosed"]):
        return "death-not-reported"
    allowed = json.loads(exp)["allowed"]
    died_allowed = {o["died"] for o in allowed}
    if r["died"] not in died_allowed:
        return "survived-malformed-packet" if not r["died"] else "killed-by-wellformed-input"
    return "handover-mismatch"


def run(tier):
    t0 = time.time()
    rng = random.Random(vlib.seed() * 7 + 6)
    verd = vlib.Verdicts(PID)
    binary = vlib.build_harness()
    tpl = templates()
    streams = stream_scenarios(tier, rng, tpl)
    parses = parse_scenarios(tier)
    byid = {s["id"]: s for s in streams + parses}
    # a malformed packet INSTEAD of the CONNACK, or directly behind it in the same segment (the connection is not, or only
    # just, established): it ends the connection with an error observable through Err() and the state callback all the same
    early = []
    for t in tpl:
        if t["v"] == "bad" and t["name"] not in ("connack-flags", "connack-1", "connack-empty"):
            for at in ("noconnack", "withconnack"):
                early.append({"id": "y%d" % len(early), "mode": "stream", "bytes": t["bytes"], "split": 0, "at": at, "desc": "%s %s" % (at, t["name"])})
    for t in tpl:
        if t["name"] in ("connack-flags", "connack-1", "connack-empty"):
            early.append({"id": "y%d" % len(early), "mode": "stream", "bytes": t["bytes"], "split": 0, "at": "noconnack", "desc": "noconnack %s" % t["name"]})
    # a client on which Handle was never called (publisher-only): malformed packets end the link all the same, whatever
    # would have become of their content
    for t in tpl:
        if t["v"] == "bad":
            early.append({"id": "y%d" % len(early), "mode": "stream", "bytes": t["bytes"], "split": 0, "noHandler": True, "desc": "no handler: %s" % t["name"]})
            if t["bytes"][0] >> 4 == 3:
                early.append({"id": "y%d" % len(early), "mode": "stream", "bytes": [0x30, 3, 0, 1, 0x61] + t["bytes"], "split": 1, "noHandler": True, "desc": "no handler: good QoS 0 PUBLISH, then %s" % t["name"]})
    # repeated CONNACKs on an established connection (nobody waits for them any more), then a malformed packet: the reader
    # is still reading and ends the link
    for t in tpl:
        if t["name"] in ("puback-empty", "pub-empty", "suback-1"):
            for k in (2, 3, 5):
                early.append({"id": "y%d" % len(early), "mode": "stream", "bytes": [0x20, 2, 0, 0] * k + t["bytes"], "split": 0, "desc": "%d more CONNACKs, then %s" % (k, t["name"])})
    res_e, crashed_e = run_driver(binary, early, 20)
    earlyid = {s["id"]: s for s in early}
    def judge_early(r):
        sc = earlyid[r["id"]]
        if r.get("res") or not r["died"] or r["errnil"] or not r["cbclosed"]:
            kind = "reader-stuck" if r.get("res") else "survived-malformed-packet" if not r["died"] else "death-not-reported"
            verd.witness(kind, sc["desc"][:60], "%s: died=%s Err() nil=%s Closed callback with that error=%s %s" % (sc["desc"], r["died"], r["errnil"], r["cbclosed"], r.get("res", "")),
                         {"scenario": sc, "result": r})
    for r in res_e:
        judge_early(r)
    # answers to an OUTSTANDING request that do not fit it (more / fewer / no return codes than filters, invalid codes,
    # acknowledgements of another kind or with trailing bytes for the same identifier): bytes from the broker like any
    # other -- the client does not panic, and once the connection has ended the outstanding call has returned
    pend = []
    codesets = [[], [0], [1, 2], [0, 1, 2], [0x80, 0x80, 0x80, 0x80], [0, 1, 2, 0x80, 0, 1], [3], [0xFF, 0xFF], [0] * 40]
    for kind in ("sub1", "sub2", "sub3", "unsub", "pub1", "pub2"):
        for cs in codesets:
            for t in (0x90, 0x92):
                for d in (0, 1):
                    pend.append({"id": "n%d" % len(pend), "mode": "stream", "pending": kind, "acks": [{"t": t, "d": d, "x": cs}], "desc": "pending %s answered by %#x id+%d %s" % (kind, t, d, cs)})
        for t in (0x40, 0x50, 0x62, 0x70, 0xB0):
            for x in ([], [0], [0, 0, 0]):
                pend.append({"id": "n%d" % len(pend), "mode": "stream", "pending": kind, "acks": [{"t": t, "d": 0, "x": x}], "desc": "pending %s answered by %#x +%d bytes" % (kind, t, len(x))})
    if tier == "quick":
        pend = [p_ for i_, p_ in enumerate(pend) if i_ % 2 == vlib.seed() % 2 or p_["acks"][0]["d"] == 0 and p_["acks"][0]["t"] == 0x90]
    res_n, crashed_n = run_driver(binary, pend, 25)
    culprits_n, survivors_n = isolate_crashes(binary, crashed_n)
    pendid = {s_["id"]: s_ for s_ in pend}
    for sc, text in culprits_n:
        where, msg = crash_where(text)
        verd.witness("panic", where, "%s on %s" % (msg, sc["desc"]), {"scenario": sc, "crash": text[-3000:]})
    if crashed_n and not culprits_n:
        raise vlib.Infra("a driver batch (outstanding requests) died but no single scenario reproduces the crash")
    for r in res_n + survivors_n:
        sc = pendid[r["id"]]
        if r.get("res") or not r.get("callret"):
            verd.witness("reader-stuck" if r.get("res") else "call-stuck-after-end", sc["desc"][:60], "%s: %s; outstanding call returned: %s" % (sc["desc"], r.get("res") or "connection ended", r.get("callret")),
                         {"scenario": sc, "result": r})
    # SUBACK return codes that are no QoS (0x80 = refused, and bytes no broker should send) on the retrying / reconnecting
    # client, followed by a lost session: whatever the client kept of them, re-subscribing must not crash it
    import retry_family as rf
    fam = rf.Family(PID)
    fam.verd = verd
    gsc = []
    for code in (0x80, 3, 0x55, 0xFF):
        for wl in ([rf.SUB(("x", 1)), rf.PUB(1)], [rf.SUB(("x", 2), ("y", 0)), rf.PUB(1), rf.UNSUB("y")]):
            for how in ("lost", "always"):
                gsc.append(rf.scenario("gc-%d" % len(gsc), wl, ["conn"] * len(wl), [{"p": "PUBLISH", "n": 1, "o": "cutAfter"}],
                                       connacks=[{}, {"sp": "false"}] if how == "lost" else [], opts={"grantCode": code, "alwaysResub": how == "always"}))
    fam.execute(binary, gsc)
    res_s, crashed = run_driver(binary, streams, 50)
    crashed = crashed + crashed_e
    res_p, crashed_p = run_driver(binary, parses, 2000)
    culprits, survivors = isolate_crashes(binary, crashed + crashed_p)
    # scenarios of a crashed *early* batch that run through alone are judged by the rule of the early block, not by TraceFramer
    for r in survivors:
        if r["id"] in earlyid:
            judge_early(r)
    survivors = [r for r in survivors if r["id"] not in earlyid]
    res_s += [r for r in survivors if r["mode"] == "stream"]
    res_p += [r for r in survivors if r["mode"] == "parse"]
    for sc, text in culprits:
        where, msg = crash_where(text)
        verd.witness("panic", where, "%s on %s %s" % (msg, sc.get("desc", ""), json.dumps(sc.get("bytes", sc.get("body")))[:200]), {"scenario": sc, "crash": text[-3000:]})
    if (crashed or crashed_p) and not culprits:
        raise vlib.Infra("a driver batch died but no single scenario reproduces the crash")
    results = res_s + res_p
    bad = validate(results)
    resid = {r["id"]: r for r in results}
    for b in bad:
        r = resid[b["id"]]
        sc = byid[b["id"]]
        if r["mode"] == "stream":
            kind = classify_stream(r, b["exp"])
            verd.witness(kind, sc.get("desc", "")[:60] if kind != "handover-mismatch" else "", "stream %s: observed died=%s cls=%s handovers=%d maxbuf=%d; allowed %s"
                         % (json.dumps(r["bytes"])[:160], r["died"], r["cls"], len(r["ho"]), r["maxbuf"], b["exp"][:200]), {"scenario": sc, "result": r, "allowed": b["exp"]})
        else:
            kind = "parser-panic" if r["res"] == "panic" else ("parser-accepts-malformed" if r["res"] == "ok" else "parser-rejects-wellformed")
            verd.witness(kind, "type%d" % r["t"], "type %d flags %d body %s: parser %s (%s), specification %s" % (r["t"], r["f"], r["body"], r["res"], r["cls"], b["exp"]),
                         {"scenario": sc, "result": r})
    rc = verd.finish()
    distinct = len({json.dumps(r["bytes"]) for r in res_s if r["died"] or r["ho"]}) + len({(r["t"], r["f"], tuple(r["body"])) for r in res_p if r["res"] != "ok"})
    vlib.write_evidence(PID, tier, "exploration", {
        "evaluations": len(results) + len(res_n) + len(res_e), "distinct_nontrivial": distinct,
        "early_streams": len(res_e), "answers_to_outstanding_requests": len(res_n) + len(survivors_n),
        "rule": "streams: every sequence of <=%d of the templates of FramerGen.tla (incl. string length fields at the 16-bit edges) + seeded mutations/random bytes (<=300 bytes), delivered at once or in small chunks; parsers: all (type, flags, body<=%d bytes over {0,1,2,'a',0x80,0xFF}); non-trivial = the client ended the connection or handed over a message / the parser rejected"
                % (2 if tier == "quick" else 3, 3 if tier == "quick" else 4),
        "streams": len(res_s), "parser_vectors": len(res_p), "crashed_batches": len(crashed) + len(crashed_p), "templates": len(tpl),
        "streams_where_client_died": sum(1 for r in res_s if r["died"]), "largest_read_buffer": max([r["maxbuf"] for r in res_s] or [0]),
        "samples": [{"stream": res_s[len(res_s) // 2]["bytes"], "died": res_s[len(res_s) // 2]["died"], "handovers": len(res_s[len(res_s) // 2]["ho"])}] if res_s else [],
        "exhaustive": False,
    }, time.time() - t0, ["child processes: a reader-goroutine panic is attributed to the single stream that reproduces it alone",
                           "where the statement is silent (FramerGen 'either' templates) both outcomes are accepted",
                           "allocation is observed as the largest buffer handed to Transport.Read"], violations=len(verd.violations))
    print("C06: %d templates verified by TLC; %d streams + %d parser vectors on real code, validated by TLC (TraceFramer): %d nonconforming, %d crashing; %.0fs"
          % (len(tpl), len(res_s), len(res_p), len(bad), len(culprits), time.time() - t0))
    return rc


def replay(path):
    body = json.load(open(path))
    sc = body["replay"]["scenario"]
    binary = vlib.build_harness()
    res, crashed = run_driver(binary, [sc], 1)
    verd = vlib.Verdicts(PID)
    for scs, text in crashed:
        where, msg = crash_where(text)
        verd.witness("panic", where, msg, {"scenario": sc})
    for b in validate(res):
        verd.witness("nonconforming", "", b["exp"][:200], {"scenario": sc})
    return verd.finish()
