"""Retry family (C01 C02 C03 C08 C12 C17 C18): scenarios generated from TLC-enumerated components
(spec/Plans.tla) are executed on the real reconnecting client over netsim; the recorded traces are
validated by TLC against spec/MqttEnv.tla (Layer 1), whose observers are the verdict; the
implementation-shaped model spec/MqttRetry.tla is checked exhaustively for the same bounds."""
import json
import os
import random
import re
import subprocess
import sys
import time
from concurrent.futures import ThreadPoolExecutor

sys.path.insert(0, os.path.join(os.path.dirname(os.path.abspath(__file__)), "..", "lib"))
import vlib  # noqa: E402

ASSUMPTIONS = [
    "A1: connection cuts are applied inside a client Write or when the client is quiescent",
    "A2: Transport.Write either fails without delivering or delivers the whole packet",
    "A3: the netsim broker follows MQTT 3.1.1 (validated on every trace by spec/MqttEnv.tla: a trace it does not accept is an infrastructure error)",
    "A5: silent CONNACKs are used only with a configured connect timeout; silent drops only with ResponseTimeout",
    "bounded: workloads of <=3 requests, <=2-3 faults among the first 8 request packets, <=4 connections per run",
]


def gen_components(max_len=3, max_faults=2, max_k=8):
    cfg = "CONSTANTS\n MaxLen = %d\n MaxFaults = %d\n MaxK = %d\n" % (max_len, max_faults, max_k)
    r = vlib.tlc("Plans", cfg="PlansRun.cfg", files={"PlansRun.cfg": cfg}, workers=1, timeout=300)
    if "No error has been found" not in r.out:
        raise vlib.Infra("Plans.tla failed:\n" + r.out[-3000:])
    comps = {}
    for f in os.listdir(r.dir):
        if f.endswith(".ndjson"):
            rows = vlib.ndjson_read(os.path.join(r.dir, f))
            comps[f[:-7]] = [list(x.values())[0] for x in rows]
    for k in comps:
        comps[k].sort(key=lambda x: json.dumps(x, sort_keys=True))
    return comps


def scenario(sid, workload, timing, faults, dials=(), connacks=(), opts=None, inbound=()):
    reqs = []
    for i, w in enumerate(workload):
        r = {"k": w["k"], "at": timing[i] if i < len(timing) else "conn"}
        if w["k"] == "pub":
            r["q"] = w["q"]
            if w.get("retain"):
                r["retain"] = True
            if w.get("pid"):
                r["pid"] = w["pid"]
            if w.get("size"):
                r["size"] = w["size"]
        elif w["k"] == "sub":
            r["subs"] = w["subs"]
        elif w["k"] == "unsub":
            r["fs"] = w["fs"]
        elif w["k"] == "handle":
            r["h"] = w["h"]
            if w.get("swap"):
                r["swap"] = w["swap"]
        reqs.append(r)
    plan = {}
    if faults:
        plan["writes"] = [dict(f) for f in faults]
    if dials:
        plan["dials"] = list(dials)
    if connacks:
        plan["connacks"] = [{k: v for k, v in c.items() if v not in ("", 0, False)} for c in connacks]
    if inbound:
        plan["inbound"] = list(inbound)
    return {"id": sid, "reqs": reqs, "plan": plan, "opts": dict(opts or {})}


def needs_conn_timeout(connacks):
    return any(c.get("silent") for c in connacks)


def run_scenarios(binary, scenarios, conc=4, timeout=1500):
    if not scenarios:
        return {}
    inp = "\n".join(json.dumps(s, sort_keys=True) for s in scenarios) + "\n"
    p = vlib.run_drive(binary, ["run", "retry", "-j", str(vlib.NCPU), "-c", str(conc)], stdin=inp, timeout=timeout, killed_ok=True)
    if p.returncode != 0:
        raise vlib.Infra("driver failed: rc=%s\n%s" % (p.returncode, p.stderr[-3000:]))
    res = {}
    for line in p.stdout.splitlines():
        if line.strip():
            r = json.loads(line)
            res[r["id"]] = r
    missing = [s["id"] for s in scenarios if s["id"] not in res]
    if missing:
        raise vlib.Infra("driver returned no result for %d scenarios, e.g. %s" % (len(missing), missing[:3]))
    return res


def validate(results, batch=150, spec="MqttEnv"):
    """Layer-1 validation.  Returns {id: {"len":, "hw":, "v":[{"o":, "at":}]}} and TLC state counts."""
    ids = [i for i, r in results.items() if "evs" in r]
    batches = list(vlib.chunks(sorted(ids), batch))
    out = {}
    totals = {"states": 0, "generated": 0}

    def one(b):
        text = "\n".join(json.dumps(results[i], sort_keys=True) for i in b) + "\n"
        r = vlib.tlc(spec, cfg=spec + ".cfg", files={"traces.ndjson": text}, workers=1, timeout=900, deque=True, heap="3g")
        rep = r.printed("REPORT")
        if not rep or r.error or r.violated:
            raise vlib.Infra("trace validation run failed:\n" + r.out[-4000:])
        return json.loads(vlib.parse_tla_value(rep[-1])), r

    with ThreadPoolExecutor(max_workers=max(1, min(8, vlib.NCPU // 2))) as ex:
        for rep, r in ex.map(one, batches):
            totals["states"] += r.states
            totals["generated"] += r.generated
            for t in rep:
                out[t["id"]] = t
    return out, totals


def crash_kind(text):
    """Top library frame of a panic."""
    m = re.search(r"panic: (.*)", text)
    msg = m.group(1).strip() if m else "crash"
    fr = re.findall(r"github\.com/at-wat/mqtt-go\.((?:\(\*?\w+\)\.)?[\w.]+)\(", text)
    top = fr[0] if fr else "?"
    top = re.sub(r"\.func\d+(\.\d+)*$", "", top)
    return "panic@" + top, msg


def trace_digest(evs):
    """Compact human-readable rendering of a recorded trace."""
    out = []
    for e in evs:
        k = e["e"]
        if k == "Write":
            s = "W g%d %s" % (e["g"], e["p"])
            if e["p"] == "PUBLISH":
                s += "(m%d q%d%s)" % (e["tag"], e["qos"], " dup" if e["dup"] else "")
            elif e["p"] in ("SUBSCRIBE", "UNSUBSCRIBE"):
                s += "(%s)" % ",".join(e["fs"])
            if e["o"] != "ok":
                s += " !" + e["o"]
            out.append(s)
        elif k == "Submit":
            s = "submit#%d %s" % (e["i"], e["k"])
            if e["k"] == "pub":
                s += " q%d" % e["q"]
            else:
                s += "(%s)" % ",".join(e["fs"])
            out.append(s)
        elif k == "Dial":
            out.append("dial#%d %s" % (e["n"], e["res"]))
        elif k == "Close":
            out.append("close g%d by %s" % (e["g"], e["by"]))
        elif k == "Idle":
            out.append("idle drained=%s" % e["drained"])
        elif k in ("Handled",):
            out.append("handled h%d m%d" % (e["h"], e["tag"]))
        elif k == "Handle" and e["phase"] == "call":
            out.append("Handle(h%d)" % e["h"])
    return out


def nontrivial_key(res):
    """Distinctness key of a recorded run: the sequence of (kind, packet, outcome) ignoring ids/timing."""
    key = []
    fault = False
    for e in res.get("evs", []):
        if e["e"] == "Write":
            key.append((e["g"], e["p"], e["tag"], e["dup"], e["o"], tuple(e["fs"])))
            if e["o"] != "ok":
                fault = True
        elif e["e"] == "Dial":
            key.append(("dial", e["res"]))
            if e["res"] != "ok":
                fault = True
        elif e["e"] == "Submit":
            key.append(("s", e["i"]))
        elif e["e"] == "Close" and e["by"] == "peer":
            fault = True
    return tuple(key), fault


class Family:
    """One run of a retry-family property check."""

    def __init__(self, pid, prefixes=None):
        self.pid = pid
        self.prefixes = prefixes or [pid + "_"]
        self.verd = vlib.Verdicts(pid)
        self.stats = {"scenarios": 0, "traces_validated": 0, "crashes": 0, "skipped_infeasible": 0,
                      "trace_states": 0, "events": 0}
        self.distinct = set()
        self.samples = []
        self.rejected = []
        self.observer_hits = {}

    def classify(self, obs, sc, res, at):
        """Witness kind for a failing observer; refined by subclasses of known findings."""
        return obs, ""

    def execute(self, binary, scenarios, conc=4):
        """Run scenarios, validate, collect witnesses.  Returns (results, reports)."""
        t0 = time.time()
        byid = {s["id"]: s for s in scenarios}
        results = run_scenarios(binary, scenarios, conc=conc)
        reports, totals = validate(results)
        self.stats["scenarios"] += len(scenarios)
        self.stats["trace_states"] += totals["states"]
        for sid, res in results.items():
            sc = byid[sid]
            if "crash" in res:
                if "panic" not in res["crash"] and "fatal error" not in res["crash"] and "DATA RACE" not in res["crash"]:
                    # the worker was killed by its supervisor (no output for the whole time limit) or died without a
                    # Go panic: a driver that did not finish is no observation of the library
                    self.stats["unfinished"] = self.stats.get("unfinished", 0) + 1
                    self.verd.notes.append("scenario %s did not finish (worker killed without a panic); dropped" % sid)
                    if self.stats["unfinished"] > max(3, len(scenarios) // 50):
                        raise vlib.Infra("%d scenarios did not finish, e.g. %s" % (self.stats["unfinished"], sid))
                    continue
                self.stats["crashes"] += 1
                kind, msg = crash_kind(res["crash"])
                self.verd.witness(kind, "", msg, {"scenario": sc, "crash": res["crash"][-3000:]})
                continue
            if "infra" in res:
                raise vlib.Infra("driver infra error in %s: %s" % (sid, res["infra"]))
            rep = reports[sid]
            self.stats["events"] += rep["len"]
            if rep["hw"] != rep["len"] + 1:
                self.rejected.append((sid, rep["hw"], res["evs"][rep["hw"] - 1] if rep["hw"] - 1 < len(res["evs"]) else None))
                continue
            self.stats["traces_validated"] += 1
            if res.get("info", {}).get("unreached"):
                self.stats["skipped_infeasible"] += 1
            key, fault = nontrivial_key(res)
            if fault:
                self.distinct.add(hash(key))
            if len(self.samples) < 3 and fault:
                self.samples.append({"scenario": sc, "trace": trace_digest(res["evs"])})
            for v in rep["v"]:
                o = v["o"]
                self.observer_hits[o] = self.observer_hits.get(o, 0) + 1
                if any(o.startswith(p) for p in self.prefixes):
                    kind, where = self.classify(o, sc, res, v["at"])
                    self.verd.witness(kind, where, "scenario %s event %d: %s" % (sid, v["at"], " | ".join(trace_digest(res["evs"]))[:600]),
                                      {"scenario": sc, "observer": o, "event": v["at"], "trace": res["evs"]})
        if self.rejected:
            sid, hw, ev = self.rejected[0]
            raise vlib.Infra("Layer-1 (MqttEnv) rejected %d recorded trace(s): the harness broke the environment contract; first: %s at event %d: %s"
                             % (len(self.rejected), sid, hw, json.dumps(ev)))
        return results, reports


def sample(rng, lst, n):
    if n >= len(lst):
        return list(lst)
    return rng.sample(lst, n)


# --------------------------------------------------------------------------------------
# Layer-2 model instances (spec/MqttRetry.tla)
# --------------------------------------------------------------------------------------
def tla(v):
    """Python value -> TLA+ literal."""
    if isinstance(v, bool):
        return "TRUE" if v else "FALSE"
    if isinstance(v, int):
        return str(v)
    if isinstance(v, str):
        return '"%s"' % v
    if isinstance(v, (list, tuple)):
        return "<<" + ", ".join(tla(x) for x in v) + ">>"
    if isinstance(v, dict):
        return "[" + ", ".join("%s |-> %s" % (k, tla(x)) for k, x in v.items()) + "]"
    if isinstance(v, (set, frozenset)):
        return "{" + ", ".join(tla(x) for x in sorted(v)) + "}"
    raise ValueError(v)


def model_workload(w):
    """Plans.tla workload entry -> MqttRetry request record."""
    out = []
    for r in w:
        if r["k"] == "pub":
            out.append({"k": "pub", "q": r["q"]})
        elif r["k"] == "sub":
            out.append({"k": "sub", "subs": [{"f": s["f"], "q": s["q"]} for s in r["subs"]]})
        else:
            out.append({"k": "unsub", "fs": list(r["fs"])})
    return out


BUGS_OFF = {"BugRequeueAll": False, "BugStaleSwitch": False, "BugResubBehind": False,
            "BugPubrelDemote": False, "BugRetryNoTimeout": False, "BugSubDup": False,
            "BugHandleAfterConnect": False, "BugHandleNotForwarded": False, "BugRetryGoesOn": False}
ALL_INVARIANTS = ["NoDupQoS2", "NoLoss", "DupFlag", "NoPubAfterRel", "NoTxAfterDone", "OrderPerConn", "FirstTxOrder",
                  "NoQoS0Retx", "StableDone", "DeliveredOnce", "StableSubs", "WaitArmed"]


def mc_retry(workload, faults=2, deliver_on_rel=False, sessions=(True,), always_resub=False, resp_timeout=False,
             bugs=None, invariants=None, props=(), workers=None, timeout=600, heap="12g", handlers=(), inbound=0, direct_qos0=False):
    """Exhaustively check one MqttRetry instance.  Returns the TLCResult."""
    consts = dict(BUGS_OFF)
    consts.update(bugs or {})
    inv = list(invariants if invariants is not None else ALL_INVARIANTS)
    if not all(sessions):
        # exactly-once delivery presupposes a broker that keeps the session
        inv = [i for i in inv if i not in ("NoDupQoS2", "DeliveredOnce")]
    mc = "---- MODULE MCRetry ----\nEXTENDS MqttRetry\nWL == %s\nSESS == %s\nHS == %s\n====\n" % (
        tla(model_workload(workload)), tla(set(sessions)), tla(list(handlers)))
    cfg = ["SPECIFICATION Spec", "CONSTANTS", "  Workload <- WL", "  MaxFaults = %d" % faults, "  MaxGen = %d" % (faults + 1),
           "  DeliverOnRel = %s" % tla(deliver_on_rel), "  SessionChoices <- SESS", "  AlwaysResub = %s" % tla(always_resub),
           "  RespTimeout = %s" % tla(resp_timeout), "  Handlers <- HS", "  MaxInbound = %d" % inbound, "  DirectQoS0 = %s" % tla(direct_qos0)]
    cfg += ["  %s = %s" % (k, tla(v)) for k, v in consts.items()]
    cfg += ["CHECK_DEADLOCK FALSE"]
    if inv:
        cfg += ["INVARIANTS " + " ".join(inv)]
    if props:
        cfg += ["PROPERTIES " + " ".join(props)]
    return vlib.tlc("MCRetry", cfg="MCRetry.cfg", files={"MCRetry.tla": mc, "MCRetry.cfg": "\n".join(cfg) + "\n"},
                    workers=workers or min(12, vlib.NCPU), timeout=timeout, heap=heap)


PUB = lambda q, retain=False: dict({"k": "pub", "q": q, "subs": [], "fs": []}, **({"retain": True} if retain else {}))  # noqa: E731
SUB = lambda *fq: {"k": "sub", "q": 0, "subs": [{"f": f, "q": q} for f, q in fq], "fs": []}  # noqa: E731
UNSUB = lambda *fs: {"k": "unsub", "q": 0, "subs": [], "fs": list(fs)}  # noqa: E731

# each Bug switch must make TLC find a counterexample to the invariant it is tied to (non-vacuity)
BUG_SELFTEST = [
    ("BugRequeueAll", dict(workload=[PUB(2), PUB(1)], faults=2), {"NoDupQoS2", "NoPubAfterRel", "NoTxAfterDone"}),
    ("BugPubrelDemote", dict(workload=[PUB(2)], faults=2), {"NoDupQoS2", "NoPubAfterRel", "NoTxAfterDone"}),
    ("BugStaleSwitch", dict(workload=[PUB(0), PUB(1)], faults=1), {"NoLoss"}),
    ("BugResubBehind", dict(workload=[SUB(("x", 1)), PUB(1), UNSUB("x")], faults=2, sessions=(True, False)), {"StableSubs"}),
    ("BugRetryNoTimeout", dict(workload=[PUB(1)], faults=2, resp_timeout=True), {"WaitArmed"}),
    ("BugSubDup", dict(workload=[SUB(("x", 0)), SUB(("x", 1)), UNSUB("x")], faults=1, sessions=(True, False)), {"StableSubs"}),
    ("BugRetryGoesOn", dict(workload=[PUB(1), SUB(("y", 1)), UNSUB("y")], faults=2, resp_timeout=True, invariants=["StableSubs"]), {"StableSubs"}),
    ("BugHandleAfterConnect", dict(workload=[PUB(1)], faults=1, handlers=(1,), inbound=2, invariants=["HandlerFollows"]), {"HandlerFollows"}),
    ("BugHandleNotForwarded", dict(workload=[PUB(1)], faults=1, handlers=(1, 2), inbound=2, invariants=["HandlerFollows"]), {"HandlerFollows"}),
]


def bug_selftest():
    res = []
    for bug, kw, expect in BUG_SELFTEST:
        r = mc_retry(bugs={bug: True}, timeout=300, **kw)
        ok = r.violated in expect
        res.append((bug, r.violated, r.states, ok))
    return res


# --------------------------------------------------------------------------------------
# Layer-2 conformance (spec/TraceRetry.tla): DRIFT, never a verdict
# --------------------------------------------------------------------------------------
def l2_eligible(sc, res):
    if "evs" not in res or res.get("info", {}).get("unreached"):
        return False
    o = sc.get("opts", {})
    if o.get("pingMs") or o.get("hookEvents") or o.get("cleanSession") or o.get("grantCap") is not None or o.get("promptAcks") or o.get("grantCode") is not None or o.get("maxPayload"):
        return False
    if any(r["k"] not in ("pub", "sub", "unsub", "peerclose", "sleep", "release", "handle") or r.get("swap") for r in sc["reqs"]):
        return False
    return True


def l2_trace(res, resp_timeout_ms=0):
    """Project a recorded trace for TraceRetry: cut at Idle, give every PUBREL the tag of its message.
    A late acknowledgement (25 ms) is an ordinary one for the client unless a shorter ResponseTimeout expires first."""
    evs = []
    tagof = {}
    connack = {}
    ackcut = set()
    # an acknowledgement the broker sent but the client never read because ANOTHER writer's packet (option
    # DirectlyPublishQoS0: the caller's goroutine writes) ended the connection first: for the client that request was
    # never answered -- the model's outcome "ackPending" (trace validation only) followed by the cut of the other write
    unread = set()
    raw = res["evs"]
    for i, e in enumerate(raw):
        if e["e"] == "Idle":
            break
        if e["e"] == "Write" and e.get("req", True) and e.get("o") == "ok" and e.get("resp") and e["p"] != "CONNECT":
            for f in raw[i + 1:]:
                if f["e"] == "Read" and f["g"] == e["g"] and f["p"] == e["resp"] and f["id"] == e["id"]:
                    break
                if f["e"] == "Close" and f["g"] == e["g"]:
                    unread.add(e["seq"])
                    break
                if f["e"] == "Idle":
                    break
    for e in res["evs"]:
        if e["e"] == "Idle":
            break
        if e["e"] == "Close" and e["by"] == "plan" and e["g"] in ackcut:
            # for the model this is the transport ending under the client (its acknowledgements are not model steps)
            e = dict(e, by="peer")
            ackcut.discard(e["g"])
        if e["e"] == "Close" and e["by"] == "peer" and connack.get(e["g"]) != "accepted":
            # the broker closing a connection it refused is part of the failed Connect, not a fault of its own
            e = dict(e, by="brokerRefused")
        if e["e"] == "Write":
            e = dict(e)
            if e.get("o") == "lateAck":
                e["o"] = "dropAck" if 0 < resp_timeout_ms < 25 else "ok"
            if e.get("seq") in unread:
                e["o"] = "ackPending"
            if e["p"] == "CONNECT":
                connack[e["g"]] = e.get("connack")
            if e["p"] == "PUBLISH":
                tagof[e["id"]] = e["tag"]
            e["rtag"] = tagof.get(e["id"], 0) if e["p"] == "PUBREL" else 0
            if not e.get("req", True) and e.get("o") in ("cutBefore", "cutAfter"):
                ackcut.add(e["g"])       # the connection dies while the client acknowledges inbound traffic
            if e["p"] in ("PINGREQ", "DISCONNECT") or not e.get("req", True):
                continue
        evs.append(e)
    return evs


def l2_validate(scenarios, results, max_groups=None, timeout=600):
    """Returns (validated, drift) where drift = [(scenario id, first unmatched event index, event)]."""
    groups = {}
    rtms = {sc["id"]: sc.get("opts", {}).get("respTimeoutMs", 0) for sc in scenarios}
    for sc in scenarios:
        res = results.get(sc["id"])
        if not res or not l2_eligible(sc, res):
            continue
        wl = [r for r in sc["reqs"] if r["k"] in ("pub", "sub", "unsub")]
        mwl = []
        for r in wl:
            if r["k"] == "pub":
                mwl.append({"k": "pub", "q": r.get("q", 0)})
            elif r["k"] == "sub":
                mwl.append({"k": "sub", "subs": [{"f": s["f"], "q": s["q"]} for s in r["subs"]]})
            else:
                mwl.append({"k": "unsub", "fs": list(r["fs"])})
        if not mwl:
            continue
        o = sc.get("opts", {})
        hs = [r["h"] for r in sc["reqs"] if r["k"] == "handle"]
        ninb = len(sc.get("plan", {}).get("inbound") or [])
        key = (json.dumps(mwl, sort_keys=True), bool(o.get("deliverOnRel")), bool(o.get("alwaysResub")), bool(o.get("respTimeoutMs")), bool(o.get("directQoS0")),
               json.dumps(hs), ninb)
        groups.setdefault(key, []).append(sc["id"])
    keys = sorted(groups)
    if max_groups and len(keys) > max_groups:
        step = len(keys) / float(max_groups)
        keys = [keys[int(i * step)] for i in range(max_groups)]      # evenly spread over workloads and options
    drift, validated, states = [], 0, 0

    def one(key):
        mwl, dor, ar, rt, dq, hs, ninb = key
        ids = groups[key]
        text = "\n".join(json.dumps({"id": i, "evs": l2_trace(results[i], rtms.get(i, 0))}, sort_keys=True) for i in ids) + "\n"
        mc = "---- MODULE MCTrace ----\nEXTENDS TraceRetry\nWL == %s\nHS == %s\n====\n" % (tla(json.loads(mwl)), tla(json.loads(hs)))
        cfg = ["SPECIFICATION TSpec", "CONSTANTS", "  Workload <- WL", "  MaxFaults = 14", "  MaxGen = 14", "  DeliverOnRel = %s" % tla(dor),
               "  SessionChoices = {TRUE, FALSE}", "  AlwaysResub = %s" % tla(ar), "  RespTimeout = %s" % tla(rt)]
        cfg += ["  %s = FALSE" % b for b in BUGS_OFF]
        cfg += ["  Handlers <- HS", "  MaxInbound = %d" % ninb, "  DirectQoS0 = %s" % tla(dq)]
        cfg += ["CHECK_DEADLOCK FALSE", "CONSTRAINT HW", "POSTCONDITION Report"]
        r = vlib.tlc("MCTrace", cfg="MCTrace.cfg", files={"MCTrace.tla": mc, "MCTrace.cfg": "\n".join(cfg) + "\n", "l2traces.ndjson": text},
                     workers=1, timeout=timeout, deque=True, heap="3g")
        rep = r.printed("REPORT")
        if not rep:
            raise vlib.Infra("TraceRetry run failed:\n" + r.out[-3000:])
        return json.loads(vlib.parse_tla_value(rep[-1])), r.states

    with ThreadPoolExecutor(max_workers=max(1, min(8, vlib.NCPU // 2))) as ex:
        for rep, st in ex.map(one, keys):
            states += st
            for t in rep:
                if t["hw"] == t["len"] + 1:
                    validated += 1
                else:
                    evs = l2_trace(results[t["id"]], rtms.get(t["id"], 0))
                    drift.append((t["id"], t["hw"], evs[t["hw"] - 1] if 0 < t["hw"] <= len(evs) else None))
    return validated, drift, states
