#!/usr/bin/env python3
"""Development aid (not a registered check): sweep MqttRetry over workloads x options with ALL invariants and
report every instance in which TLC finds a counterexample.  usage: explore_model.py [max seconds per instance]"""
import itertools
import os
import sys
import time
from concurrent.futures import ThreadPoolExecutor

sys.path.insert(0, os.path.dirname(os.path.abspath(__file__)))
sys.path.insert(0, os.path.join(os.path.dirname(os.path.abspath(__file__)), "..", "lib"))
import retry_family as rf  # noqa: E402
import vlib  # noqa: E402

P, S, U = rf.PUB, rf.SUB, rf.UNSUB
WORKLOADS = [
    [P(1), P(2)], [P(2), P(1)], [P(0), P(1), P(2)], [P(2), P(2)],
    [S(("x", 1)), U("x")], [P(1), S(("y", 1)), U("y")], [S(("x", 1)), S(("x", 0)), U("x")], [U("x"), S(("x", 1))],
    [P(2), S(("x", 1)), U("x")], [S(("x", 1), ("y", 0)), U("x"), P(1)], [S(("x", 1)), P(2), P(0)],
]


def main():
    limit = int(sys.argv[1]) if len(sys.argv) > 1 else 240
    jobs = []
    for wl in WORKLOADS:
        has_sub = any(r["k"] != "pub" for r in wl)
        for rt, dor, sess, ar in itertools.product((False, True), (False, True), ((True,), (True, False)), (False, True)):
            if not has_sub and (ar or len(sess) > 1):
                continue
            if has_sub and dor and not any(r["k"] == "pub" and r["q"] == 2 for r in wl):
                continue
            jobs.append((wl, dict(faults=2, resp_timeout=rt, deliver_on_rel=dor, sessions=sess, always_resub=ar)))
    print("%d instances" % len(jobs), flush=True)

    def one(job):
        wl, kw = job
        t0 = time.time()
        r = rf.mc_retry(wl, workers=4, timeout=limit, heap="6g", **kw)
        return job, r, time.time() - t0

    bad = 0
    with ThreadPoolExecutor(max_workers=4) as ex:
        for (wl, kw), r, dt in ex.map(one, jobs):
            name = " ".join("%s%s" % (x["k"], x["q"] if x["k"] == "pub" else [s["f"] + str(s["q"]) for s in x["subs"]] or x["fs"]) for x in wl)
            status = "VIOLATED " + r.violated if r.violated else ("ERROR " + str(r.error)[:80] if r.error else "ok")
            if r.violated:
                bad += 1
            print("%-60s %-90s %8s states %4.0fs  %s" % (name, kw, r.states, dt, status), flush=True)
    print("instances with a counterexample: %d" % bad)
    vlib.cleanup()


main()
