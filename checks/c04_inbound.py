"""C04 -- inbound QoS 0/1/2 flows: one hand-over per message, correct acknowledgements.

spec/Serve.tla holds (1) the reference receiver `Conforms` written from the statement, (2) the
implementation-shaped model of serve() which TLC checks exhaustively against it for every packet
sequence up to the bound, with three wrong-implementation switches for non-vacuity; the same bounded
input space (and longer seeded sequences) is executed on the real BaseClient over netsim and the
recorded timelines are checked by TLC with the same `Conforms` (spec/TraceServe.tla)."""
import itertools
import json
import os
import random
import sys
import time
from concurrent.futures import ThreadPoolExecutor

sys.path.insert(0, os.path.join(os.path.dirname(os.path.abspath(__file__)), "..", "lib"))
import vlib  # noqa: E402

PID = "C04"
# the alphabet shared by the model instance and the driver (12 letters)
LETTERS = ([{"p": "PUB", "q": 0, "id": 0, "dup": False}] +
           [{"p": "PUB", "q": q, "id": i, "dup": d} for q in (1, 2) for i in (1, 2) for d in (False, True)] +
           [{"p": "REL", "q": 0, "id": i, "dup": False} for i in (1, 2, 3)])


def tla(v):
    if isinstance(v, bool):
        return "TRUE" if v else "FALSE"
    if isinstance(v, int):
        return str(v)
    if isinstance(v, str):
        return '"%s"' % v
    if isinstance(v, dict):
        return "[" + ", ".join("%s |-> %s" % (k, tla(x)) for k, x in v.items()) + "]"
    return "{" + ", ".join(tla(x) for x in v) + "}"


def model(maxlen, handler, bug=None, timeout=900):
    mc = "---- MODULE MCServe ----\nEXTENDS Serve\nL == %s\n====\n" % tla(LETTERS)
    cfg = ["SPECIFICATION SSpec", "CONSTANTS", " Letters <- L", " MaxLen = %d" % maxlen, " HasHandler = %s" % tla(handler)]
    for b in ("BugAckBeforeHandler", "BugDeliverOnPublish", "BugKeepAfterRelease", "BugCompBeforeHandover"):
        cfg.append(" %s = %s" % (b, tla(b == bug)))
    cfg.append(" AllowWriteFail = TRUE")
    cfg += ["CHECK_DEADLOCK FALSE", "INVARIANTS ImplConforms BufferSound ImplHandsOver"]
    return vlib.tlc("MCServe", cfg="MCServe.cfg", files={"MCServe.tla": mc, "MCServe.cfg": "\n".join(cfg) + "\n"},
                    workers=min(12, vlib.NCPU), timeout=timeout, heap="8g")


def scenarios(tier, rng):
    out = []
    full = 3 if tier == "quick" else 5
    i = 0
    for ln in range(1, full + 1):
        for seq in itertools.product(range(len(LETTERS)), repeat=ln):
            for h in (True, False):
                out.append({"id": "e%d" % i, "letters": [LETTERS[k] for k in seq], "handler": h, "slow": False})
                i += 1
                if h and ln <= 2:
                    # topic names with multi-byte UTF-8 characters: identifier and payload follow the topic's BYTES
                    out.append({"id": "e%d" % i, "letters": [LETTERS[k] for k in seq], "handler": True, "slow": False, "topic": "s/\u6e29\u5ea6/z\u00fcrich"})
                    i += 1
                    # the handler uses the client (publishes a reply) while the reader goroutine is inside it
                    out.append({"id": "e%d" % i, "letters": [LETTERS[k] for k in seq], "handler": True, "slow": False, "reply": True})
                    i += 1
    # the acknowledgement cannot be written (half-broken transport): what was consumed has still been handed over
    Q1, Q2, R = {"p": "PUB", "q": 1, "id": 1, "dup": False}, {"p": "PUB", "q": 2, "id": 2, "dup": False}, {"p": "REL", "id": 2}
    for pre in ([], [{"p": "PUB", "q": 0, "id": 0, "dup": False}], [Q1]):
        for seq, pk in (([Q1], "PUBACK"), ([Q2, R], "PUBCOMP"), ([Q2, dict(Q2, dup=True), R], "PUBCOMP"), ([Q2, R, Q1], "PUBCOMP"), ([Q2], "PUBREC")):
            for o in ("cutBefore", "cutAfter"):
                nth = 1 + sum(1 for x in pre if pk == "PUBACK" and x.get("q") == 1)
                out.append({"id": "f%d" % i, "letters": pre + seq, "handler": True, "slow": False, "faults": [{"p": pk, "n": nth, "o": o}]})
                i += 1
    # a client with MaxPayloadLen configured (the limit on what the APPLICATION may publish): inbound messages within that
    # limit -- payload just below it, so that topic + payload, or the whole packet, exceed the number -- flow as ever
    for mx in (32, 64, 300):
        for seq in ([Q1], [Q2, R], [{"p": "PUB", "q": 0, "id": 0, "dup": False}, Q1, Q2, R], [Q1, dict(Q1, id=3), Q2, dict(Q2, dup=True), R]):
            for tp in ("", "a/b/c/d/e/f", "s/\u6e29\u5ea6/z\u00fcrich"):
                out.append({"id": "m%d" % i, "letters": seq, "handler": True, "slow": False, "topic": tp, "maxPayload": mx, "payloadLen": mx - 1})
                i += 1
                out.append({"id": "m%d" % i, "letters": seq, "handler": True, "slow": False, "topic": tp, "maxPayload": mx, "payloadLen": mx - 6})
                i += 1
    # messages without payload (what a broker sends when a retained message was cleared): two bytes after the topic of a
    # QoS 1/2 PUBLISH are the identifier and nothing is missing; every message of such a scenario has tag 0
    Q0 = {"p": "PUB", "q": 0, "id": 0, "dup": False}
    for seq in ([Q0], [Q1], [Q2, R], [Q0, Q1, Q2, R], [Q2, dict(Q2, dup=True), R], [Q1, Q1, Q2, R, R]):
        for tp in ("", "a", "s/\u6e29\u5ea6/z\u00fcrich"):
            for h in (True, False):
                out.append({"id": "z%d" % i, "letters": seq, "handler": h, "slow": False, "topic": tp, "emptyPayload": True})
                i += 1
    # identifiers a broker hands out after some hundred deliveries: both bytes of the identifier count in every
    # acknowledgement (the exhaustive sequences above use identifiers below 256)
    for a, b in ((256, 257), (300, 0x1234), (0xFFFF, 0xFF00), (0x0100, 0x0001)):
        for seq in ([dict(Q1, id=a)], [dict(Q2, id=b), dict(R, id=b)], [dict(Q1, id=a), dict(Q2, id=b), dict(Q1, id=a + 0 if a < 0xFFFF else 1), dict(Q2, id=b, dup=True), dict(R, id=b), dict(R, id=b)]):
            for h in (True, False):
                out.append({"id": "i%d" % i, "letters": seq, "handler": h, "slow": False})
                i += 1
    nrand = 3000 if tier == "quick" else 40000
    for j in range(nrand):
        ln = rng.randint(full + 1, 40 if j % 4 == 0 else 9)
        out.append({"id": "r%d" % j, "letters": [rng.choice(LETTERS) for _ in range(ln)], "handler": rng.random() < 0.8,
                    "slow": rng.random() < 0.15, "reply": rng.random() < 0.1,
                    "topic": rng.choice(["", "", "s/\u6e29\u5ea6/z\u00fcrich", "\u00e9", "a/b/c/d/e/f", "$SYS/x"])})
    return out, i


def run_real(binary, scs, batch=100):
    lines = []
    for bi, b in enumerate(vlib.chunks(scs, batch)):
        lines.append(json.dumps({"id": "b%d" % bi, "batch": b}))
    p = vlib.run_drive(binary, ["run", "serve", "-j", str(vlib.NCPU), "-c", "2", "-timeout", "120s"], stdin="\n".join(lines) + "\n", timeout=1500)
    if p.returncode != 0:
        raise vlib.Infra("serve driver failed: " + p.stderr[-2000:])
    res, crashes = [], []
    for line in p.stdout.splitlines():
        if not line.strip():
            continue
        r = json.loads(line)
        if "crash" in r:
            crashes.append(r)
        elif "infra" in r:
            raise vlib.Infra("serve driver: " + r["infra"])
        else:
            res.extend(r["batch"])
    return res, crashes


def validate(results, per=4000):
    bad = []
    states = 0

    def one(chunk):
        text = "\n".join(json.dumps(r, separators=(",", ":")) for r in chunk) + "\n"
        r = vlib.tlc("TraceServe", cfg="TraceServe.cfg", files={"serve_traces.ndjson": text}, workers=1, timeout=900, heap="3g")
        rep = r.printed("REPORT")
        if not rep:
            raise vlib.Infra("TraceServe failed:\n" + r.out[-3000:])
        return json.loads(vlib.parse_tla_value(rep[-1]))

    with ThreadPoolExecutor(max_workers=min(12, vlib.NCPU)) as ex:
        for rep in ex.map(one, list(vlib.chunks(results, per))):
            bad.extend(rep["bad"])
    return bad


def classify(r):
    """Which clause of the statement a nonconforming timeline breaks (witness kind)."""
    tl = r["tl"]
    if r.get("faulty"):
        return "consumed-but-not-handed-over"
    if r.get("err"):
        return "connection-ended"
    if any(e[0] == "close" for e in tl):
        return "connection-ended"
    # PUBACK before handler returned
    he = {e[1]: i for i, e in enumerate(tl) if e[0] == "hl"}
    for i, e in enumerate(tl):
        if e[0] == "out" and e[1] == "PUBACK":
            ins = [j for j in range(i) if tl[j][0] == "in" and tl[j][1] == "PUBLISH" and tl[j][4] == 1 and tl[j][2] == e[2]]
            if ins and r["handler"] and he.get(tl[ins[-1]][3], 10 ** 9) > i:
                return "puback-before-handler-return"
    nh = sum(1 for e in tl if e[0] == "he")
    exp = sum(1 for e in tl if e[0] == "in" and e[1] == "PUBLISH" and e[4] < 2)
    if r["handler"] and nh > exp + sum(1 for e in tl if e[0] == "in" and e[1] == "PUBREL"):
        return "extra-handover"
    return "timeline-nonconforming"


def run(tier):
    t0 = time.time()
    rng = random.Random(vlib.seed() * 104729 + 4)
    verd = vlib.Verdicts(PID)
    binary = vlib.build_harness()
    # model: exhaustive, with and without a handler; non-vacuity of the invariant
    mlen = 4 if tier == "quick" else 5
    mstates = mgen = 0
    for h in (True, False):
        r = vlib.tlc_ok(model(mlen, h), "Serve model handler=%s" % h)
        mstates += r.states
        mgen += r.generated
    bugs = {}
    for b in ("BugAckBeforeHandler", "BugDeliverOnPublish", "BugKeepAfterRelease", "BugCompBeforeHandover"):
        r = model(3, True, bug=b, timeout=300)
        bugs[b] = r.violated
        if r.violated != ("ImplHandsOver" if b == "BugCompBeforeHandover" else "ImplConforms"):
            raise vlib.Infra("non-vacuity: switch %s did not violate its invariant (%s)" % (b, r.violated))
    # real code
    scs, nexh = scenarios(tier, rng)
    byid = {s["id"]: s for s in scs}
    results, crashes = run_real(binary, scs)
    for c in crashes:
        verd.witness("panic", "", c["crash"][-400:], {"crash": c["crash"][-3000:]})
    bad = validate(results)
    resid = {r["id"]: r for r in results}
    for b in bad:
        r = resid[b]
        verd.witness(classify(r), "", "input %s handler=%s timeline %s" % (json.dumps(byid[b]["letters"]), r["handler"], json.dumps(r["tl"])[:500]),
                     {"scenario": byid[b], "result": r})
    distinct = len({json.dumps(r["tl"]) for r in results})
    # the same clauses on the connections of the retrying / reconnecting client (a new base client per connection, the
    # handler handed on by the retrying client): messages directly behind the CONNACK of every connection
    import retry_family as rf
    import retry_checks
    fam = rf.Family(PID)
    fam.verd = verd
    rsc = [dict(s_, id="c04r-" + s_["id"]) for s_ in retry_checks.c17_scenarios(rng, 8 if tier == "quick" else 200)]
    fam.execute(binary, rsc)
    rc = verd.finish()
    sample = results[len(results) // 2] if results else {}
    vlib.write_evidence(PID, tier, "model_checking", {
        "states": mstates, "transitions": mgen, "traces_validated_against_impl": len(results),
        "model": "Serve.tla: all input sequences of length <= %d over 12 letters, with and without handler" % mlen,
        "non_vacuity": bugs,
        "real_sequences_exhaustive_up_to_length": 3 if tier == "quick" else 5, "real_sequences_exhaustive": nexh,
        "real_sequences_random": len(scs) - nexh, "distinct_timelines": distinct,
        "evaluations": len(results) + fam.stats["traces_validated"], "distinct_nontrivial": distinct,
        "retry_client_traces": fam.stats["traces_validated"],
        "rule": "every packet sequence over the 12-letter alphabet up to the bound, with and without a handler (also a re-entrant one that publishes a QoS 0 reply through the client from inside Serve), plus seeded random sequences up to length 40; distinct = distinct recorded timelines",
        "samples": [{"input": byid.get(sample.get("id"), {}).get("letters"), "timeline": sample.get("tl")}],
        "exhaustive": True,
    }, time.time() - t0, ["the broker side sends well-formed packets only (malformed input is C06)",
                           "barrier: a PINGREQ/PINGRESP round trip after the sequence; the reader processes packets in order"],
        violations=len(verd.violations))
    print("C04: model %d states; %d real timelines (%d exhaustive, %d random) validated by TLC, %d nonconforming; %.0fs"
          % (mstates, len(results), nexh, len(scs) - nexh, len(bad), time.time() - t0))
    return rc


def replay(path):
    body = json.load(open(path))
    sc = body["replay"]["scenario"]
    binary = vlib.build_harness()
    results, crashes = run_real(binary, [sc])
    bad = validate(results)
    verd = vlib.Verdicts(PID)
    for b in bad:
        verd.witness(classify(results[0]), "", json.dumps(results[0]["tl"])[:500], {"scenario": sc, "result": results[0]})
    return verd.finish()
