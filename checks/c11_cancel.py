"""C11 -- every blocking call returns when its context is cancelled or the connection ends.

spec/Blocking.tla: the calls with their waiting locations (lock acquisition, wait for the own
acknowledgement, wait for PUBCOMP, wait for CONNACK) and the causes (context cancelled / expired, local
Close, peer close, malformed packet); TLC checks the leads-to properties under fairness, refutes them
for a select without the connClosed arm, and for the lock acquisition that ignores the context (the
code as it is: finding F13); the module also emits the (kind, location, cause) case list.  Each case
(and pairs of simultaneously blocked calls) is steered on the real client by withholding the packet
the call waits for; TLC checks the observations (spec/TraceBlocking.tla)."""
import json
import os
import random
import sys
import time

sys.path.insert(0, os.path.join(os.path.dirname(os.path.abspath(__file__)), "..", "lib"))
import vlib  # noqa: E402

PID = "C11"


def model():
    mcm = '---- MODULE MCB ----\nEXTENDS Blocking\nCS == [a |-> "pub2", b |-> "sub", d |-> "disconnect"]\nCP == [a |-> "pub1", b |-> "ping"]\n====\n'
    base = ("SPECIFICATION Spec\nCONSTANTS\n Calls <- %s\n ConnectInFlight = %s\n BugLockIgnoresCtx = %s\n BugNoConnClosedArm = %s\n BugCloseNoopAfterDisc = %s\nCHECK_DEADLOCK FALSE\n"
            "INVARIANTS CtxErrorReported DoneOnlyIfEnded CloseEnds\nPROPERTIES CancelledReturns ClosedReturnsAll ConnectReturns ReaderExits\n")
    states = gen = 0
    cases = None
    for calls in ("CS", "CP"):
        for inflight in ("TRUE", "FALSE"):
            r = vlib.tlc_ok(vlib.tlc("MCB", cfg="MCB.cfg", files={"MCB.tla": mcm, "MCB.cfg": base % (calls, inflight, "FALSE", "FALSE", "FALSE")}, workers=4, timeout=300), "Blocking model")
            states += r.states
            gen += r.generated
            cases = cases or vlib.ndjson_read(os.path.join(r.dir, "blocking_cases.ndjson"))
    nv = {}
    for bug, args in (("BugLockIgnoresCtx(F13, the code as it is)", ("CS", "TRUE", "TRUE", "FALSE", "FALSE")), ("BugNoConnClosedArm", ("CS", "FALSE", "FALSE", "TRUE", "FALSE")),
                      ("BugCloseNoopAfterDisc", ("CS", "FALSE", "FALSE", "FALSE", "TRUE"))):
        rb = vlib.tlc("MCB", cfg="MCB.cfg", files={"MCB.tla": mcm, "MCB.cfg": base % args}, workers=1, timeout=300)
        if not rb.violated:
            raise vlib.Infra("non-vacuity: %s not refuted" % bug)
        nv[bug] = rb.violated
    return states, gen, cases, nv


def run(tier):
    t0 = time.time()
    rng = random.Random(vlib.seed())
    verd = vlib.Verdicts(PID)
    binary = vlib.build_harness()
    states, gen, cases, nv = model()
    cases.sort(key=lambda c: (c["k"], c["l"], c["cause"]))
    scs = []
    reps = 1 if tier == "quick" else 12
    for rep in range(reps):
        for i, c in enumerate(cases):
            scs.append(dict(c, id="c%d-%d" % (i, rep), also=""))
        # pairs of calls blocked at once, ended by every closing cause
        j = 0
        for k in ("pub1", "pub2", "sub", "unsub", "ping"):
            for also in ("pub1", "sub", "ping", "pub2"):
                for cause in ("localClose", "peerClose", "malformed", "ctxCancel"):
                    scs.append({"id": "p%d-%d" % (j, rep), "k": k, "l": "waitAck", "cause": cause, "also": also,
                                "cls": "canceled" if cause == "ctxCancel" else "error", "done": cause != "ctxCancel"})
                    j += 1
        # Disconnect itself while another request waits for its acknowledgement: it returns, the connection ends
        for also in ("pub1", "pub2", "sub", "unsub", "ping"):
            for cause in ("ctxDeadline", "ctxCancel"):
                scs.append({"id": "d%d-%d" % (j, rep), "k": "disconnect", "l": "otherInFlight", "cause": "none", "also": also, "cls": "any", "done": True})
                j += 1
    inp = "\n".join(json.dumps(s) for s in scs) + "\n"
    # one case at a time per process: the goroutine census is process-wide
    p = vlib.run_drive(binary, ["run", "blocking", "-j", str(vlib.NCPU), "-c", "1", "-timeout", "60s"], stdin=inp, timeout=1500)
    if p.returncode != 0:
        raise vlib.Infra("blocking driver failed: " + p.stderr[-2000:])
    results = [json.loads(l) for l in p.stdout.splitlines() if l.strip()]
    byid = {s["id"]: s for s in scs}
    ok = []
    for r in results:
        if "crash" in r:
            verd.witness("panic", "", r["crash"][-300:], {"scenario": byid[r["id"]], "crash": r["crash"][-3000:]})
        elif "infra" in r:
            raise vlib.Infra(r["infra"])
        else:
            ok.append(r)
    text = "\n".join(json.dumps(r, separators=(",", ":")) for r in ok) + "\n"
    tr = vlib.tlc("TraceBlocking", cfg="TB.cfg", files={"blocking_runs.ndjson": text, "TB.cfg": ""}, workers=1, timeout=600)
    rep = tr.printed("REPORT")
    if not rep:
        raise vlib.Infra("TraceBlocking failed:\n" + tr.out[-3000:])
    rep = json.loads(vlib.parse_tla_value(rep[-1]))
    if len(rep["unsteered"]) > max(2, len(ok) // 20):
        raise vlib.Infra("%d cases could not be steered to their waiting location, e.g. %s" % (len(rep["unsteered"]), rep["unsteered"][:3]))
    resid = {r["id"]: r for r in ok}
    for b in rep["bad"]:
        r = resid[b["id"]]
        for f in b["f"]:
            wh = "%s@%s/%s" % (r["k"], r["l"], r["cause"]) if f != "no-return" else "%s/%s" % (r["l"], "ctx" if r["cause"].startswith("ctx") else r["cause"])
            is_known = any(k["kind"] == f and k.get("where") == wh for k in verd.known)
            if f in ("no-return", "wrong-error") and not is_known:
                # timing observer: must reproduce twice more
                again = 0
                for a in range(2):
                    p2 = vlib.run_drive(binary, ["run", "blocking", "-j", "1", "-c", "1"], stdin=json.dumps(dict(byid[b["id"]], id="again")) + "\n", timeout=120)
                    r2 = json.loads(p2.stdout.splitlines()[0]) if p2.stdout.strip() else {}
                    again += (not r2.get("returned", True)) if f == "no-return" else (r2.get("res") == r["res"])
                if again < 2:
                    continue
            verd.witness(f, "%s@%s/%s" % (r["k"], r["l"], r["cause"]) if f != "no-return" else "%s/%s" % (r["l"], "ctx" if r["cause"].startswith("ctx") else r["cause"]),
                         ("after broker traffic '%s': " % r["pre"] if r.get("pre") else "") + "%s at %s, cause %s: returned=%s res=%s after %d ms, done closed=%s, library goroutines left=%d%s"
                         % (r["k"], r["l"], r["cause"], r["returned"], r["res"], r["dt_ms"], r["doneclosed"], r["leak"], (" also=%s ret=%s" % (r["also"], r["alsoret"])) if r["also"] else ""),
                         {"scenario": byid[b["id"]], "result": r})
    rc = verd.finish()
    distinct = len({(r["k"], r["l"], r["cause"], r["also"], r.get("pre", "")) for r in ok if r["steered"]})
    vlib.write_evidence(PID, tier, "model_checking", {
        "states": states, "transitions": gen, "traces_validated_against_impl": len(ok), "non_vacuity": nv,
        "cases_from_model": len(cases), "pair_cases": len(scs) // reps - len(cases), "unsteered": len(rep["unsteered"]),
        "evaluations": len(ok), "distinct_nontrivial": distinct,
        "rule": "every (request kind, waiting location, cause) of Blocking.tla x benign broker traffic before the call (unsolicited PINGRESP / foreign acknowledgements / inbound message / repeated CONNACKs) + pairs of simultaneously blocked calls x closing causes; distinct = distinct steered (kind, location, cause, second call)",
        "samples": [ok[0], ok[len(ok) // 2]] if ok else [], "exhaustive": True,
    }, time.time() - t0, ["A4: Transport.Write and Transport.Close return", "'promptly' = within 2 s; a missing return must reproduce on two re-runs",
                           "steering withholds the broker packet the call waits for; the goroutine census is taken with one case per process at a time"],
        violations=len(verd.violations))
    print("C11: Blocking model %d states; %d cases steered on the real client (%d not steered), %d nonconforming; %.0fs"
          % (states, len(ok), len(rep["unsteered"]), len(rep["bad"]), time.time() - t0))
    return rc
