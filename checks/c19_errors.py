"""C19 - returned errors keep their cause inspectable and their retry handle.

Oracle and generator: spec/ErrChain.tla (error chains x targets -> demanded answer of errors.Is /
errors.As / identity, three-valued: T, F, E = statement silent) and spec/RetryHandle.tla (request
kind x failure steps -> what each attempt's error and each connection's packets must look like).
TLC checks the lemmas of both modules and dumps the tables; harness/cmd/drive/errchain.go builds
every chain with the library's real wrappers / runs every interrupted request on real BaseClients
over netsim and reports raw observations; this module compares.

Witness kinds
  C19_IsMissesCause        errors.Is answers false where the statement demands true
  C19_IsReportsAbsent      errors.Is answers true for a target that is not in the chain
  C19_PassThrough          io.EOF / nil not handed through a library wrapper unchanged
  C19_AsMisses / C19_AsReportsAbsent / C19_AsWrongElement
  C19_RetryHandleLost / C19_UnexpectedRetryHandle / C19_RetryHandleWrongFunction   (chain half)
  C19_NotRetryable / C19_QoS0Retryable / C19_RetryCauseLost / C19_RetryReissue /
  C19_RetryFailed / C19_InterruptionNotReported / C19_RetryStalled                  (request half)
  C19_Panic                a panic inside errors.Is/As on a chain of the quantified space
"""
import concurrent.futures
import json
import os
import random
import time

import vlib

PID = "C19"

ASSUMPTIONS = [
    "chain space: wrappers {wrapError, wrapErrorf, wrapErrorWithRetry, fmt %w, *ConnectionError, foreign *struct with "
    "Err field and no Unwrap, foreign opaque *struct} in every order up to the tier's depth, *RequestTimeoutError only "
    "innermost (it can only be made by library code: real elements come from a RetryClient with ResponseTimeout over netsim)",
    "bases: the 14 exported sentinels, io.EOF, context.Canceled, context.DeadlineExceeded, a fresh errors.New; sentinels "
    "are compared by identity only, so deep chains may use the representative subset named in the spec",
    "statement silent (either answer accepted): looking through a foreign error with an Err field but no Unwrap; "
    "context.DeadlineExceeded behind a RequestTimeoutError; errors.As(*mqtt.Error) reaching the Error embedded in an errorWithRetry",
    "demanded beyond the letter of Go's errors package: none; a target below an opaque foreign error counts as not in the chain",
    "A1/A2 (netsim): a failing Transport.Write delivers nothing, a succeeding one delivers the whole packet; "
    "failure steps: writeFails = Write error, ackLost = connection dies after the broker processed the packet, "
    "ctxCancel = acknowledgement withheld and the attempt's context cancelled, connGone = the client's connection had already ended",
    "foreign error types outside the statement's quantifier (pointer to non-struct, typed nil pointer, uncomparable "
    "value types) are probed and reported under coverage.observations, never as violations",
]

TIERS = {
    # MaxDepth, FullBaseDepth, MaxFails
    "quick": (3, 2, 2),
    "thorough": (4, 4, 3),
}


# --------------------------------------------------------------------------------------
# TLC
# --------------------------------------------------------------------------------------
def gen_chain_tables(tier):
    depth, fullbase, _ = TIERS[tier]
    cfg = "CONSTANTS\n  MaxDepth = %d\n  FullBaseDepth = %d\n" % (depth, fullbase)
    r = vlib.tlc("ErrChain", cfg="ErrChain_run.cfg", files={"ErrChain_run.cfg": cfg}, workers=2, heap="4g", timeout=400)
    vlib.tlc_ok(r, "ErrChain depth %d" % depth)
    counts = vlib.parse_tla_value(r.printed("COUNTS")[0]) if r.printed("COUNTS") else {}
    chains = vlib.ndjson_read(os.path.join(r.dir, "chains.ndjson"))
    nils = vlib.ndjson_read(os.path.join(r.dir, "nilchains.ndjson"))
    sources = vlib.ndjson_read(os.path.join(r.dir, "sources.ndjson"))
    if counts and counts.get("chains") != len(chains):
        raise vlib.Infra("ErrChain dump incomplete: %s rows, TLC counted %s" % (len(chains), counts.get("chains")))
    return chains, nils, sources, r.wall


def gen_retry_table(tier):
    _, _, maxfails = TIERS[tier]
    cfg = "CONSTANTS\n  MaxFails = %d\n" % maxfails
    r = vlib.tlc("RetryHandle", cfg="RetryHandle_run.cfg", files={"RetryHandle_run.cfg": cfg}, workers=1, timeout=200)
    vlib.tlc_ok(r, "RetryHandle MaxFails %d" % maxfails)
    rows = vlib.ndjson_read(os.path.join(r.dir, "retry.ndjson"))
    return rows, r.wall


# --------------------------------------------------------------------------------------
# comparison: chain half
# --------------------------------------------------------------------------------------
def chain_where(exp):
    if "reqtimeout" in exp["ws"]:
        return "reqtimeout/" + exp["base"]
    return "library-chain"


def cmp_is_as(exp, obs, where, ctx, out, stats):
    """Compare the errors.Is / errors.As / retry-interface observations of one error value.
    out: list of (kind, where, detail); returns number of comparisons."""
    n = 0
    if obs.get("panic"):
        out.append(("C19_Panic", where, "panic while observing %s: %s" % (ctx, obs["panic"])))
        return 1
    for t, e in exp["is"].items():
        o = obs["is"].get(t)
        n += 1
        if isinstance(o, str):
            out.append(("C19_Panic", where, "errors.Is(%s, %s): %s" % (ctx, t, o)))
            continue
        if o is None:
            raise vlib.Infra("driver did not report errors.Is for target %s on %s" % (t, ctx))
        if e == "T" and not o:
            out.append(("C19_IsMissesCause", where, "errors.Is(%s, %s) = false, the statement demands true" % (ctx, t)))
        elif e == "F" and o:
            w2 = "hidden-below-opaque" if t == exp["base"] else "absent"
            out.append(("C19_IsReportsAbsent", w2, "errors.Is(%s, %s) = true, %s is not in the chain" % (ctx, t, t)))
        elif e == "E":
            stats["silent_rows"] += 1
            stats["silent_true"] += 1 if o else 0
            if "impl" in exp and "reqtimeout" not in exp["ws"]:
                stats["silent_cmp_documented"] += 1
                stats["silent_match_documented"] += 1 if (o == (t in exp["impl"])) else 0
    for ty, e in exp["as"].items():
        o = obs["as"].get(ty)
        if o is None:
            raise vlib.Infra("driver did not report errors.As for %s on %s" % (ty, ctx))
        n += 1
        if e == "T" and not o["ok"]:
            out.append(("C19_AsMisses", ty, "errors.As(%s, *%s) = false although the chain contains one behind transparent wrappers" % (ctx, ty)))
        elif e == "F" and o["ok"]:
            out.append(("C19_AsReportsAbsent", ty, "errors.As(%s, *%s) = true although the chain contains none" % (ctx, ty)))
        elif e == "T" and "asp" in exp and o["idx"] not in exp["asp"][ty]:
            out.append(("C19_AsWrongElement", ty, "errors.As(%s, *%s) delivered element %s, the chain's %s elements are %s" % (ctx, ty, o["idx"], ty, exp["asp"][ty])))
    e = exp["retryIfc"]
    n += 1
    if e == "T" and not obs["retryIfc"]:
        out.append(("C19_RetryHandleLost", where, "%s does not implement ErrorWithRetry although its outermost wrapper is wrapErrorWithRetry" % ctx))
    elif e == "F" and obs["retryIfc"]:
        out.append(("C19_UnexpectedRetryHandle", where, "%s implements ErrorWithRetry although no retry function was attached to its outermost wrapper" % ctx))
    return n


def cmp_chain(exp, obs, stats):
    """exp: row of chains.ndjson, obs: driver observation.  Returns (witnesses, comparisons)."""
    out = []
    ctx = "[%s] over %s" % (" > ".join(exp["ws"]) or "bare", exp["base"])
    where = chain_where(exp)
    if obs.get("nil"):
        out.append(("C19_PassThrough", "nil", "chain %s is nil" % ctx))
        return out, 1
    n = cmp_is_as(exp, obs, where, ctx, out, stats)
    # identity: io.EOF handed through library wrappers unchanged, and only through them
    n += 1
    if exp["outerEOF"] != obs["outerEOF"]:
        out.append(("C19_PassThrough", "eof", "%s: err == io.EOF is %s, expected %s" % (ctx, obs["outerEOF"], exp["outerEOF"])))
    for i, (pe, po) in enumerate(zip(exp["pass"], obs.get("pass") or [])):
        n += 1
        if pe != po:
            out.append(("C19_PassThrough", exp["ws"][i] + "/" + exp["base"],
                        "%s: wrapper %d (%s) %s its argument unchanged, expected %s" % (
                            ctx, i + 1, exp["ws"][i], "returned" if po else "did not return", "identity" if pe else "a new wrapper")))
    # errors.Is(chain, element i): only the elements that exist after pass-through
    for i in range(exp["efflen"]):
        e, o = exp["eis"][i], obs["eis"][i]
        n += 1
        if isinstance(o, str):
            out.append(("C19_Panic", where, "errors.Is(%s, element %d): %s" % (ctx, i + 1, o)))
        elif e == "T" and not o:
            out.append(("C19_IsMissesCause", where, "errors.Is(%s, its own element %d) = false" % (ctx, i + 1)))
        elif e == "F" and o:
            out.append(("C19_IsReportsAbsent", "hidden-element", "errors.Is(%s, element %d hidden below an opaque error) = true" % (ctx, i + 1)))
    if exp["retryIfc"] == "T" and obs["retryIfc"]:
        n += 1
        if obs["retryHit"] != 1 or not obs["retryRet"]:
            out.append(("C19_RetryHandleWrongFunction", where, "%s: Retry ran the function of element %s (expected 1) / returned its value: %s" % (
                ctx, obs["retryHit"], obs["retryRet"])))
    return out, n


# --------------------------------------------------------------------------------------
# comparison: request half
# --------------------------------------------------------------------------------------
QOS = {"pub0": 0, "pub1": 1, "pub2": 2}


def cmp_retry(exp, res):
    """exp: row of retry.ndjson, res: driver result.  Returns (witnesses, comparisons, stalled)."""
    out = []
    n = 0
    kind = exp["kind"]
    label = "%s[%s]" % (kind, ",".join("%s@%s" % (s, st) for s, st in zip(exp["steps"], exp["stages"])))
    res["writes"] = res.get("writes") or []
    res["errs"] = res.get("errs") or []
    stalled = any(e.get("safetyTimeout") for e in res["errs"])
    if res.get("infra") and not stalled:
        # (an attempt that stalled until the driver's 4 s safety timeout also makes the following dial fail: that is the
        # stall's consequence, reported below, not a driver problem)
        raise vlib.Infra("retry scenario %s: %s" % (label, res["infra"]))
    if stalled:
        return [("C19_RetryStalled", label, "an attempt did not return within the 4 s safety timeout: %s" % json.dumps(res["errs"]))], 1, True
    for e in res["errs"]:
        if e.get("panic"):
            out.append(("C19_Panic", label, e["panic"]))
    ended = False
    for a, ee in enumerate(exp["errs"], start=1):
        if a > len(res["errs"]):
            ended = True
            break
        oe = res["errs"][a - 1]
        step = exp["steps"][a - 1] if a <= len(exp["steps"]) else None
        at = "%s attempt %d (%s at %s)" % (kind, a, step, exp["stages"][a - 1]) if step else "%s attempt %d (undisturbed)" % (kind, a)
        n += 1
        if ee["err"]:
            if oe["nil"]:
                out.append(("C19_InterruptionNotReported", "%s/%s/%s" % (kind, exp["stages"][a - 1], step), "%s returned nil" % at))
                continue
            n += 2
            if ee["retryable"] and not oe["retryIfc"]:
                out.append(("C19_NotRetryable", "%s/%s/%s" % (kind, exp["stages"][a - 1], step),
                            "%s: error %r does not implement ErrorWithRetry" % (at, oe["text"])))
            if not ee["retryable"] and oe["retryIfc"]:
                out.append(("C19_QoS0Retryable", "%s/%s" % (kind, step), "%s: error %r implements ErrorWithRetry" % (at, oe["text"])))
            ok = {"transportErr": oe["isTransportErr"], "ErrClosedTransport": oe["isClosedTransport"],
                  "ctxErr": oe["isCtxErr"] and oe["isCanceled"],
                  "connEnded": oe["isTransportErr"] or oe["isClosedTransport"]}[ee["cause"]]
            if not ok:
                out.append(("C19_RetryCauseLost", "%s/%s" % (exp["stages"][a - 1], step),
                            "%s: errors.Is does not find the cause %s in %r" % (at, ee["cause"], oe["text"])))
        else:
            if not oe["nil"]:
                out.append(("C19_RetryFailed", "%s/%s" % (kind, exp["stages"][a - 2] if a >= 2 else "-"),
                            "%s on a healthy client returned %r" % (at, oe["text"])))
    # packets per connection
    req = res["req"]
    by_g = {}
    for w in res["writes"]:
        if w.get("o") == "closed":
            continue    # attempted on a connection that had already ended: nothing reached the broker
        by_g.setdefault(w["g"], []).append(w)
    first_id = None
    for w in res["writes"]:
        if w["p"] == "PUBLISH":
            first_id = w["id"]
            break
    for a, pk in enumerate(exp["conns"], start=1):
        if ended and a > len(res["errs"]):
            break
        got = by_g.pop(a, [])
        n += 1
        where = "%s/%s" % (kind, exp["stages"][a - 2] if a >= 2 else "first")
        eseq = [(p["p"], p["dup"]) for p in pk]
        gseq = [(w["p"], bool(w["dup"])) for w in got]
        if eseq != gseq:
            what = "Retry on client %d" % a if a > 1 else "the request on client 1"
            out.append(("C19_RetryReissue", where, "%s: %s wrote %s, the interrupted request demands %s" % (label, what, gseq, eseq)))
            continue
        for p, w in zip(pk, got):
            n += 1
            bad = []
            if w.get("bad"):
                bad.append("malformed: %s" % w["bad"])
            if w["p"] == "PUBLISH":
                if w["topic"] != req["topic"]:
                    bad.append("topic %r" % w["topic"])
                if w["qos"] != QOS[kind]:
                    bad.append("qos %s" % w["qos"])
                if w["tag"] != req["tag"] or ("payload" in w and w["payload"] != req["payload"]):
                    bad.append("payload %s" % w.get("payload", w["tag"]))
                if w["retain"]:
                    bad.append("retain set")
            if p["sameId"] and w["id"] != first_id:
                bad.append("packet id %s, original %s" % (w["id"], first_id))
            if w["p"] == "SUBSCRIBE":
                if w["fs"] != [s["f"] for s in req["subs"]] or w["qs"] != [s["q"] for s in req["subs"]]:
                    bad.append("filters %s %s" % (w["fs"], w["qs"]))
            if w["p"] == "UNSUBSCRIBE" and w["fs"] != req["unsubs"]:
                bad.append("filters %s" % w["fs"])
            if bad:
                out.append(("C19_RetryReissue", where, "%s: %s on client %d is not the same request: %s" % (label, w["p"], a, "; ".join(bad))))
    if by_g and not ended:
        out.append(("C19_RetryReissue", kind + "/extra", "%s: packets on clients that were given no request: %s" % (
            label, {g: [w["p"] for w in ws] for g, ws in by_g.items()})))
    return out, n, False


def retry_scenario(i, exp):
    return {"id": "retry-%04d" % i, "mode": "retry", "kind": exp["kind"], "steps": exp["steps"], "faults": exp["faults"]}


# --------------------------------------------------------------------------------------
def drive(binary, scenarios, conc=2):
    d = vlib.scratch("verif-c19-")
    inp = os.path.join(d, "scenarios.ndjson")
    vlib.ndjson_write(inp, scenarios)
    p = vlib.run_drive(binary, ["run", "errchain", "-j", str(max(2, min(vlib.NCPU, 8))), "-c", str(conc)], stdin=open(inp).read(), timeout=400)
    if p.returncode != 0:
        raise vlib.Infra("driver failed: rc=%s %s" % (p.returncode, p.stderr[-2000:]))
    res = {}
    for line in p.stdout.splitlines():
        if line.strip():
            r = json.loads(line)
            res[r["id"]] = r
    missing = [s["id"] for s in scenarios if s["id"] not in res]
    if missing:
        raise vlib.Infra("driver returned no result for %s" % missing[:5])
    return res


def run(tier):
    t0 = time.time()
    if tier not in TIERS:
        tier = "quick"
    rng = random.Random(vlib.seed())
    with concurrent.futures.ThreadPoolExecutor(max_workers=3) as ex:
        fb = ex.submit(vlib.build_harness)
        fc = ex.submit(gen_chain_tables, tier)
        fr = ex.submit(gen_retry_table, tier)
        binary = fb.result()
        chains, nils, sources, tlc1 = fc.result()
        retry_rows, tlc2 = fr.result()

    v = vlib.Verdicts(PID)
    targets = sorted(chains[0]["is"].keys())

    # ---- scenarios -------------------------------------------------------------------
    # the enumeration is exhaustive; the seed only decides the order / batch composition
    order = list(range(len(chains)))
    rng.shuffle(order)
    scenarios = []
    exp_of = {}
    batch = 300
    for bi, chunk in enumerate(vlib.chunks(order, batch)):
        rows = []
        for ci in chunk:
            cid = "c%06d" % ci
            exp_of[cid] = chains[ci]
            rows.append({"id": cid, "ws": chains[ci]["ws"], "base": chains[ci]["base"]})
        scenarios.append({"id": "chains-%04d" % bi, "mode": "chains", "targets": targets, "rows": rows})
    nil_rows = []
    for ni, nrow in enumerate(nils):
        nid = "n%04d" % ni
        exp_of[nid] = nrow
        nil_rows.append({"id": nid, "ws": nrow["ws"], "base": "nil"})
    scenarios.append({"id": "chains-nil", "mode": "chains", "targets": [], "rows": nil_rows})
    for s in sources:
        scenarios.append({"id": "timeout-" + s["source"], "mode": "timeout", "source": s["source"], "targets": targets})
    retry_order = list(range(len(retry_rows)))
    rng.shuffle(retry_order)
    for i in retry_order:
        scenarios.append(retry_scenario(i, retry_rows[i]))
    probes = ["ptrToNonStruct", "uncomparableValue", "typedNilPointer"]
    for p in probes:
        scenarios.append({"id": "probe-" + p, "mode": "probe", "probe": p})
    scenarios.append({"id": "probe-eofOnWrite", "mode": "retry", "kind": "pub1", "steps": ["writeFails"],
                      "faults": [{"p": "PUBLISH", "n": 1, "o": "cutBefore"}], "eofOnWrite": True})

    res = drive(binary, scenarios)
    crashes = [r for r in res.values() if "crash" in r]
    for r in crashes:
        sc = next(s for s in scenarios if s["id"] == r["id"])
        if sc["mode"] == "probe":
            continue
        v.witness("C19_Panic", sc["mode"], "the driver process crashed: %s" % r["crash"][-600:], {"scenario": sc})

    stats = {"silent_rows": 0, "silent_true": 0, "silent_cmp_documented": 0, "silent_match_documented": 0}
    evaluations = 0
    nontrivial = set()
    compared_chains = 0
    skipped = {}
    samples_src, samples_chain, samples_retry = [], [], []
    infra_notes = []   # trouble that prevents part of the comparison; exit 2 unless a violation was established anyway
    # ---- compare: real RequestTimeoutError sources (first: a real source is the better representative
    #      witness than one of the synthetic chains built around its element) --------------------------
    source_ok = {}
    for s in sources:
        r = res["timeout-" + s["source"]]
        if "crash" in r:
            continue
        if r.get("infra"):
            infra_notes.append("timeout source %s: %s" % (s["source"], r["infra"]))
            continue
        out = []
        ctx = "error of %s" % s["source"]
        evaluations += cmp_is_as(s, r["obs"], "reqtimeout/" + s["base"], ctx, out, stats)
        source_ok[s["source"]] = not out
        nontrivial.add((tuple(s["ws"]), s["base"], s["source"]))
        for kind, where, detail in out:
            v.witness(kind, where, detail + " [%s]" % r["obs"].get("text", ""),
                      {"scenario": {"id": "replay", "mode": "timeout", "source": s["source"], "targets": targets}, "expected": s, "observed": r["obs"]})
        if len(samples_src) < 2 or not source_ok[s["source"]]:
            samples_src.append({"source": s["source"], "text": r["obs"].get("text"), "shape": r["obs"].get("shape"),
                            "as_RequestTimeoutError": r["obs"]["as"]["RequestTimeoutError"]["ok"],
                            "is_deadline": r["obs"]["is"].get("deadline"), "is_canceled": r["obs"]["is"].get("canceled")})
    # ---- compare: chains -------------------------------------------------------------
    for sc in scenarios:
        if sc["mode"] != "chains" or "crash" in res[sc["id"]]:
            continue
        r = res[sc["id"]]
        if r.get("infra"):
            raise vlib.Infra("driver: %s" % r["infra"])
        for obs in r["rows"]:
            exp = exp_of[obs["id"]]
            if obs.get("skip"):
                skipped.setdefault(exp["base"] if "reqtimeout" in exp["ws"] else "other", []).append(obs["skip"])
                continue
            if exp["base"] == "nil":
                evaluations += 1 + len(exp["pass"])
                compared_chains += 1
                if len(exp["ws"]) >= 2:
                    nontrivial.add((tuple(exp["ws"]), "nil"))
                if not obs["nil"] or obs["pass"] != exp["pass"]:
                    v.witness("C19_PassThrough", "nil", "[%s] over nil is not nil (pass-through per wrapper: %s)" % (" > ".join(exp["ws"]), obs["pass"]),
                              {"scenario": {"id": "replay", "mode": "chains", "targets": [], "rows": [{"id": obs["id"], "ws": exp["ws"], "base": "nil"}]},
                               "expected": exp})
                continue
            wit, n = cmp_chain(exp, obs, stats)
            evaluations += n
            compared_chains += 1
            if exp["nontrivial"]:
                nontrivial.add((tuple(exp["ws"]), exp["base"]))
            for kind, where, detail in wit:
                v.witness(kind, where, detail,
                          {"scenario": {"id": "replay", "mode": "chains", "targets": targets,
                                        "rows": [{"id": obs["id"], "ws": exp["ws"], "base": exp["base"]}]},
                           "expected": exp, "observed": obs})
            if len(samples_chain) < 3 and exp["nontrivial"] and "foreignErr" in exp["ws"] and exp["base"] in exp["is"] and exp["is"][exp["base"]] != "F":
                samples_chain.append({"chain": exp["ws"], "base": exp["base"],
                                "expected_is_base": exp["is"][exp["base"]], "observed_is_base": obs["is"][exp["base"]],
                                "expected_as": exp["as"], "observed_as": {k: a["ok"] for k, a in obs["as"].items()}})

    if skipped.get("deadline") and source_ok.get("ping/timeout", True):
        infra_notes.append("no real *RequestTimeoutError element although the ping/timeout source passed: %s" % skipped["deadline"][0])
    if skipped.get("other"):
        infra_notes.append("driver skipped chains: %s" % skipped["other"][0])

    # ---- compare: ErrorWithRetry half ------------------------------------------------
    retry_cmp = 0
    retry_seen = set()
    for i in retry_order:
        exp = retry_rows[i]
        sc = retry_scenario(i, exp)
        r = res[sc["id"]]
        if "crash" in r:
            continue
        wit, n, stalled = cmp_retry(exp, r)
        if stalled:
            # re-run rule: a stall may be machine load; a second solitary run decides
            r = drive(binary, [sc], conc=1)[sc["id"]]
            if "crash" in r:
                v.witness("C19_Panic", "retry", r["crash"][-600:], {"scenario": sc})
                continue
            wit, n, stalled = cmp_retry(exp, r)
        retry_cmp += n
        retry_seen.add((exp["kind"], tuple(exp["steps"]), tuple(exp["stages"])))
        for kind, where, detail in wit:
            v.witness(kind, where, detail, {"scenario": sc, "expected": exp, "observed": r})
        if len(samples_retry) < 2 and exp["kind"] == "pub2" and len(exp["steps"]) >= 2:
            samples_retry.append({"retry_scenario": {"kind": exp["kind"], "steps": exp["steps"], "stages": exp["stages"]},
                            "expected_conns": [[(p["p"], p["dup"]) for p in c] for c in exp["conns"]],
                            "observed_writes": [(w["g"], w["p"], w["dup"], w["id"]) for w in r["writes"]],
                            "errors": [e["text"] for e in r["errs"] if not e["nil"]]})
    evaluations += retry_cmp

    # ---- informational probes --------------------------------------------------------
    observations = {}
    for p in probes:
        r = res["probe-" + p]
        observations["foreign_" + p] = {k: r.get(k) for k in ("plain", "wrapped", "wrappedTwice", "crash") if k in r}
    r = res["probe-eofOnWrite"]
    if "crash" not in r and r.get("errs"):
        e = r["errs"][0]
        observations["qos1_publish_write_fails_with_io.EOF"] = {"error_is_io.EOF_itself": e["isEOFIdentity"], "implements_ErrorWithRetry": e["retryIfc"]}
    observations["silent_rows"] = stats["silent_rows"]
    observations["silent_rows_answered_true"] = stats["silent_true"]
    observations["silent_rows_matching_documented_lookthrough"] = "%d/%d" % (stats["silent_match_documented"], stats["silent_cmp_documented"])
    if skipped.get("canceled"):
        observations["reqtimeout_over_canceled_chains_skipped"] = len(skipped["canceled"])

    if infra_notes and not v.violations:
        raise vlib.Infra("; ".join(infra_notes))
    for note in infra_notes:
        print("NOTE: part of the comparison was impossible: %s" % note)
    if stats["silent_match_documented"] != stats["silent_cmp_documented"]:
        print("NOTE (no verdict): %d of %d rows on which the statement is silent differ from the documented look-through "
              "of Error.Is (errors without Unwrap but with an Err field)" % (
                  stats["silent_cmp_documented"] - stats["silent_match_documented"], stats["silent_cmp_documented"]))
    # "an expired response timeout of the retrying client is identifiable as RequestTimeoutError": first transmissions,
    # deferred first transmissions and retransmissions of every request kind on the real retrying client
    import retry_family as rf
    fam = rf.Family(PID)
    fam.verd = v
    P, S, U = rf.PUB, rf.SUB, rf.UNSUB
    rsc = []
    o2 = {"respTimeoutMs": 40, "connTimeoutMs": 80}
    for w in ([P(1)], [P(2)], [S(("x", 1))], [U("x")], [P(1), P(2)], [S(("x", 1)), P(1)]):
        for k in range(2, 6):
            for o in ("dropReq", "dropAck"):
                rsc.append(rf.scenario("rt-%d" % len(rsc), w, ["conn"] * len(w), [{"k": k, "o": o}], opts=dict(o2)))
                rsc.append(rf.scenario("rt-%d" % len(rsc), w, ["conn"] * len(w), [{"k": 2, "o": "cutAfter"}, {"k": k + 2, "o": o}], opts=dict(o2)))
                rsc.append(rf.scenario("rt-%d" % len(rsc), w, ["conn"] * len(w), [{"k": 2, "o": o}, {"k": 4, "o": o}, {"k": 6, "o": o}], opts=dict(o2)))
    # "a cancelled caller context's error" through the reconnecting client's Connect: the context is cancelled while the
    # loop is failing to establish the first connection -- after dial errors, refused CONNACKs, silent brokers, cut CONNECTs
    oc = {"reconnBaseMs": 2, "reconnMaxMs": 5, "noReestablish": True}
    for k in (2, 3, 4):
        for plan in ({"connacks": [{"code": 5}] * 8}, {"connacks": [{"code": 2}, {"silent": True}] * 4}, {"dials": ["fail"] * 8},
                     {"dials": ["ok", "fail"] * 4, "connacks": [{"code": 4}] * 8}):
            sc_ = rf.scenario("cc-%d" % len(rsc), [], [], [], opts=dict(oc), **plan)
            sc_["reqs"] += [{"k": "cancelconnect", "at": "dial:%d" % k}, {"k": "sleep", "ms": 20, "at": "conn"}, {"k": "disconnect", "at": "conn"}]
            rsc.append(sc_)
    fam.execute(binary, rsc)
    evaluations += fam.stats["traces_validated"]
    # KeepAlive's error: "never reports a sentinel that is not in the chain" -- a ping that fails for another reason than
    # its timeout must come back with that cause (errors.Is), not as ErrPingTimeout; a real timeout as ErrPingTimeout
    ka = [{"id": "k%d" % j, "s": sc_} for j, sc_ in enumerate([["fail"], ["ok", "fail"], ["ok", "ok", "fail"], ["hang"], ["ok", "hang"], ["cancelDuring"], ["ok", "cancelBefore"]])]
    pk = vlib.run_drive(binary, ["run", "keepalive", "-j", "2", "-c", "2", "-timeout", "60s"], stdin="\n".join(json.dumps(x) for x in ka) + "\n", timeout=300)
    if pk.returncode != 0:
        raise vlib.Infra("keepalive driver failed: " + pk.stderr[-1000:])
    want = {"fail": "E", "hang": "pingtimeout", "cancelDuring": "canceled", "cancelBefore": "canceled"}
    for line in pk.stdout.splitlines():
        if not line.strip():
            continue
        g = json.loads(line)
        if "res" not in g:
            raise vlib.Infra("keepalive driver: %s" % line[:300])
        script = next(x["s"] for x in ka if x["id"] == g["id"])
        evaluations += 1
        if g["res"] != want[script[-1]]:
            v.witness("C19_KeepAliveCause", script[-1], "KeepAlive with ping outcomes %s returned an error of class %s, the cause is %s" % (script, g["res"], want[script[-1]]),
                      {"script": script, "got": g})
    import dialer_family
    evaluations += dialer_family.c19(binary, v)
    rc = v.finish()
    distinct_violations = len({(k, w) for k, w, _, _ in v.violations})
    depth, fullbase, maxfails = TIERS[tier]
    cov = {
        "evaluations": evaluations,
        "distinct_nontrivial": len(nontrivial) + len(retry_seen),
        "rule": "distinct error chains (wrapper sequence, base) with >= 2 wrappers or a foreign link, each built from the real "
                "wrappers and compared for every target, plus distinct (request kind, failure steps, stages) retry scenarios "
                "run on real BaseClients; counted from the rows actually compared",
        "samples": samples_chain + samples_src[:3] + samples_retry,
        "chains_compared": compared_chains,
        "chains_nontrivial": len(nontrivial),
        "targets_per_chain": len(targets),
        "max_depth": depth,
        "all_bases_up_to_depth": fullbase,
        "exhaustive": True,
        "exhaustive_space": "all wrapper sequences of length <= %d over 7 freely composable kinds (+ innermost RequestTimeoutError), "
                            "all %d targets; all failure sequences of length <= %d per request kind" % (depth, len(targets), maxfails),
        "retry_scenarios": len(retry_seen),
        "retry_comparisons": retry_cmp,
        "timeout_sources": sorted(source_ok),
        "tlc_wall_s": round(tlc1 + tlc2, 1),
        "crashes": len(crashes),
        "observations": observations,
    }
    vlib.write_evidence(PID, tier, "exploration", cov, time.time() - t0, ASSUMPTIONS, violations=distinct_violations)
    print("C19 %s: %d chains x %d targets, %d retry scenarios, %d comparisons, %d distinct violations, %.1fs" % (
        tier, compared_chains, len(targets), len(retry_seen), evaluations, distinct_violations, time.time() - t0))
    return rc


def replay(path):
    """Re-run the scenario of a replay file and compare again."""
    obj = json.load(open(path))
    rp = obj["replay"]
    binary = vlib.build_harness()
    sc = dict(rp["scenario"])
    sc["id"] = sc.get("id") or "replay"
    r = drive(binary, [sc], conc=1)[sc["id"]]
    v = vlib.Verdicts(PID)
    stats = {"silent_rows": 0, "silent_true": 0, "silent_cmp_documented": 0, "silent_match_documented": 0}
    exp = rp.get("expected")
    if "crash" in r:
        v.witness("C19_Panic", sc["mode"], r["crash"][-600:], rp)
    elif sc["mode"] == "chains" and exp:
        obs = r["rows"][0]
        if exp["base"] == "nil":
            if not obs["nil"]:
                v.witness("C19_PassThrough", "nil", "not nil", rp)
        else:
            for kind, where, detail in cmp_chain(exp, obs, stats)[0]:
                v.witness(kind, where, detail, rp)
    elif sc["mode"] == "timeout" and exp:
        out = []
        cmp_is_as(exp, r["obs"], "reqtimeout/" + exp["base"], "error of " + sc["source"], out, stats)
        for kind, where, detail in out:
            v.witness(kind, where, detail, rp)
    elif sc["mode"] == "retry" and exp:
        for kind, where, detail in cmp_retry(exp, r)[0]:
            v.witness(kind, where, detail, rp)
    print(json.dumps(r, indent=1)[:4000])
    return v.finish()
