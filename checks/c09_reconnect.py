"""C09 -- reconnect lifecycle: redial after loss with back-off, one live transport, stop on Disconnect.

spec/Reconnect.tla: the retry loop as a state machine (dial, connect, connected, lost, close-and-wait,
back-off wait; Disconnect / cancellation in every phase), checked exhaustively by TLC (one transport,
back-off sequence min(base*2^k, max) with reset after success, no dial after Disconnect returned,
Disconnect eventually returns) with four wrong-implementation switches for non-vacuity.
Real code: failure sequences x delay settings x Disconnect/cancel phases executed on the real
reconnecting client over netsim; TLC validates the recorded dial log, wire and hook values against
spec/ConnObs.tla (observers C09_*).  Time is used only as a lower bound measured from an event that
precedes the start of the wait; the exact back-off value comes from the reconnWait hook event."""
import json
import os
import random
import sys
import time

sys.path.insert(0, os.path.dirname(os.path.abspath(__file__)))
sys.path.insert(0, os.path.join(os.path.dirname(os.path.abspath(__file__)), "..", "lib"))
import vlib  # noqa: E402
import retry_family as rf  # noqa: E402

PID = "C09"
P = rf.PUB


def scenarios(tier, rng):
    S = rf.scenario
    out = []
    i = [0]

    def add(sc, hook=False):
        sc["id"] = "r%d%s" % (i[0], "h" if hook else "")
        if hook:
            sc["opts"]["hookEvents"] = True
        i[0] += 1
        out.append(sc)
        return sc

    delays = [(2, 10), (3, 3), (1, 40), (5, 8)]
    # consecutive dial failures before the first connection, and after a lost one
    for base, mx in delays:
        o = {"reconnBaseMs": base, "reconnMaxMs": mx}
        for k in range(0, 5):
            add(S("", [P(1)], ["pre"], [], dials=["fail"] * k, opts=dict(o)), hook=(k in (2, 4)))
            add(S("", [P(1)], ["conn"], [{"p": "PUBLISH", "n": 1, "o": "cutAfter"}], dials=["ok"] + ["fail"] * k, opts=dict(o)), hook=(k == 3))
        # refused / silent CONNACKs in a row, then accepted
        for k in range(1, 4):
            add(S("", [P(1)], ["pre"], [], connacks=[{"code": 5}] * k, opts=dict(o)))
            add(S("", [P(1)], ["pre"], [], connacks=[{"silent": True}] * k, opts=dict(o, connTimeoutMs=15)), hook=(k == 2))
        # success resets the back-off: fail fail ok(lost) fail ok
        add(S("", [P(1)], ["pre"], [{"p": "PUBLISH", "n": 1, "o": "cutBefore"}], dials=["fail", "fail", "ok", "fail", "fail", "ok"], opts=dict(o)), hook=True)
    # the transport dying while CONNECT is written / right after the broker processed it, first and later connections
    for n in (1, 2):
        for oc in ("cutBefore", "cutAfter"):
            fl = [{"p": "CONNECT", "n": n, "o": oc}] + ([{"p": "PUBLISH", "n": 1, "o": "cutAfter"}] if n == 2 else [])
            add(S("", [P(1)], ["pre"], fl, opts={"reconnBaseMs": 2, "reconnMaxMs": 10}))
            add(S("", [P(1)], ["pre"], fl + [{"p": "CONNECT", "n": n + 1, "o": oc}], opts={"reconnBaseMs": 2, "reconnMaxMs": 10}), hook=(oc == "cutBefore"))
    # every way an established connection can end unexpectedly
    o = {"reconnBaseMs": 2, "reconnMaxMs": 10}
    for n in range(1, 3):
        sc = S("", [P(1)], ["conn"], [], opts=dict(o))
        sc["reqs"] += [{"k": "peerclose", "at": "idle"}, {"k": "pub", "q": 1, "at": "idle"}] * n
        add(sc)
        sc = S("", [P(1)], ["conn"], [], opts=dict(o))
        sc["reqs"] += [{"k": "malformed", "at": "idle"}, {"k": "pub", "q": 1, "at": "idle"}] * n
        add(sc)
    add(S("", [P(1)], ["conn"], [{"p": "PINGREQ", "n": 2, "o": "dropAck"}], opts=dict(o, pingMs=15, connTimeoutMs=100, quietMs=200)))
    # CleanSession configured by the application: the CONNECT of every re-connection carries it as the first one did
    for n in (1, 2):
        add(S("", [P(1)] * n, ["conn"] * n, [{"p": "PUBLISH", "n": k + 1, "o": "cutAfter"} for k in range(n)], opts=dict(o, cleanSession=True)))
        add(S("", [P(1)] * n, ["conn"] * n, [{"p": "PUBLISH", "n": k + 1, "o": "cutBefore"} for k in range(n)], opts=dict(o, cleanSession=True, alwaysResub=True)))
    # Disconnect arriving in every phase
    for at in ("dial:1", "write:1", "conn", "dial:2", "write:3", "connopt:3"):
        sc = S("", [P(1)], ["pre"], [{"p": "PUBLISH", "n": 1, "o": "cutAfter"}], opts=dict(o))
        sc["reqs"].append({"k": "disconnect", "at": at})
        add(sc)
    for wait_ms in (0, 3, 12):      # while waiting to redial (base 30 ms)
        sc = S("", [P(1)], ["conn"], [], opts={"reconnBaseMs": 30, "reconnMaxMs": 60})
        sc["reqs"] += [{"k": "peerclose", "at": "idle"}, {"k": "sleep", "ms": wait_ms, "at": "idle"}, {"k": "disconnect", "at": "idle"}]
        sc["reqs"][2]["at"] = "conn"
        sc["reqs"][3]["at"] = "conn"
        add(sc, hook=True)
    # cancellation before the first connection succeeded, then Disconnect (never connected)
    for k in (1, 2, 3):
        sc = S("", [], [], [], dials=["fail"] * 8, opts={"reconnBaseMs": 2, "reconnMaxMs": 5, "noReestablish": True})
        sc["reqs"] += [{"k": "cancelconnect", "at": "dial:%d" % k}, {"k": "sleep", "ms": 40, "at": "conn"}, {"k": "disconnect", "at": "conn"}]
        add(sc)
    sc = S("", [], [], [], connacks=[{"silent": True}] * 3, opts={"reconnBaseMs": 2, "reconnMaxMs": 5, "noReestablish": True})
    sc["reqs"] += [{"k": "cancelconnect", "at": "write:1"}, {"k": "sleep", "ms": 40, "at": "conn"}, {"k": "disconnect", "at": "conn"}]
    add(sc)
    # a long outage: 70 consecutive failures (base 1 ms, max 2 ms) after a lost connection -- "at least doubling ... up to
    # the maximum" has to hold for every one of them (no arithmetic that gives out after some tens of doublings)
    add(S("", [P(1)], ["conn"], [{"p": "PUBLISH", "n": 1, "o": "cutAfter"}], dials=["ok"] + ["fail"] * 70, opts={"reconnBaseMs": 1, "reconnMaxMs": 2, "deadlineMs": 3000}))
    add(S("", [P(1)], ["pre"], [], dials=["fail"] * 70, opts={"reconnBaseMs": 1, "reconnMaxMs": 3, "deadlineMs": 3000}), hook=True)
    # seeded mixtures
    n = 40 if tier == "quick" else 2500
    for j in range(n):
        base = rng.choice([1, 2, 3, 5])
        mx = base * rng.choice([1, 2, 4, 8])
        dl = [rng.choice(["ok", "fail", "fail"]) for _ in range(rng.randint(0, 5))]
        ca = [rng.choice([{}, {}, {"code": rng.choice([1, 2, 3, 4, 5])}, {"silent": True}]) for _ in range(rng.randint(0, 3))]
        fl = [{"p": "PUBLISH", "n": k + 1, "o": rng.choice(["cutBefore", "cutAfter"])} for k in range(rng.randint(0, 2))]
        oo = {"reconnBaseMs": base, "reconnMaxMs": mx}
        if any(c.get("silent") for c in ca):
            oo["connTimeoutMs"] = 15
        add(S("", [P(1), P(2)], ["pre", "conn"], fl, dials=dl, connacks=ca, opts=oo), hook=(j % 5 == 0))
    return out


def model():
    res = {}
    r = vlib.tlc_ok(vlib.tlc("Reconnect", cfg="Reconnect.cfg", workers=4, timeout=300), "Reconnect model")
    cfg = open(os.path.join(vlib.SPEC, "Reconnect.cfg")).read()
    for b, inv in (("BugNoReset", "BackoffSequence"), ("BugNoDouble", "BackoffSequence"), ("BugDialAfterStop", "NoDialAfterStop"), ("BugNoCloseOnFail", "OneTransport")):
        rb = vlib.tlc("Reconnect", cfg="RB.cfg", files={"RB.cfg": cfg.replace("%s = FALSE" % b, "%s = TRUE" % b).replace("PROPERTIES DisconnectEventuallyReturns", "")}, workers=1, timeout=300)
        if rb.violated != inv:
            raise vlib.Infra("non-vacuity: %s did not violate %s (%s)" % (b, inv, rb.violated))
        res[b] = rb.violated
    return r, res


def run(tier):
    t0 = time.time()
    rng = random.Random(vlib.seed() * 13 + 9)
    verd = vlib.Verdicts(PID)
    binary = vlib.build_harness()
    r, bugs = model()
    scs = scenarios(tier, rng)
    byid = {s["id"]: s for s in scs}
    plain = [s for s in scs if not s["opts"].get("hookEvents")]
    hooked = [s for s in scs if s["opts"].get("hookEvents")]
    results = rf.run_scenarios(binary, plain, conc=3)
    results.update(rf.run_scenarios(binary, hooked, conc=1))     # the hook is process-global
    reports, totals = rf.validate(results, spec="ConnObs")
    nval = 0
    distinct = set()
    samples = []
    for sid, res in results.items():
        if "crash" in res:
            kind, msg = rf.crash_kind(res["crash"])
            verd.witness(kind, "", msg, {"scenario": byid[sid], "crash": res["crash"][-3000:]})
            continue
        rep = reports[sid]
        if rep["hw"] != rep["len"] + 1:
            raise vlib.Infra("ConnObs rejected trace %s at event %d" % (sid, rep["hw"]))
        nval += 1
        dlog = [(e["res"], e.get("open")) for e in res["evs"] if e["e"] == "Dial"]
        distinct.add(json.dumps(dlog) + json.dumps([e["a0"] for e in res["evs"] if e["e"] == "H:reconnWait"]))
        if len(samples) < 3 and len(dlog) > 2:
            samples.append({"scenario": byid[sid], "dials": [[e["res"], e["t_us"]] for e in res["evs"] if e["e"] == "Dial"],
                            "reconnWait_ns": [e["a0"] for e in res["evs"] if e["e"] == "H:reconnWait"]})
        for v in rep["v"]:
            if v["o"].startswith("C09_"):
                ev = res["evs"][v["at"] - 1]
                where = ""
                if v["o"] == "C09_DisconnectReturns":
                    where = "never-connected" if not any(e["e"] == "Write" for e in res["evs"]) else "after-connect"
                    where += ":" + str(ev.get("res"))[:40]
                verd.witness(v["o"], where, "scenario %s event %d %s; dials=%s" % (sid, v["at"], json.dumps(ev)[:200], dlog),
                             {"scenario": byid[sid], "observer": v["o"], "event": v["at"], "trace": res["evs"]})
    import dialer_family
    dialer_runs = dialer_family.c09(binary, verd)
    rc = verd.finish()
    vlib.write_evidence(PID, tier, "model_checking", {
        "states": r.states + totals["states"], "transitions": r.generated + totals["states"],
        "traces_validated_against_impl": nval, "model_states": r.states, "non_vacuity": bugs,
        "scenarios": len(scs), "with_hook_values": len(hooked),
        "evaluations": len(scs), "distinct_nontrivial": len(distinct),
        "rule": "failure sequences (dial errors, refused/absent CONNACK, cuts, peer close, protocol error, keep-alive timeout) x 4 delay settings x Disconnect/cancel phases + seeded mixtures; distinct = distinct dial logs + back-off value sequences",
        "samples": samples or [{"note": "none"}], "exhaustive": False,
    }, time.time() - t0, ["time is only a lower bound, measured from an event recorded before the wait starts",
                           "exact back-off values are read from the verif hook reconnWait",
                           "a dial attempted with an already cancelled context is not counted as a dial"], violations=len(verd.violations))
    print("C09: Reconnect model %d states; %d real traces validated (ConnObs C09_*), %d distinct dial logs; %.0fs" % (r.states, nval, len(distinct), time.time() - t0))
    return rc
