"""C15 -- packet identifiers are non-zero and unique among outstanding requests.

Oracle / generator: spec/PacketId.tla (the allocator of uniqid.go as a state machine with N concurrent
callers, parametric sizes, Bug switch), spec/PacketIdArith.tla (shared arithmetic), spec/TracePacketId.tla
(TLC evaluates it on real identifier traces; it also generates the boundary start values and the
caller-supplied-id scripts), spec/PacketIdInd.tla (Apalache, symbolic M; informational).

Real code: harness family `packetid` (cmd/drive/packetid.go):
  alloc   K goroutines draw ids through VerifNewID from a preset counter (VerifSetIDLast), >= 70 000 per
          full run (the whole 16 bit cycle is crossed), ids held "outstanding" for a bounded number of epochs
  api     real concurrent Subscribe / Unsubscribe / Publish(QoS 1, 2) over netsim with withheld acks
  script  sequential requests, Publish with caller-supplied Message.ID in {1, 255, 256, 65535}
  churn   documented limit of a plain counter (NOTE only; VERIF_C15_STRICT=1 makes it a witness)

Verdicts (TLC's report per trace): zero id / id acquired while a request carrying it is outstanding /
caller-supplied id changed.  Deviations from the model's allocation sequence that do not break the property
statement (gaps, a supplied id consuming a counter value) are reported as NOTE lines and in the evidence."""
import json
import os
import random
import subprocess
import sys
import time
from concurrent.futures import ThreadPoolExecutor

sys.path.insert(0, os.path.dirname(os.path.abspath(__file__)))
import vlib  # noqa: E402

PID = "C15"
M16 = 65536
INVS = "TypeOK NonZero WindowDistinct Successor NoClash PassThrough"


# ---------------------------------------------------------------------------------------
# Layer A: the model
# ---------------------------------------------------------------------------------------
def mc_cfg(M, K, callers, bug="none", invs=INVS, prop=True, sym=True):
    sup = sorted({1, M - 1})
    lines = ["CONSTANTS", " M = %d" % M, " K = %d" % K,
             " Callers = {%s}" % ", ".join("c%d" % i for i in range(1, callers + 1)),
             " Supplied = {%s}" % ", ".join(map(str, sup)), ' Bug = "%s"' % bug,
             "SPECIFICATION Spec", "CHECK_DEADLOCK FALSE", "INVARIANTS " + invs]
    if sym and callers > 1:
        lines.append("SYMMETRY Perms")
    if prop:
        lines.append("PROPERTY SuppliedKeepsCounter")
    return "\n".join(lines) + "\n"


def model_instances(tier):
    inst = [dict(M=4, K=2, callers=3), dict(M=5, K=3, callers=2), dict(M=8, K=2, callers=3), dict(M=16, K=2, callers=2)]
    if tier == "thorough":
        inst += [dict(M=4, K=1, callers=3), dict(M=8, K=3, callers=3), dict(M=16, K=2, callers=3), dict(M=32, K=2, callers=2)]
    return inst


# seeded defects of the model and the invariant each must break (non-vacuity of the invariants)
BUGS = [("nozero", "NonZero", 2), ("nonatomic", "NoClash", 2), ("nonatomic", "WindowDistinct", 2), ("short", "NoClash", 2),
        ("overwrite", "PassThrough", 1), ("rewind", "NoClash", 2), ("none", "NoClashEver", 2)]


def run_model(tier, ex):
    """Submit all TLC model runs; returns a function that collects them."""
    futs = []
    for i in model_instances(tier):
        name = "MC_%d_%d_%d.cfg" % (i["M"], i["K"], i["callers"])
        w = 8 if i["callers"] * i["M"] >= 48 else 2
        futs.append(("ok", i, ex.submit(vlib.tlc, "MCPacketId", cfg=name, files={name: mc_cfg(**i)}, workers=w, timeout=420, heap="4g")))
    for bug, inv, callers in BUGS:
        name = "MCbug_%s_%s.cfg" % (bug, inv)
        cfg = mc_cfg(8, 2, callers, bug=bug, invs=inv, prop=False)
        futs.append(("bug", (bug, inv), ex.submit(vlib.tlc, "MCPacketId", cfg=name, files={name: cfg}, workers=1, timeout=120, heap="2g")))

    def collect():
        tot = {"states": 0, "transitions": 0, "instances": [], "bug_switch": []}
        for kind, what, f in futs:
            r = f.result()
            if kind == "ok":
                vlib.tlc_ok(r, "PacketId %s" % what)
                tot["states"] += r.states
                tot["transitions"] += r.generated
                tot["instances"].append(dict(what, states=r.states, transitions=r.generated, wall_s=round(r.wall, 1)))
            else:
                bug, inv = what
                if r.violated != inv:
                    raise vlib.Infra("PacketId with Bug=%s: expected a counterexample to %s, got violated=%s error=%s\n%s" % (
                        bug, inv, r.violated, r.error, r.out[-1500:]))
                tot["bug_switch"].append({"bug": bug, "counterexample_to": inv, "states": r.states})
        return tot
    return collect


def run_apalache(ex):
    """Stretch goal, never binding: inductive invariant for symbolic M."""
    spec = os.path.join(vlib.SPEC, "PacketIdInd.tla")
    d = vlib.scratch("verif-apa-")
    src = open(spec).read()
    with open(os.path.join(d, "PacketIdInd.tla"), "w") as fh:
        fh.write(src)
    # negative control: the window one larger than the identifier cycle must be refuted
    with open(os.path.join(d, "PacketIdIndNeg.tla"), "w") as fh:
        fh.write(src.replace("MODULE PacketIdInd", "MODULE PacketIdIndNeg").replace("HandedSince < M - 1", "HandedSince < M"))
    jobs = [("base", "PacketIdInd.tla", "Init", "IndInv", 0, True), ("step", "PacketIdInd.tla", "IndInit", "IndInv", 1, True),
            ("safety", "PacketIdInd.tla", "IndInit", "Safety", 0, True), ("negative_control", "PacketIdIndNeg.tla", "IndInit", "Safety", 0, False)]

    def one(job):
        name, mod, init, inv, length, want_ok = job
        try:
            p = subprocess.run(["apalache-mc", "check", "--cinit=CInit", "--init=" + init, "--inv=" + inv, "--length=%d" % length,
                                "--out-dir=" + os.path.join(d, "out-" + name), mod], cwd=d, capture_output=True, text=True, timeout=90)
        except (subprocess.TimeoutExpired, OSError) as e:
            return name, "unavailable (%s)" % type(e).__name__
        ok = "The outcome is: NoError" in p.stdout
        err = "The outcome is: Error" in p.stdout
        if want_ok:
            return name, "proved" if ok else ("refuted" if err else "inconclusive")
        return name, "refuted as expected" if err else "NOT refuted"
    futs = [ex.submit(one, j) for j in jobs]
    return lambda: dict(f.result() for f in futs)


# ---------------------------------------------------------------------------------------
# Layer B: vectors, the real code, trace validation
# ---------------------------------------------------------------------------------------
TRACE_CFG = 'CONSTANTS\n M = 65536\n K = 65536\n Mode = "%s"\n'


def generate():
    """TLC chooses the boundary start values and the caller-supplied-id scripts."""
    r = vlib.tlc("TracePacketId", cfg="TPgen.cfg", files={"TPgen.cfg": TRACE_CFG % "gen", "traces.ndjson": ""}, workers=1, timeout=120)
    vlib.tlc_ok(r, "TracePacketId generation")
    starts = [(s["hi"], s["lo"]) for s in vlib.ndjson_read(os.path.join(r.dir, "starts.ndjson"))]
    scripts = [s["s"] for s in vlib.ndjson_read(os.path.join(r.dir, "scripts.ndjson"))]
    if len(starts) < 10 or len(scripts) < 20:
        raise vlib.Infra("generation produced too little: %d starts, %d scripts" % (len(starts), len(scripts)))
    return sorted(starts), sorted(scripts)


def full_alloc(sid, start, callers, via="base", hold=12):
    """A run that crosses the whole identifier cycle (>= 70 000 draws)."""
    if callers == 1:
        # exactly 65 535 requests outstanding at every draw: "up to 65,535 outstanding"
        return dict(id=sid, kind="alloc", hi=start[0], lo=start[1], callers=1, per=1, epochs=70000, hold=65534, via=via)
    per = 4000 // callers
    return dict(id=sid, kind="alloc", hi=start[0], lo=start[1], callers=callers, per=per, epochs=18, hold=hold, via=via)


def short_alloc(sid, start, callers):
    return dict(id=sid, kind="alloc", hi=start[0], lo=start[1], callers=callers, per=64, epochs=12, hold=3, via="base")


def scenarios_for(tier, rng, starts, scripts):
    q = tier == "quick"
    rnd = lambda: (rng.randrange(0, M16), rng.randrange(0, M16))  # noqa: E731
    near16, near32 = (0, 0xFFF0), (0xFFFF, 0xFFF0)
    alloc, api, scr = [], [], []
    if q:
        alloc += [full_alloc("full-16wrap-k8", near16, 8, hold=15), full_alloc("full-32wrap-k4", near32, 4), full_alloc("full-0-k2", (0, 0), 2),
                  full_alloc("full-1-k1", (0, 1), 1), full_alloc("full-rnd-k8-conn", rnd(), 8, via="conn", hold=15), full_alloc("full-rnd-k4", rnd(), 4)]
        for i, s in enumerate(starts):
            alloc.append(short_alloc("short-%d" % i, s, (2, 4, 8)[(i + vlib.seed()) % 3]))
    else:
        i = 0
        for s in [near16, near32, (0, 0), (0, 1)] + starts:
            for k in (1, 2, 4, 8):
                alloc.append(full_alloc("full-%d-k%d" % (i, k), s, k, via="conn" if i % 5 == 4 else "base", hold=(12, 15)[i % 2]))
            i += 1
        for j in range(12):
            alloc.append(full_alloc("full-rnd%d" % j, rnd(), (1, 2, 4, 8)[j % 4], hold=(12, 15)[j % 2]))
        for i, s in enumerate(starts):
            for k in (2, 4, 8):
                alloc.append(short_alloc("short-%d-k%d" % (i, k), s, k))
    # bursts across the wrap-around: 8 callers each draw a few identifiers at once, starting 1..6 below the
    # 16-bit (and 32-bit) wrap, many times over -- the window between the increment and the zero handling
    for b in range(3000 if q else 30000):
        hi = 0xFFFF if b % 4 == 3 else rng.choice([0, 0, 1, rng.randrange(M16)])
        alloc.append(dict(id="burst-%d" % b, kind="alloc", hi=hi, lo=M16 - 1 - (b % 6), callers=8, per=6, epochs=2, hold=2, via="base"))
    mix = ["sub", "pub1", "pub2", "unsub"]
    n = 2500 if q else 4000
    plans = [(near16, 1, 0), (near32, 8, 3), (rnd(), 64, 2), ((rng.randrange(M16), 0xFFFF - rng.randrange(n)), n, 0)]
    if not q:
        plans += [(s, k, a) for s, k, a in zip(rng.sample(starts, 8) + [rnd() for _ in range(4)],
                                               [1, 2, 4, 8, 16, 64, 512, n, 3, 8, 64, n], [0, 2, 3, 5, 0, 2, 7, 0, 4, 0, 3, 2])]
    for i, (s, k, a) in enumerate(plans):
        api.append(dict(id="api-%d" % i, kind="api", hi=s[0], lo=s[1], callers=k, n=n, ackEvery=a, mix=mix[i % 4:] + mix[:i % 4]))
    sst = [(0, M16 - 2), (0xFFFF, M16 - 1), rnd()] if q else starts + [rnd() for _ in range(5)]
    for si, s in enumerate(sst):
        for ci, sc in enumerate(scripts):
            for qos in (1, 2):
                scr.append(dict(id="script-%d-%d-q%d" % (si, ci, qos), kind="script", hi=s[0], lo=s[1],
                                script=[dict(sup=x, qos=qos if x else 0) for x in sc]))
    # requests with library-chosen identifiers stay outstanding, then a Publish with an identifier the caller preset
    # (below them, as the retransmission of an older message carries), then further requests
    rst = [(0, 100), (7, 0xFFFA), rnd()] + ([] if q else starts + [rnd() for _ in range(5)])
    for si, s in enumerate(rst):
        for hold in (2, 5):
            for back in (0, 1, 3):
                for qos in (1, 2):
                    scr.append(dict(id="resup-%d-h%d-b%d-q%d" % (si, hold, back, qos), kind="resup", hi=s[0], lo=s[1], hold=hold, n=back, ackEvery=qos, per=4))
    # the write of a request fails while the connection stays open, after a concurrent Publish drew the next identifier
    for si, s in enumerate(rst):
        for via in ("sub", "unsub"):
            for qos in (1, 2):
                scr.append(dict(id="wfail-%d-%s-q%d" % (si, via, qos), kind="wfail", hi=s[0], lo=s[1], via=via, ackEvery=qos, per=4))
    # a Publish that was not acknowledged in time is sent again on the same client (retry handle / the same message once
    # more): the identifier it was given -- by the caller or by the library -- is the caller's from then on
    for si, s in enumerate(rst):
        for sup in (0, 1, 0x1234, 65535):
            for via in ("handle", "republish"):
                for qos in (1, 2):
                    scr.append(dict(id="retx-%d-%d-%s-q%d" % (si, sup, via, qos), kind="retx", hi=s[0], lo=s[1], via=via, ackEvery=qos, script=[dict(sup=sup, qos=qos)]))
    churn = [dict(id="churn", kind="churn", hi=rng.randrange(M16), lo=rng.randrange(1, M16 - 1))]
    return alloc, api, scr, churn


def drive(binary, scenarios, j, c):
    if not scenarios:
        return {}
    inp = "\n".join(json.dumps(s, sort_keys=True) for s in scenarios) + "\n"
    p = vlib.run_drive(binary, ["run", "packetid", "-j", str(j), "-c", str(c), "-timeout", "120s"], stdin=inp, timeout=900)
    if p.returncode != 0:
        raise vlib.Infra("driver failed: rc=%s\n%s" % (p.returncode, p.stderr[-3000:]))
    res = {}
    for line in p.stdout.splitlines():
        if line.strip():
            r = json.loads(line)
            res[r["id"]] = r
    for s in scenarios:
        r = res.get(s["id"])
        if r is None:
            raise vlib.Infra("driver returned no result for %s" % s["id"])
        if r.get("infra"):
            raise vlib.Infra("driver trouble in %s: %s" % (s["id"], r["infra"]))
    return res


def trace_row(r):
    return {"id": r["id"], "hi": r["hi"], "lo": r["lo"], "ids": r.get("ids") or [], "ev": r.get("ev") or [], "reqs": r.get("reqs") or []}


def validate(rows, par):
    """TLC evaluates TracePacketId on batches of trace rows; returns {id: report}."""
    batches, cur, size = [], [], 0
    for row in sorted(rows, key=lambda x: -(len(x["ids"]) + len(x["ev"]))):
        w = len(row["ids"]) + len(row["ev"]) + 20 * len(row["reqs"]) + 50
        if cur and size + w > 450000:
            batches.append(cur)
            cur, size = [], 0
        cur.append(row)
        size += w
    if cur:
        batches.append(cur)

    def one(b):
        text = "\n".join(json.dumps(x, sort_keys=True, separators=(",", ":")) for x in b) + "\n"
        r = vlib.tlc("TracePacketId", cfg="TPval.cfg", files={"TPval.cfg": TRACE_CFG % "validate", "traces.ndjson": text},
                     workers=1, timeout=600, heap="3g")
        rep = r.printed("REPORT")
        if not rep or r.error or r.violated:
            raise vlib.Infra("trace validation run failed:\n" + r.out[-3000:])
        out = json.loads(vlib.parse_tla_value(rep[-1]))
        if len(out) != len(b):
            raise vlib.Infra("trace validation reported %d of %d traces" % (len(out), len(b)))
        return out
    reports = {}
    with ThreadPoolExecutor(max_workers=par) as ex:
        for out in ex.map(one, batches):
            for t in out:
                reports[t["id"]] = t
    for row in rows:
        t = reports.get(row["id"])
        if t is None or t["n"] != len(row["ids"]) or t["nev"] != len(row["ev"]) or t["nreq"] != len(row["reqs"]):
            raise vlib.Infra("trace %s not (completely) seen by TLC: %s" % (row["id"], t))
        if t["bad"] and not t["clash"]:     # after a clash two requests hold the identifier: two releases are expected
            raise vlib.Infra("trace %s: malformed acquire/release log (driver defect)" % row["id"])
    return reports


def validator_selftest():
    """The validator must reject what it is there to reject (synthetic traces, no library code involved)."""
    rows = [
        {"id": "ok", "hi": 0, "lo": 65533, "ids": [65534, 65535, 1, 2], "ev": [65534, 65535, -65534, 1, 2, -1], "reqs": [[0, 65534, 0], [255, 255, 255], [0, 65535, 0], [0, 1, 0]]},
        {"id": "zero", "hi": 7, "lo": 65534, "ids": [65535, 0, 1], "ev": [65535, 0, 1], "reqs": [[0, 65535, 0], [0, 0, 0]]},
        {"id": "clash", "hi": 0, "lo": 5, "ids": [6, 6, 7], "ev": [6, 7, -7, 6], "reqs": []},
        {"id": "reuse-after-release", "hi": 0, "lo": 5, "ids": [6, 7], "ev": [6, -6, 6, 7], "reqs": []},
        {"id": "gap", "hi": 0, "lo": 5, "ids": [6, 8], "ev": [6, 8], "reqs": []},
        {"id": "sup", "hi": 0, "lo": 5, "ids": [], "ev": [], "reqs": [[255, 6, 0], [0, 7, 0], [256, 256, 1]]},
        {"id": "wrap32", "hi": 65535, "lo": 65535, "ids": [1, 2], "ev": [1, 2], "reqs": []},
    ]
    rep = validate(rows, 1)
    exp = {"ok": {}, "zero": {"zero": True, "dev": 2, "cdev": True}, "clash": {"clash": True, "dev": 2, "rep": True},
           "reuse-after-release": {}, "gap": {"dev": 2}, "sup": {"sup": True, "cdev": True}, "wrap32": {}}
    for tid, want in exp.items():
        t = rep[tid]
        got = {k: (t[k] if k == "dev" else bool(t[k])) for k in ("zero", "clash", "sup", "dev", "rep", "cdev")}
        full = {"zero": False, "clash": False, "sup": False, "dev": 0, "rep": False, "cdev": False}
        full.update(want)
        if tid == "reuse-after-release":
            full["dev"], full["rep"] = got["dev"], got["rep"]   # not a model sequence, but no property violation
        if got != full:
            raise vlib.Infra("TracePacketId self-test: trace %r judged %s, expected %s" % (tid, got, full))
    return len(rows)


def around(seq, i, w=4):
    return {"from": max(1, i - w), "values": seq[max(0, i - 1 - w):i + w]}


def judge(v, sc, res, rep, notes):
    """Turn TLC's report of one trace into witnesses (property) and notes (model conformance)."""
    sid = sc["id"]
    base = {"scenario": sc, "report": rep, "first": res.get("first"), "maxOut": res.get("maxOut"),
            "how": "VERIF_REPO=<tree> ./check C15 quick --replay <this file>"}
    where = sc["kind"]
    if rep["zero"]:
        i = rep["zero"][0]
        seq = res.get("ids") if res.get("ids") and i <= len(res["ids"]) and res["ids"][i - 1] == 0 else (res.get("ev") or [])
        v.witness("zero_id", where, "%s: identifier 0 handed out (start=0x%04X%04X, callers=%s, position %d)" % (
            sid, sc["hi"], sc["lo"], sc.get("callers", 1), i), dict(base, near=around(seq, i)))
    if rep["clash"]:
        val, i, j = rep["clash"][0]
        v.witness("id_reused_while_outstanding", where,
                  "%s: identifier %d acquired at log position %d and again at %d while still outstanding (start=0x%04X%04X, callers=%s, at most %s outstanding)" % (
                      sid, val, i, j, sc["hi"], sc["lo"], sc.get("callers", 1), res.get("maxOut")),
                  dict(base, near_first=around(res["ev"], i), near_second=around(res["ev"], j)))
    if rep["sup"]:
        i = rep["sup"][0]
        v.witness("supplied_id_changed", where, "%s: request %d: caller supplied id %d, PUBLISH carried %d, PUBREL %d" % (
            sid, i, res["reqs"][i - 1][0], res["reqs"][i - 1][1], res["reqs"][i - 1][2]), dict(base, reqs=res["reqs"]))
    if rep["dev"] or rep["rep"] or rep["cdev"]:
        notes.append((sid, "allocation sequence deviates from the model: dev@%s rep=%s cdev=%s" % (rep["dev"], rep["rep"][:1], rep["cdev"][:1])))
        return False
    return True


def run(tier):
    t0 = time.time()
    rng = random.Random(vlib.seed() * 7919 + 15)
    v = vlib.Verdicts(PID)
    binary = vlib.build_harness()
    t_build = time.time() - t0
    pool = ThreadPoolExecutor(max_workers=6 if tier == "quick" else 4)
    collect_model = run_model(tier, pool)
    collect_apa = run_apalache(pool)

    starts, scripts = generate()
    alloc, api, scr, churn = scenarios_for(tier, rng, starts, scripts)
    t1 = time.time()
    results = {}
    results.update(drive(binary, alloc, j=4, c=1))            # racing goroutines need the cores
    results.update(drive(binary, api + churn, j=4, c=1))
    results.update(drive(binary, scr, j=8, c=4))
    t_drive = time.time() - t1

    t2 = time.time()
    n_self = validator_selftest()
    scen = {s["id"]: s for s in alloc + api + scr}
    reports = validate([trace_row(results[i]) for i in scen], par=max(2, min(8, vlib.NCPU // 2)))
    t_val = time.time() - t2

    notes, conform, samples = [], 0, []
    wraps16 = sum(reports[i]["wraps"] for i in scen)
    for sid, sc in sorted(scen.items()):
        if judge(v, sc, results[sid], reports[sid], notes):
            conform += 1
    for sid in [s["id"] for s in alloc[:4] + api[:2] + scr[:2]]:
        r = results[sid]
        samples.append({"id": sid, "start": "0x%04X%04X" % (r["hi"], r["lo"]), "callers": r.get("callers"),
                        "first_ids_in_allocation_order": r["ids"][:18] or None, "first_draws_g_seq_id": r["first"][:6] or None,
                        "reqs_sup_wire_pubrel": r["reqs"][:4] or None, "max_outstanding": r.get("maxOut")})

    # documented limit of a plain counter (agreed with the integrator: NOTE, strict mode on request)
    limit = None
    for c in churn:
        r = results[c["id"]]
        limit = {"start": "0x%04X%04X" % (r["hi"], r["lo"]), "id_of_withheld_subscribe": r["a"], "id_after_65534_further_allocations": r["b"],
                 "reused": r["a"] == r["b"],
                 "meaning": "a request that stays outstanding while 65535 further identifiers are handed out meets its identifier again "
                            "(the allocator is a plain counter and does not look at the identifiers in use); PacketId!NoClashEver is refuted by TLC"}
        if r["a"] == r["b"]:
            strict = os.environ.get("VERIF_C15_STRICT") == "1"
            print("NOTE property=C15 known limit: identifier %d of a still outstanding SUBSCRIBE handed out again after a full cycle of "
                  "65535 allocations (uniqid.go newID is a plain counter); %s" % (
                      r["a"], "counted as a witness (VERIF_C15_STRICT=1)" if strict else "not counted as a violation (VERIF_C15_STRICT=1 to count it)"))
            if strict:
                v.witness("id_reused_after_full_cycle", "churn", "identifier %d reused while its first request is outstanding" % r["a"],
                          {"scenario": c, "result": {k: r[k] for k in ("a", "b", "ev")}})

    # "an identifier the caller already put on a message is used unchanged" on the retrying client: the message may be
    # sent for the first time from the client's queued copy (submitted during an outage) and repeated after faults
    import retry_family as rf
    fam = rf.Family(PID)
    fam.verd = v
    pp = lambda q, pid: dict(rf.PUB(q), pid=pid)  # noqa: E731
    rsc = []
    for q in (1, 2):
        for pid in (0x1234, 1, 65535):
            for tm in (["conn", "conn"], ["conn", "dial:2"], ["conn", "connopt:3"], ["pre", "pre"]):
                for fl in ([], [{"k": 2, "o": "cutAfter"}], [{"k": 2, "o": "cutBefore"}], [{"k": 2, "o": "cutAfter"}, {"k": 5, "o": "cutAfter"}]):
                    rsc.append(rf.scenario("pid-%d" % len(rsc), [rf.PUB(1), pp(q, pid)], tm, fl))
    # "never 0", also on what is sent again: library-chosen identifiers, connection cut at every step of the exchange
    # (for QoS 2 in particular between PUBREC and PUBCOMP: the PUBREL is repeated on the next connection)
    for q in (1, 2):
        for k in (2, 3, 4):
            for o in ("cutBefore", "cutAfter"):
                rsc.append(rf.scenario("nz-%d" % len(rsc), [rf.PUB(q), rf.PUB(q), rf.SUB(("x", 1))], ["conn"] * 3, [{"k": k, "o": o}]))
                rsc.append(rf.scenario("nz-%d" % len(rsc), [rf.PUB(q)], ["conn"], [{"k": k, "o": o}, {"k": k + 2, "o": o}]))
    fam.execute(binary, rsc)

    model = collect_model()
    apa = collect_apa()
    pool.shutdown()
    for sid, txt in notes[:10]:
        print("NOTE property=C15 %s: %s" % (sid, txt))

    rc = v.finish()
    n_ids = sum(len(results[i]["ids"]) for i in scen)
    full = [s for s in alloc if s["per"] * s["epochs"] * s["callers"] >= 70000]
    coverage = {
        "states": model["states"], "transitions": model["transitions"],
        "model_instances": model["instances"], "model_exhaustive": True,
        "bug_switch_counterexamples": model["bug_switch"],
        "apalache_symbolic_M": apa,
        "traces_validated_against_impl": conform,
        "traces_total": len(scen), "model_deviations": len(notes),
        "alloc_runs": len(alloc), "alloc_runs_crossing_full_16bit_cycle": len(full), "api_runs": len(api), "script_runs": len(scr), "retry_client_preset_id_runs": fam.stats["traces_validated"],
        "identifiers_validated_by_tlc": n_ids, "log_events_validated_by_tlc": sum(len(results[i]["ev"]) for i in scen),
        "wraparounds_16bit_seen": wraps16,
        "starts_32bit_wrap": len([s for s in alloc + api + scr if s["hi"] == 0xFFFF]),
        "callers": sorted({s["callers"] for s in alloc + api}),
        "tlc_generated": {"starts": len(starts), "scripts": len(scripts)},
        "validator_selftest_traces": n_self,
        "validation": "TLC validates every trace completely (n log n: sorted <<id, position>> pairs); no sampling, no Python-side pass",
        "known_limit": limit,
        "samples": samples,
        "timing_s": {"build": round(t_build, 1), "drive": round(t_drive, 1), "tlc_validation": round(t_val, 1)},
    }
    assumptions = [
        "uniqueness is demanded while at most 65535 requests are outstanding AND no request stays outstanding during 65535 or more later "
        "allocations (the statement's 'up to 65,535 outstanding'; the plain counter re-issues an identifier after a full cycle: known_limit)",
        "alloc runs: a request is 'outstanding' from the return of newID to a release the driver logs (hold epochs later); log order = "
        "global atomic ticket taken after the draw / before the release, so a reported clash is a real overlap",
        "api runs: identifiers as framed by netsim's broker side; a request counts as released when the broker side hands the final "
        "acknowledgement to the transport (never later than the client can process it)",
        "allocation order of concurrent draws is reconstructed from per-goroutine order (counter = preset + offset, id = uint16(counter)); "
        "it is only used for conformance with the model, never for a verdict",
        "model: atomic.AddUint32 is one atomic step; Go's memory model for sync/atomic is sequentially consistent",
    ]
    vlib.write_evidence(PID, tier, "model_checking", coverage, time.time() - t0, assumptions, violations=len(v.violations))
    return rc


def replay(path):
    """Re-run the scenario of a replay file against the current tree."""
    obj = json.load(open(path))
    sc = obj["replay"]["scenario"]
    binary = vlib.build_harness()
    res = drive(binary, [sc], j=1, c=1)
    v = vlib.Verdicts(PID)
    if sc["kind"] == "churn":
        r = res[sc["id"]]
        if r["a"] == r["b"]:
            v.witness("id_reused_after_full_cycle", "churn", "identifier %d reused" % r["a"], {"scenario": sc})
        return v.finish()
    rep = validate([trace_row(res[sc["id"]])], 1)
    judge(v, sc, res[sc["id"]], rep[sc["id"]], [])
    return v.finish()
