"""C07 -- a request completes only on the acknowledgement that belongs to it.

spec/Acks.tla: the waiter maps of BaseClient (register -> write -> wait; look up + delete + non-blocking
send) with a broker that may send any acknowledgement at any time; TLC checks ReturnOnlyOnOwnAck /
DoneNeedsAllAcks / ForeignHarmless exhaustively (2 callers, all 15 acknowledgements, <=4 sends) and
refutes them for two wrong look-ups.  Broker scripts for the real code are the `hist` of behaviours of
the same model drawn with `tlc -simulate` (targeted acknowledgement alphabet: own, wrong kind, wrong id,
duplicates) plus all SUBACK return-code vectors; they are played against 1-3 concurrent real calls with
a PINGREQ/PINGRESP barrier after every acknowledgement, and TLC checks the recorded runs against the
statement (spec/TraceAcks.tla)."""
import itertools
import json
import os
import random
import re
import sys
import time
from concurrent.futures import ThreadPoolExecutor

sys.path.insert(0, os.path.join(os.path.dirname(os.path.abspath(__file__)), "..", "lib"))
import vlib  # noqa: E402

PID = "C07"
KINDS = ["pub1", "pub2", "sub", "unsub"]
FIRST = {"pub1": "PUBACK", "pub2": "PUBREC", "sub": "SUBACK", "unsub": "UNSUBACK"}


def tla_seq(xs):
    return "<<" + ", ".join('"%s"' % x for x in xs) + ">>"


def mc(kinds, max_sends, bug=None, props=True, timeout=600, abandon=False):
    mcm = "---- MODULE MCAcks ----\nEXTENDS Acks\nKS == %s\n====\n" % tla_seq(kinds)
    cfg = ["SPECIFICATION Spec", "CONSTANTS", " Kinds <- KS", " ForeignIds = {9}", " MaxSends = %d" % max_sends, " SendSet <- AllSends"]
    for b in ("BugKindOnly", "BugIdOnly", "BugNoDelete"):
        cfg.append(" %s = %s" % (b, "TRUE" if b == bug else "FALSE"))
    cfg.append(" AllowAbandon = %s" % ("TRUE" if abandon else "FALSE"))
    cfg += ["CHECK_DEADLOCK FALSE", "INVARIANTS ReturnOnlyOnOwnAck DoneNeedsAllAcks"]
    if props:
        cfg.append("PROPERTIES ForeignHarmless" + (" AbandonedIsFinal" if abandon else ""))
    return vlib.tlc("MCAcks", cfg="MCAcks.cfg", files={"MCAcks.tla": mcm, "MCAcks.cfg": "\n".join(cfg) + "\n"}, workers=min(8, vlib.NCPU), timeout=timeout, heap="8g")


def simulate_scripts(kinds, num, depth, sseed):
    """Behaviours of Acks drawn by TLC; returns the list of hist sequences."""
    n = len(kinds)
    own = []
    for c, k in enumerate(kinds, 1):
        own.append((FIRST[k], c))
        if k == "pub2":
            own.append(("PUBCOMP", c))
    wrong = []
    for c, k in enumerate(kinds, 1):
        for ak in ("PUBACK", "PUBREC", "PUBCOMP", "SUBACK", "UNSUBACK"):
            if (ak, c) not in own:
                wrong.append((ak, c))
    rnd = random.Random(sseed)
    sendset = own + own + rnd.sample(wrong, min(len(wrong), 3)) + [(rnd.choice(own)[0], 9)]
    ss = "{" + ", ".join('<<"%s", %d>>' % p for p in sorted(set(sendset))) + "}"
    mcm = "---- MODULE MCAcks ----\nEXTENDS Acks\nKS == %s\nSS == %s\n====\n" % (tla_seq(kinds), ss)
    cfg = "SPECIFICATION Spec\nCONSTANTS\n Kinds <- KS\n ForeignIds = {9}\n MaxSends = %d\n SendSet <- SS\n BugKindOnly = FALSE\n BugIdOnly = FALSE\n BugNoDelete = FALSE\n AllowAbandon = FALSE\nCHECK_DEADLOCK FALSE\nINVARIANTS ReturnOnlyOnOwnAck DoneNeedsAllAcks\n" % (len(own) + 3)
    d = vlib.scratch("verif-sim-")
    r = vlib.tlc("MCAcks", cfg="MCAcks.cfg", files={"MCAcks.tla": mcm, "MCAcks.cfg": cfg}, workers=1, timeout=300,
                 simulate="file=%s/beh,num=%d" % (d, num), depth=depth, tlc_seed=sseed)
    if r.violated or r.error:
        raise vlib.Infra("Acks simulation failed: %s %s" % (r.violated, r.error))
    scripts = []
    for f in sorted(os.listdir(d)):
        txt = open(os.path.join(d, f)).read()
        m = re.findall(r"/\\ hist = (<<.*?>>)\n/\\ ", txt, re.S)
        if not m:
            continue
        h = vlib.parse_tla_value(m[-1])
        scripts.append([{"c": (x["id"] if x["id"] <= n else 0), "k": x["k"]} for x in h])
    return scripts, r


def abandoned():
    """Abandoned requests: the caller gives up (deadline) before the acknowledgement; late acknowledgements for the
    abandoned identifiers must neither complete nor disturb requests issued afterwards."""
    out = []
    i = 0
    for kind in KINDS:
        for na, nf in ((4, 3), (12, 8)):
            for order in (0, 1):
                calls = [{"kind": kind, "n": 1, "abandonMs": 15} for _ in range(na)]
                calls2 = [{"kind": kind, "n": 1} for _ in range(nf)]
                late = [{"c": c + 1, "k": FIRST[kind]} for c in range(na)]
                sc0 = {"id": "a%d" % i, "calls": calls, "script": [], "calls2": calls2, "script2": late}
                if order:
                    # acknowledge the last fresh request properly at the very end
                    sc0["script2"] = late + [{"c": na + nf, "k": FIRST[kind]}] + ([{"c": na + nf, "k": "PUBCOMP"}] if kind == "pub2" else [])
                out.append(sc0)
                i += 1
    # requests being abandoned WHILE acknowledgements of the same kind are dispatched for others
    for kind in KINDS:
        calls = [{"kind": kind, "n": 1, "abandonMs": 2 + (c % 4)} for c in range(10)] + [{"kind": kind, "n": 1} for _ in range(6)]
        script = []
        for c in range(10, 16):
            script.append({"c": c + 1, "k": FIRST[kind]})
            if kind == "pub2":
                script.append({"c": c + 1, "k": "PUBCOMP"})
        out.append({"id": "a%d" % i, "calls": calls, "script": script})
        i += 1
    return out


def bursts(tier, rng):
    """The acknowledgements of concurrent requests arrive back to back (no caller runs in between); each
    Subscribe must still get the codes of its own SUBACK (different vectors / different counts per caller)."""
    out = []
    i = 0
    for k in (2, 3, 4):
        for rep in range(12 if tier == "quick" else 120):
            order = list(range(1, k + 1))
            rng.shuffle(order)
            kinds = ["sub"] * k if rep % 3 else [rng.choice(KINDS) for _ in range(k)]
            calls = [{"kind": kd, "n": 1 + (j + rep) % 3 if kd in ("sub", "unsub") else 1} for j, kd in enumerate(kinds)]
            sc = []
            for c in order:
                sc.append({"c": c, "k": FIRST[kinds[c - 1]], "nb": True})
            for c in order:
                if kinds[c - 1] == "pub2":
                    sc.append({"c": c, "k": "PUBCOMP", "nb": True})
            sc[-1] = dict(sc[-1], nb=False)
            out.append({"id": "u%d" % i, "calls": calls, "script": sc})
            i += 1
    return out


def scenarios(tier, rng):
    out = []
    sims = 0
    combos = [list(c) for n in (1, 2, 3) for c in itertools.product(KINDS, repeat=n)]
    per = 6 if tier == "quick" else 60
    rng.shuffle(combos)
    chosen = combos if tier != "quick" else combos[:40]
    for ci, kinds in enumerate(chosen):
        scripts, _ = simulate_scripts(kinds, per, 60, vlib.seed() * 1000 + ci)
        sims += len(scripts)
        for si, sc in enumerate(scripts):
            calls = [{"kind": k, "n": 1 + (ci + j) % 3 if k in ("sub", "unsub") else 1} for j, k in enumerate(kinds)]
            if si % 2 and sc:
                sc = [dict(st, nb=True) for st in sc[:-1]] + [sc[-1]]
            out.append({"id": "s%d-%d" % (ci, si), "calls": calls, "script": sc})
    # deterministic core: every kind alone / pairs, own acks in every order, with foreign acks in between
    i = 0
    for kinds in [list(c) for n in (1, 2) for c in itertools.product(KINDS, repeat=n)]:
        own = []
        for c, k in enumerate(kinds, 1):
            own.append([{"c": c, "k": FIRST[k]}] + ([{"c": c, "k": "PUBCOMP"}] if k == "pub2" else []))
        flat = [s for o in own for s in o]
        for perm in set(itertools.permutations(range(len(flat)))):
            sc = []
            for x in perm:
                sc.append({"c": 0, "k": flat[x]["k"]})                                   # same kind, foreign id
                sc.append({"c": flat[x]["c"], "k": "PUBCOMP" if flat[x]["k"] != "PUBCOMP" else "PUBACK"})   # own id, other kind
                sc.append(flat[x])
                sc.append(flat[x])                                                        # duplicate
            calls = [{"kind": k, "n": 2 if k in ("sub", "unsub") else 1} for k in kinds]
            out.append({"id": "d%d" % i, "calls": calls, "script": sc})
            i += 1
    for a in abandoned():
        out.append(a)
        i += 1
    # the run ends by the application's Disconnect while calls still wait: none of them may report success
    for kinds in [list(c) for n in (1, 2) for c in itertools.product(KINDS, repeat=n)]:
        sc = [{"c": 1, "k": "PUBREC"}] if kinds[0] == "pub2" else []
        out.append({"id": "z%d" % i, "calls": [{"kind": k, "n": 1} for k in kinds], "script": sc, "endBy": "disconnect"})
        i += 1
    # a very prompt broker: the acknowledgement has been read and dispatched before Transport.Write returns to the caller
    for kinds in [list(c) for n in (1, 2, 3) for c in itertools.product(KINDS, repeat=n)]:
        out.append({"id": "q%d" % i, "calls": [{"kind": k, "n": 1 + j % 2} for j, k in enumerate(kinds)], "script": [], "prompt": True})
        i += 1
    for b in bursts(tier, rng):
        out.append(b)
        i += 1
    # all SUBACK return-code vectors for 1..3 filters, and wrong counts
    for n in (1, 2, 3):
        for ln in range(0, n + 2):
            for codes in itertools.product([0, 1, 2, 128], repeat=ln):
                if ln not in (n,) and rng.random() < (0.7 if tier == "quick" else 0.0) and ln > 1:
                    continue
                out.append({"id": "v%d" % i, "calls": [{"kind": "sub", "n": n}, {"kind": "pub1", "n": 1}],
                            "script": [{"c": 0, "k": "SUBACK"}, {"c": 1, "k": "SUBACK", "codes": list(codes)}, {"c": 2, "k": "PUBACK"}]})
                i += 1
    return out, sims


def run_real(binary, scs, batch=20):
    lines = [json.dumps({"id": "b%d" % bi, "batch": b}) for bi, b in enumerate(vlib.chunks(scs, batch))]
    p = vlib.run_drive(binary, ["run", "acks", "-j", str(vlib.NCPU), "-c", "4", "-timeout", "120s"], stdin="\n".join(lines) + "\n", timeout=1500)
    if p.returncode != 0:
        raise vlib.Infra("acks driver failed: " + p.stderr[-2000:])
    res, crashes = [], []
    for line in p.stdout.splitlines():
        if line.strip():
            r = json.loads(line)
            if "crash" in r:
                crashes.append(r)
            elif "infra" in r:
                raise vlib.Infra(r["infra"])
            else:
                res.extend(r["batch"])
    return res, crashes


def validate(results, per=800):
    bad = []

    def one(chunk):
        text = "\n".join(json.dumps(r, separators=(",", ":")) for r in chunk) + "\n"
        r = vlib.tlc("TraceAcks", cfg="TA.cfg", files={"ack_runs.ndjson": text, "TA.cfg": ""}, workers=1, timeout=900, heap="3g")
        rep = r.printed("REPORT")
        if not rep:
            raise vlib.Infra("TraceAcks failed:\n" + r.out[-3000:])
        return json.loads(vlib.parse_tla_value(rep[-1]))["bad"]

    with ThreadPoolExecutor(max_workers=min(12, vlib.NCPU)) as ex:
        for b in ex.map(one, list(vlib.chunks(results, per))):
            bad.extend(b)
    return bad


def run(tier):
    t0 = time.time()
    rng = random.Random(vlib.seed() * 11 + 7)
    verd = vlib.Verdicts(PID)
    binary = vlib.build_harness()
    r = vlib.tlc_ok(mc(["pub2", "sub"], 4), "Acks model")
    states, gen = r.states, r.generated
    # callers that give up while they wait (their waiter entry stays behind): the same invariants + AbandonedIsFinal
    ra = vlib.tlc_ok(mc(["pub2", "sub"], 3, abandon=True), "Acks model with abandoned requests")
    states += ra.states
    gen += ra.generated
    if tier == "thorough":
        r2 = vlib.tlc_ok(mc(["pub1", "pub2", "unsub"], 3, props=False), "Acks model 3 callers")
        states += r2.states
        gen += r2.generated
    bugs = {}
    for b in ("BugKindOnly", "BugIdOnly"):
        rb = mc(["pub2", "sub"], 4, bug=b, timeout=300)
        if not rb.violated:
            raise vlib.Infra("non-vacuity: %s not refuted" % b)
        bugs[b] = rb.violated
    # acknowledgement and cancellation pending at once: the PUBREC of a QoS 2 Publish has been read and dispatched when the
    # call's context is cancelled (both inside Transport.Write of the PUBLISH); PUBCOMP never comes, so the call must not
    # report success whichever of the two it looks at first (Acks.tla: OnlyOnOwnAck -- success only after PUBCOMP)
    rr_ = vlib.run_drive(binary, ["run", "acks", "-j", "1", "-c", "1", "-timeout", "120s"],
                         stdin=json.dumps({"id": "race", "race": "pubrecAtDeadline", "rounds": 60 if tier == "quick" else 600}) + "\n", timeout=600)
    race = [json.loads(l) for l in rr_.stdout.splitlines() if l.strip()]
    if rr_.returncode != 0 or not race or race[0].get("err"):
        raise vlib.Infra("acks race run failed: %s %s" % (rr_.stdout[-300:], rr_.stderr[-300:]))
    if race[0].get("raceNil", 0) > 0:
        verd.witness("OnlyOnOwnAck", "pubrec-at-deadline", "QoS 2 Publish whose PUBREC and cancellation were pending at once reported success in %d of %d rounds; PUBCOMP was never sent"
                     % (race[0]["raceNil"], race[0]["raceRounds"]), {"scenario": {"race": "pubrecAtDeadline"}, "result": race[0]})
    scs, nsim = scenarios(tier, rng)
    byid = {s["id"]: s for s in scs}
    results, crashes = run_real(binary, scs)
    for c in crashes:
        verd.witness("panic", "", c["crash"][-300:], {"crash": c["crash"][-3000:]})
    bad = validate(results)
    resid = {x["id"]: x for x in results}
    for b in bad:
        rr = resid[b["id"]]
        if rr["err"] and not b["f"]:
            # the barrier ping failing means the connection died during the script
            verd.witness("connection-ended-during-script", "", rr["err"], {"scenario": byid[b["id"]], "result": rr})
            continue
        for f in b["f"]:
            if f == "OwnAckCompletes":
                # the only observer with a time bound (the call must have returned when the run is declared quiet): on a
                # loaded machine a goroutine can be late; it has to fail twice more when the scenario runs alone
                again = 0
                for _ in range(2):
                    r2, c2 = run_real(binary, [dict(byid[b["id"]], id="again")], batch=1)
                    b2 = validate(r2) if r2 else []
                    again += 1 if (c2 or any("OwnAckCompletes" in x["f"] for x in b2)) else 0
                if again < 2:
                    verd.notes.append("OwnAckCompletes failed once for %s and did not reproduce alone (load)" % b["id"])
                    continue
            verd.witness(f, "+".join(c["kind"] for c in rr["calls"]), "calls %s script %s events %s" % (json.dumps(rr["calls"]), json.dumps(byid[b["id"]]["script"])[:200], json.dumps(rr["evs"])[:400]),
                         {"scenario": byid[b["id"]], "result": rr})
    rc = verd.finish()
    distinct = len({json.dumps([(e["e"], e.get("p"), e.get("c"), e.get("res")) for e in x["evs"]]) for x in results})
    vlib.write_evidence(PID, tier, "model_checking", {
        "states": states, "transitions": gen, "traces_validated_against_impl": len(results), "non_vacuity": bugs,
        "scripts_from_tlc_simulation": nsim, "scripts_total": len(scs),
        "evaluations": len(results), "distinct_nontrivial": distinct,
        "rule": "broker scripts = hist of TLC-simulated behaviours of Acks.tla (targeted acknowledgement alphabet) for all call mixes of 1-3 kinds, + every order of own acknowledgements with foreign-id / wrong-kind / duplicate acknowledgements in between, + all SUBACK return-code vectors; distinct = distinct event shapes",
        "samples": [{"calls": results[0]["calls"], "events": results[0]["evs"][:12]}] if results else [], "exhaustive": False,
    }, time.time() - t0, ["a PINGREQ/PINGRESP barrier follows every acknowledgement (the reader dispatches in order)",
                           "'ack sent' is recorded before the bytes become readable; returns are recorded after the call returned (late is the safe direction)"],
        violations=len(verd.violations))
    print("C07: Acks model %d states; %d scripted runs on the real client (%d scripts from TLC simulation) validated by TLC (TraceAcks): %d nonconforming; %.0fs"
          % (states, len(results), nsim, len(bad), time.time() - t0))
    return rc
