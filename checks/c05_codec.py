"""C05 - emitted packets are well-formed MQTT 3.1.1 carrying exactly the requested fields.

Oracle and generator: spec/Codec.tla (independent definition of the wire format, written from the
MQTT 3.1.1 standard) and spec/CodecGen.tla (lemmas about that definition + vector dump), evaluated
by TLC.  Driver: harness/cmd/drive/codec.go runs the real public API on each vector against a
capturing transport and compares the bytes written with the specification's encoding byte for
byte; the specification's PUBLISH bytes are fed to a connected client and the Message handed to
the handler is compared with the specification's decoding; rejections must happen before any
Transport.Write; the remaining-length encoder is swept over all 2^28 lengths (thorough) against a
Go transliteration of RemLen that was first compared with TLC's own evaluation of RemLen.

What the statement leaves open is recorded, never judged:
  * CONNECT with a password but no user name (MQTT-3.1.2-22 cannot be satisfied while carrying the
    requested password) - vectors with ok = false;
  * SUBSCRIBE / UNSUBSCRIBE with an empty list;
  * payload length exactly equal to MaxPayloadLen (the code refuses it, the statement only demands
    refusal above the maximum)."""
import concurrent.futures
import hashlib
import json
import math
import os
import random
import sys
import time

sys.path.insert(0, os.path.dirname(os.path.abspath(__file__)))
import vlib  # noqa: E402

PID = "C05"
MAXLEN = 268435455
BOUNDS = [127, 128, 16383, 16384, 2097151, 2097152, MAXLEN]

ASSUMPTIONS = [
    "Oracle = spec/Codec.tla, an executable definition of the MQTT 3.1.1 wire format written from the standard; the claim is agreement of "
    "the code with that definition on the generated inputs (plus the full remaining-length sweep), not a proof for all inputs.",
    "The Go transliteration of RemLen used for the 2^28 sweep is trusted only after it agreed with TLC's evaluation of RemLen on the dumped table "
    "(all n < 20000, every class boundary +-3, 128 values per byte position, seeded spread).",
    "DUP = 1 on the encode side is produced the only way the API allows: an interrupted QoS>0 Publish whose ErrorWithRetry.Retry runs on a second client.",
    "Packet identifiers are forced with Message.ID (PUBLISH) and VerifSetIDLast (SUBSCRIBE/UNSUBSCRIBE); C15 covers identifier allocation.",
    "Strings are valid UTF-8 without U+0000 and topics contain no wildcards: the client does not validate them and the statement does not ask it to.",
    "CONNECT with password but without user name, empty SUBSCRIBE/UNSUBSCRIBE lists and payload length == MaxPayloadLen are outside the statement: recorded as observations only.",
    "ProtocolLevel 3 is encoded with protocol name \"MQTT\" as the task defines; whether a 3.1 broker (\"MQIsdp\") accepts it is not part of C05.",
    "The transport accepts every Write completely (len(p), nil); partial writes belong to C10.",
    "Rejections are exercised through BaseClient.Publish; RetryClient.Publish delegates to the same BaseClient.ValidateMessage and is not driven here.",
]


# ---------------------------------------------------------------------------------------
# inputs of the TLC run
# ---------------------------------------------------------------------------------------
def seed_module(rng, thorough):
    """CodecSeed.tla: seeded PUBLISH parameters (rows satisfy PublishOK)."""
    rows = []

    def row(tl, pl):
        q = rng.choice((0, 1, 2))
        dup = rng.choice((0, 1)) if q > 0 else 0
        pid = rng.randint(1, 65535) if q > 0 else rng.choice((0, rng.randint(1, 65535)))
        rows.append((q, rng.choice((0, 1)), dup, pid, tl, rng.randrange(26), pl, rng.randrange(256), rng.choice((0, 1, 1, 3, 7, 255))))

    n_small, n_med, n_big = (6000, 300, 120) if thorough else (300, 12, 8)
    for _ in range(n_small):
        row(rng.choice((rng.randint(1, 12), rng.randint(1, 300))), rng.choice((rng.randint(0, 40), rng.randint(0, 2000))))
    for _ in range(n_med):
        row(rng.randint(1, 600), rng.randint(2000, 66000))
    for _ in range(n_big):            # not expanded inside TLC: head only
        row(rng.randint(1, 64), int(math.exp(rng.uniform(math.log(70001), math.log(8 << 20)))))
    body = ",\n  ".join("<<%s>>" % ", ".join(str(x) for x in r) for r in rows)
    return ("---- MODULE CodecSeed ----\n(* generated from VERIF_SEED by checks/c05_codec.py *)\nSeedParams == <<\n  %s >>\n====\n" % body), len(rows)


def tlc_cfg(rng, thorough):
    n = 80000 if thorough else 1500
    off = rng.randrange(1 << 28)
    lo, hi = (1 << 28) // n + 1, ((1 << 31) - 1 - off) // n      # spread over the whole range, no 32-bit overflow in TLC
    stride = rng.randrange(lo, hi) | 1
    return "CONSTANTS\n Thorough = %s\n SpreadOffset = %d\n SpreadStride = %d\n SpreadN = %d\n" % (
        "TRUE" if thorough else "FALSE", off, stride, n)


# ---------------------------------------------------------------------------------------
# scenarios
# ---------------------------------------------------------------------------------------
def vec_key(v):
    d = {k: v[k] for k in v if k not in ("id", "explicit")}
    return hashlib.sha1(json.dumps(d, sort_keys=True).encode()).hexdigest()


def near(bounds, w, lo=0, hi=MAXLEN):
    return sorted({n for b in bounds for n in range(b - w, b + w + 1) if lo <= n <= hi})


def build_scenarios(vectors, table_path, rng, thorough):
    sc = []
    seen_wire = set()
    for i, v in enumerate(vectors):
        op = v["op"]
        if op == "connect":
            sc.append({"id": "connect-%d" % i, "op": "connect", "o": v["o"], "exp": v["exp"], "explicit": rng.random() < 0.5,
                       "_open": not v["ok"]})
        elif op == "msg":
            base = {"m": v["m"], "head": v["head"], "rel": v["rel"]}
            sc.append(dict(base, id="publish-%d" % i, op="publish"))
            if not v["m"].get("dup") and i % 4 == 0:
                # the caller's struct still carries Dup=true from an earlier use: a first transmission has DUP=0
                sc.append(dict(base, id="publish-staledup-%d" % i, op="publish", staleDup=True))
            wk = json.dumps([v["head"], v["m"]["payload"]])
            if wk not in seen_wire:
                seen_wire.add(wk)
                sc.append({"id": "inbound-%d" % i, "op": "inbound", "m": v["m"], "head": v["head"], "ack1": v["ack1"], "ack2": v["ack2"]})
        elif op == "reject":
            sc.append({"id": "reject-%d" % i, "op": "publish", "m": v["m"], "max": v["max"], "head": v["head"], "rel": v["rel"],
                       "_expect": v["expect"], "_badqos": v["badqos"], "_toolong": v["toolong"]})
        elif op == "subscribe":
            sc.append({"id": "subscribe-%d" % i, "op": "subscribe", "pid": v["id"], "subs": v["subs"], "exp": v["exp"], "_open": v["open"]})
        elif op == "unsubscribe":
            sc.append({"id": "unsubscribe-%d" % i, "op": "unsubscribe", "pid": v["id"], "fs": v["fs"], "exp": v["exp"], "_open": v["open"]})
        elif op in ("ping", "disconnect"):
            sc.append({"id": op, "op": op, "exp": v["exp"]})
        else:
            raise vlib.Infra("unknown vector op %r" % op)
    # remaining length: TLC table, then the sweep
    sc.append({"id": "remlen-table", "op": "remlen_table", "path": table_path})
    total = MAXLEN + 1
    nchunks = 512
    step = total // nchunks
    stride = 1 if thorough else 64
    for c in range(nchunks):
        s = {"id": "remlen-sweep-%d" % c, "op": "remlen_sweep", "from": c * step + (0 if thorough else rng.randrange(stride)),
             "to": (c + 1) * step, "stride": stride}
        if c == 0:
            s["lens"] = near(BOUNDS, 3)
        sc.append(s)
    # decode side of the length codec
    small = list(range(20000))
    for c in range(0, 20000, 1000):
        sc.append({"id": "readpacket-%d" % c, "op": "readpacket", "lens": small[c:c + 1000]})
    sc.append({"id": "readpacket-b3", "op": "readpacket", "lens": near([2097151, 2097152], 3)})
    top = near([MAXLEN], 3) if thorough else [MAXLEN]
    for n in top:
        sc.append({"id": "readpacket-%d" % n, "op": "readpacket", "lens": [n]})
    nlarge, cap = (300, MAXLEN) if thorough else (24, 32 << 20)
    large = sorted(int(math.exp(rng.uniform(math.log(20000), math.log(cap)))) for _ in range(nlarge))
    for j in range(0, nlarge, 4):
        sc.append({"id": "readpacket-L%d" % j, "op": "readpacket", "lens": large[j:j + 4]})
    return sc


def strip(s):
    return {k: v for k, v in s.items() if not k.startswith("_")}


def run_scenarios(binary, scenarios, conc=2):
    d = vlib.scratch("verif-c05-")
    inp = os.path.join(d, "scenarios.ndjson")
    vlib.ndjson_write(inp, [strip(s) for s in scenarios])
    p = vlib.run_drive(binary, ["run", "codec", "-j", str(vlib.NCPU), "-c", str(conc), "-timeout", "120s"], stdin=open(inp).read(), timeout=1500)
    if p.returncode != 0:
        raise vlib.Infra("driver failed rc=%s: %s" % (p.returncode, p.stderr[-2000:]))
    res = {}
    for line in p.stdout.splitlines():
        if line.strip():
            r = json.loads(line)
            res[r["id"]] = r
    missing = [s["id"] for s in scenarios if s["id"] not in res]
    if missing:
        raise vlib.Infra("driver returned no result for %d scenarios, e.g. %s" % (len(missing), missing[:3]))
    return res


# ---------------------------------------------------------------------------------------
# judgement
# ---------------------------------------------------------------------------------------
KIND = {"connect": "encode_connect", "publish": "encode_publish", "inbound": "decode_publish", "subscribe": "encode_subscribe",
        "unsubscribe": "encode_unsubscribe", "ping": "encode_pingreq", "disconnect": "encode_disconnect",
        "remlen_table": "remaining_length", "remlen_sweep": "remaining_length", "readpacket": "remaining_length_decode"}


def small_replay(s):
    """The scenario as replay object (long literal arrays are kept: the scenario must be re-runnable)."""
    r = dict(s)
    if r["op"] == "remlen_table":
        r = {"id": "remlen-replay", "op": "remlen_sweep", "from": 0, "to": 20000, "stride": 1, "lens": near(BOUNDS, 3)}
    return r


def judge(s, r):
    """Returns (verdict, kind, detail): verdict in ok | open | violation | harness."""
    kind = KIND[s["op"]]
    if "infra" in r:
        return "harness", kind, r["infra"]
    if "crash" in r:
        return "violation", "panic_" + kind, "the client process died on this vector: " + r["crash"][-600:]
    facts = r.get("facts") or {}
    if facts.get("harness"):
        return "harness", kind, r.get("why", "")
    if "_expect" in s:                       # rejection vectors
        kind = "reject"
        nothing = facts.get("writes_after_connect") == 0
        refused = not facts.get("err_nil")
        if s["_expect"] == "reject":
            if not nothing:
                return "violation", "written_before_reject", "a message the protocol cannot carry (qos=%d, payload %d bytes, MaxPayloadLen=%d) reached the transport: %d bytes in %d writes; error: %s" % (
                    s["m"]["qos"], s["m"]["payload"]["n"], s["max"], facts.get("bytes_after_connect"), facts.get("writes_after_connect"), facts.get("err"))
            if not refused:
                return "violation", "not_rejected", "Publish returned nil for qos=%d payload %d bytes MaxPayloadLen=%d" % (s["m"]["qos"], s["m"]["payload"]["n"], s["max"])
            # length == maximum is refused by the code with ErrPayloadLenExceeded (left open by the statement),
            # so that error is also acceptable for an invalid QoS carried by such a message
            atmax = s["max"] > 0 and s["m"]["payload"]["n"] >= s["max"]
            good = (s["_badqos"] and facts.get("err_is_qos")) or ((s["_toolong"] or atmax) and facts.get("err_is_len"))
            if not good:
                return "violation", "wrong_reject_error", "qos=%d payload %d MaxPayloadLen=%d rejected with %r (errors.Is ErrInvalidQoS=%s ErrPayloadLenExceeded=%s)" % (
                    s["m"]["qos"], s["m"]["payload"]["n"], s["max"], facts.get("err"), facts.get("err_is_qos"), facts.get("err_is_len"))
            return "ok", kind, ""
        if s["_expect"] == "open":
            if (nothing and refused) or (r.get("ok") and facts.get("err_nil")):
                return "open", kind, "payload length == MaxPayloadLen: (max=%d) %s" % (s["max"], "refused, nothing written" if refused else "emitted")
            return "violation", "encode_publish", r.get("why") or "neither refused cleanly nor emitted as specified"
        if r.get("ok") and facts.get("err_nil"):
            return "ok", kind, ""
        return "violation", "encode_publish", r.get("why") or ("carriable message refused: %s" % facts.get("err"))
    if s.get("_open"):
        return "open", kind, "%s: written %s%s" % (s["op"], facts.get("written", ""), "" if r.get("ok") else " (differs from the spec's encoding: %s)" % r.get("why"))
    if r.get("ok"):
        return "ok", kind, ""
    return "violation", kind, r.get("why", "")


def describe(s):
    op = s["op"]
    if op in ("publish", "inbound"):
        m = s["m"]
        return "%s qos=%d retain=%s dup=%s id=%d topic %d bytes payload %d bytes%s" % (
            op, m["qos"], m["retain"], m["dup"], m["id"], len(m["topic"]["pre"]) + m["topic"]["n"], len(m["payload"]["pre"]) + m["payload"]["n"],
            (" MaxPayloadLen=%d" % s["max"]) if s.get("max") else "")
    if op == "connect":
        o = s["o"]
        return "connect level=%d clean=%s keepalive=%d clientid %d bytes will=%s(q%d,r=%s) user=%s pass=%s" % (
            o["level"], o["clean"], o["keepalive"], len(o["clientid"]), o["hasWill"], o["willQos"], o["willRetain"], o["hasUser"], o["hasPass"])
    if op == "subscribe":
        return "subscribe id=%d %s" % (s["pid"], [(len(x["filter"]["pre"]) + x["filter"]["n"], x["qos"]) for x in s["subs"]])
    if op == "unsubscribe":
        return "unsubscribe id=%d filter lengths %s" % (s["pid"], [len(x["pre"]) + x["n"] for x in s["fs"]])
    return s["id"]


def hexs(a, n=24):
    return "".join("%02x" % x for x in a[:n]) + ("..." if len(a) > n else "")


def evaluate(scenarios, results, v):
    stats = {"ok": 0, "open": 0, "violation": 0, "packets": 0, "lengths": 0, "by_op": {}}
    distinct = set()
    observations = {}
    per_kind = {}
    harness = []
    for s in scenarios:
        r = results[s["id"]]
        verdict, kind, detail = judge(s, r)
        if verdict == "harness":
            harness.append("%s: %s" % (s["id"], detail))
            continue
        stats[verdict] += 1
        n = int(r.get("packets") or 0)
        if s["op"] in ("remlen_table", "remlen_sweep", "readpacket"):
            stats["lengths"] += n
        else:
            stats["packets"] += n
            cls = "reject" if "_expect" in s else KIND[s["op"]]
            stats["by_op"][cls] = stats["by_op"].get(cls, 0) + 1
            if n > 0 or "_expect" in s:
                distinct.add(vec_key(strip(s)))
        if verdict == "open":
            key = detail.split(":")[0] if s["op"] != "connect" else "connect password without user name"
            if key not in observations:
                observations[key] = {"count": 0, "example": describe(s), "client": detail}
            observations[key]["count"] += 1
        if verdict == "violation":
            per_kind[kind] = per_kind.get(kind, 0) + 1
            if per_kind[kind] <= 3:
                v.witness(kind, s["id"], "%s: %s" % (describe(s), detail), {"scenario": small_replay(s), "result": r})
    return stats, distinct, observations, harness, per_kind


def samples(scenarios, results, rng):
    out = []
    want = ["connect", "publish", "inbound", "subscribe", "unsubscribe", "remlen_sweep", "readpacket"]
    for op in want:
        cand = [s for s in scenarios if s["op"] == op and not s.get("_open")]
        if not cand:
            continue
        for s in rng.sample(cand, min(2, len(cand))):
            r = results[s["id"]]
            e = {"id": s["id"], "input": describe(s), "agrees": bool(r.get("ok")), "compared": r.get("packets")}
            if "exp" in s:
                e["spec_bytes"] = hexs(s["exp"], 40)
            if "head" in s and s["head"]:
                e["spec_head"] = hexs(s["head"], 16)
            if op == "remlen_sweep":
                e["range"] = [s["from"], s["to"], s["stride"]]
            out.append(e)
    return out


def tlc_and_build(rng, thorough):
    cfg = tlc_cfg(rng, thorough)
    seedmod, nseeded = seed_module(rng, thorough)
    with concurrent.futures.ThreadPoolExecutor(max_workers=1) as ex:
        fut = ex.submit(vlib.tlc, "CodecGen", cfg="CodecGen.cfg", files={"CodecGen.cfg": cfg, "CodecSeed.tla": seedmod},
                        workers=1, timeout=420 if thorough else 120, heap="8g")
        binary = vlib.build_harness()
        r = fut.result()
    if r.rc != 0 and ("Assumption" in r.out or "is false" in r.out):
        tail = "\n".join(r.out.splitlines()[-40:])
        raise vlib.Infra("a consistency lemma of spec/Codec.tla is false - the SPECIFICATION is wrong, not the code:\n" + tail)
    vlib.tlc_ok(r, "CodecGen (lemmas + vector dump)")
    vec_path = os.path.join(r.dir, "vectors.ndjson")
    table_path = os.path.join(r.dir, "remlen.ndjson")
    if not (os.path.exists(vec_path) and os.path.exists(table_path)):
        raise vlib.Infra("TLC did not write the vector files:\n" + r.out[-2000:])
    return binary, vlib.ndjson_read(vec_path), table_path, r, nseeded


def run(tier):
    t0 = time.time()
    thorough = tier == "thorough"
    rng = random.Random(vlib.seed() * 7919 + 5)
    binary, vectors, table_path, r, nseeded = tlc_and_build(rng, thorough)
    t_tlc = time.time() - t0
    scenarios = build_scenarios(vectors, table_path, rng, thorough)
    results = run_scenarios(binary, scenarios)
    v = vlib.Verdicts(PID)
    stats, distinct, observations, harness, per_kind = evaluate(scenarios, results, v)
    notes = []
    if harness:
        # vectors whose bytes agreed with the specification but whose API call failed / timed out (not a C05 matter by
        # itself): a sample is re-run alone; persistent trouble without any genuine disagreement is an infrastructure error
        ids = {h.split(":")[0] for h in harness}
        again = [s for s in scenarios if s["id"] in ids][:8]
        res2 = run_scenarios(binary, again, conc=1)
        bad = [(s, judge(s, res2[s["id"]])) for s in again]
        bad = [(s, j) for s, j in bad if j[0] == "harness"]
        if bad and not v.violations:
            raise vlib.Infra("driver trouble on %d vectors, e.g. %s: %s" % (len(harness), bad[0][0]["id"], bad[0][1][2]))
        notes.append("%d vectors wrote the specification's bytes but the API call then failed (e.g. %s); not judged" % (len(harness), harness[0][:200]))
    # inbound time-outs are liveness stand-ins: confirm alone before reporting
    keep = []
    for kind, where, detail, replay in v.violations:
        if kind == "decode_publish" and (replay["result"].get("facts") or {}).get("timeout"):
            s = next(x for x in scenarios if x["id"] == where)
            r2 = run_scenarios(binary, [s], conc=1)[where]
            if judge(s, r2)[0] != "violation":
                continue
        keep.append((kind, where, detail, replay))
    v.violations = keep
    # packets that are sent AGAIN (PUBLISH with DUP, PUBREL after a lost PUBCOMP, repeated SUBSCRIBE / UNSUBSCRIBE,
    # re-subscriptions) and acknowledgements of inbound traffic come from other code paths than first transmissions: the
    # retrying client is driven through cuts and swallowed acknowledgements at every position, the broker model's
    # independent decoder judges every packet (observer C05_PacketsWellFormed, spec/MqttEnv.tla)
    import retry_family as rf
    fam = rf.Family(PID)
    fam.verd = v
    P, S, U = rf.PUB, rf.SUB, rf.UNSUB
    rsc = []
    for w in ([P(1)], [P(2)], [P(0), P(2)], [S(("x", 1), ("y", 2))], [U("x", "y")], [S(("x", 2)), P(2), U("x")], [P(2, True), P(1, True)]):
        for k in range(2, 7):
            for o in ("cutBefore", "cutAfter"):
                rsc.append(rf.scenario("wf-%d" % len(rsc), w, ["conn"] * len(w), [{"k": k, "o": o}], connacks=[{}, {"sp": "false"}] if k % 2 else []))
                rsc.append(rf.scenario("wf-%d" % len(rsc), w, ["conn"] * len(w), [{"k": k, "o": o}, {"k": k + 2, "o": "cutAfter"}]))
            for o in ("dropReq", "dropAck"):
                rsc.append(rf.scenario("wf-%d" % len(rsc), w, ["conn"] * len(w), [{"k": k, "o": o}], opts={"respTimeoutMs": 40, "connTimeoutMs": 80}))
    for q in (1, 2):
        inbound = [{"g": 1, "after": 0, "q": q, "tag": 101}, {"g": 2, "after": 0, "q": q, "tag": 102, "dup": True}]
        rsc.append(rf.scenario("wf-%d" % len(rsc), [{"k": "handle", "h": 1}, P(1)], ["pre", "conn"], [{"k": 2, "o": "cutAfter"}], inbound=inbound))
    # payload over the configured maximum handed to the retrying / reconnecting client: before the first connection exists
    # (queued), while connected, during an outage -- nothing of it may reach the wire, what is within the limit does
    for mx in (64, 1000):
        for q in (0, 1, 2):
            for tm in ("pre", "conn", "dial:2"):
                big, ok = dict(P(q), size=mx + 50), dict(P(q), size=mx - 10)
                fl = [{"p": "PUBLISH", "n": 1, "o": "cutAfter"}] if tm == "dial:2" else []
                first = [P(1)] if tm == "dial:2" else []
                w = first + [big, ok]
                rsc.append(rf.scenario("mx-%d" % len(rsc), w, ["conn"] * len(first) + [tm, tm if tm != "pre" else "pre"], fl, opts={"maxPayload": mx}))
    fam.execute(binary, rsc)
    import dialer_family
    dialer_runs = dialer_family.c05(binary, v)
    rc = v.finish()
    nlens = len(vlib.ndjson_read(table_path))
    cov = {
        "evaluations": stats["packets"] + stats["lengths"],
        "distinct_nontrivial": len(distinct),
        "rule": "a vector = (operation, input) generated by TLC from spec/CodecGen.tla; counted once per distinct input (SHA-1 of the scenario without its id) "
                "and only if at least one packet / delivered message was compared with the specification or a rejection was checked; "
                "lengths of the remaining-length sweeps are counted separately in lengths_checked",
        "packets_compared": stats["packets"],
        "lengths_checked": stats["lengths"],
        "vectors_by_kind": stats["by_op"],
        "vectors_agreeing": stats["ok"],
        "observations_outside_statement": observations,
        "tlc": {"lemmas": ["LemmaRemLenAll", "LemmaNonMinimal", "LemmaConnectAll", "LemmaConnectFlags", "LemmaPublishAll", "LemmaPublishLong",
                           "LemmaAcksAll", "LemmaBare", "LemmaSubscribeAll", "LemmaUnsubscribeAll"],
                "remlen_table_rows": nlens, "vectors_dumped": len(vectors), "seeded_messages": nseeded, "wall_s": round(r.wall, 1)},
        "remaining_length_sweep": {"range": [0, MAXLEN], "stride": 1 if thorough else 64, "exhaustive": thorough},
        "exhaustive": False,
        "violations_by_kind": per_kind,
        "samples": samples(scenarios, results, rng),
    }
    vlib.write_evidence(PID, tier, "exploration", cov, time.time() - t0, ASSUMPTIONS, violations=len(v.violations))
    print("C05 codec: TLC checked %d lemmas, dumped %d vectors + %d remaining-length rows (%.0fs); %d scenarios on the real client: "
          "%d packets/messages compared, %d lengths checked, %d distinct vectors, %d outside the statement (recorded); %.0fs"
          % (len(cov["tlc"]["lemmas"]), len(vectors), nlens, r.wall, len(scenarios), stats["packets"], stats["lengths"], len(distinct),
             stats["open"], time.time() - t0))
    for n in notes:
        print("  note: " + n)
    for k, o in sorted(observations.items()):
        print("  note (outside the statement): %s x%d, e.g. %s -> %s" % (k, o["count"], o["example"], o["client"][:160]))
    return rc


def replay(path):
    body = json.load(open(path))
    s = body["replay"]["scenario"]
    binary = vlib.build_harness()
    res = run_scenarios(binary, [s], conc=1)
    v = vlib.Verdicts(PID)
    r = res[s["id"]]
    verdict, kind, detail = judge(s, r)
    if verdict == "harness":
        raise vlib.Infra(detail)
    if verdict == "violation":
        v.witness(kind, s["id"], "%s: %s" % (describe(s), detail), {"scenario": s, "result": r})
    return v.finish()
