------------------------------ MODULE FramerGen ------------------------------
(* C06: concrete packet templates (one or more per clause of the statement), each with the verdict the
   specification must give it -- checked here by TLC, so the table doubles as a regression test of
   module Framer -- dumped for the driver, which feeds every sequence of up to three templates
   (and seeded mutations) to the real client. *)
EXTENDS Framer, Json, SequencesExt

P(first, body) == <<first, Len(body)>> \o body          \* packet with a one-byte remaining length
T(name, bytes, v) == [name |-> name, bytes |-> bytes, v |-> v]

Templates == {
  T("pingresp", P(208, << >>), "ok"), T("puback", P(64, <<0, 7>>), "ok"), T("pubrec", P(80, <<0, 7>>), "ok"),
  T("pubrel", P(98, <<0, 9>>), "ok"), T("pubcomp", P(112, <<0, 7>>), "ok"), T("suback", P(144, <<0, 7, 1>>), "ok"),
  T("suback-fail", P(144, <<0, 7, 128, 0>>), "ok"), T("unsuback", P(176, <<0, 7>>), "ok"),
  T("pub0", P(48, <<0, 1, 97, 66>>), "ok"), T("pub0-retain", P(49, <<0, 2, 97, 47, 1, 2, 3>>), "ok"),
  T("pub1", P(50, <<0, 1, 98, 0, 5, 66>>), "ok"), T("pub1-dup", P(58, <<0, 1, 98, 0, 5>>), "ok"),
  T("pub2", P(52, <<0, 1, 99, 0, 9, 67>>), "ok"), T("pub0-emptypayload", P(48, <<0, 1, 97>>), "ok"),
  \* the statement's list of malformed input
  T("pingresp-flags", P(209, << >>), "bad"), T("puback-flags", P(66, <<0, 7>>), "bad"), T("pubrec-flags", P(81, <<0, 7>>), "bad"),
  T("pubrel-flags0", P(96, <<0, 9>>), "bad"), T("pubcomp-flags", P(120, <<0, 7>>), "bad"), T("suback-flags", P(146, <<0, 7, 1>>), "bad"),
  T("unsuback-flags", P(177, <<0, 7>>), "bad"), T("connack-flags", P(33, <<0, 0>>), "bad"),
  T("pub-qos3", P(54, <<0, 1, 97, 0, 1>>), "bad"), T("pub-qos3-retain", P(55, <<0, 1, 97, 0, 1>>), "bad"),
  T("type0", P(0, << >>), "bad"), T("type15", P(240, << >>), "bad"), T("connect", P(16, <<0, 4, 77, 81, 84, 84, 4, 0, 0, 0, 0, 0>>), "bad"),
  T("subscribe", P(130, <<0, 1, 0, 1, 97, 0>>), "bad"), T("unsubscribe", P(162, <<0, 1, 0, 1, 97>>), "bad"),
  T("pingreq", P(192, << >>), "bad"), T("disconnect", P(224, << >>), "bad"),
  T("puback-empty", P(64, << >>), "bad"), T("puback-1", P(64, <<0>>), "bad"), T("pubrec-1", P(80, <<1>>), "bad"),
  T("pubrel-1", P(98, <<1>>), "bad"), T("pubcomp-empty", P(112, << >>), "bad"), T("unsuback-1", P(176, <<0>>), "bad"),
  T("suback-empty", P(144, << >>), "bad"), T("suback-1", P(144, <<0>>), "bad"), T("connack-1", P(32, <<0>>), "bad"),
  T("connack-empty", P(32, << >>), "bad"),
  T("pub-empty", P(48, << >>), "bad"), T("pub-1", P(48, <<0>>), "bad"), T("pub-topic-overrun", P(48, <<0, 5, 97, 98>>), "bad"),
  T("pub1-noid", P(50, <<0, 1, 97>>), "bad"), T("pub2-halfid", P(52, <<0, 1, 97, 0>>), "bad"),
  T("pub-nul-topic", P(48, <<0, 2, 97, 0, 66>>), "bad"), T("pub-nul-only", P(48, <<0, 1, 0>>), "bad"),
  \* string length fields at the edges of 16-bit arithmetic (a declared length that overruns the body by far)
  T("pub-topiclen-ffff", P(48, <<255, 255, 97>>), "bad"), T("pub-topiclen-fffe", P(48, <<255, 254, 97, 98, 99>>), "bad"),
  T("pub-topiclen-fffd", P(48, <<255, 253, 97>>), "bad"), T("pub-topiclen-ffff-only", P(48, <<255, 255>>), "bad"),
  T("pub-topiclen-8000", P(48, <<128, 0, 97, 98>>), "bad"), T("pub-topiclen-7fff", P(48, <<127, 255, 97>>), "bad"),
  T("pub1-topiclen-ffff", P(50, <<255, 255, 0, 1>>), "bad"), T("pub2-topiclen-fffe", P(52, <<255, 254, 0, 1, 66, 67>>), "bad"),
  T("pub-topiclen-0100", P(48, <<1, 0, 97, 98, 99>>), "bad"),
  \* where the statement is silent
  T("puback-long", P(64, <<0, 7, 0>>), "either"), T("pingresp-body", P(208, <<1>>), "either"), T("connack-again", P(32, <<0, 0>>), "either"),
  T("connack-long", P(32, <<0, 0, 0>>), "either"), T("pub-emptytopic", P(48, <<0, 0, 66>>), "either"),
  T("pub-nonascii", P(48, <<0, 2, 195, 169, 66>>), "either"), T("pub-badutf8", P(48, <<0, 1, 255, 66>>), "either"),
  T("pub0-dup", P(56, <<0, 1, 97, 66>>), "either"), T("pub1-id0", P(50, <<0, 1, 97, 0, 0>>), "either"),
  T("pub-wild", P(48, <<0, 1, 35, 66>>), "either"), T("suback-code3", P(144, <<0, 7, 3>>), "either")
}
\* packets that are not built with P: length-field cases
Special == {
  T("len5", <<48, 255, 255, 255, 255, 1>>, "dies"), T("len5-zero", <<208, 128, 128, 128, 128, 0>>, "dies"),
  T("len9", <<64, 255, 255, 255, 255, 255, 255, 255, 255, 127>>, "dies"),
  T("len-nonminimal", <<208, 128, 0>>, "either"), T("len-nonminimal2", <<64, 130, 0, 0, 7>>, "either"),
  T("truncated-body", <<48, 10, 0, 1, 97>>, "waits"), T("truncated-len", <<48, 255>>, "waits"), T("one-byte", <<48>>, "waits"),
  T("len-huge-truncated", <<48, 255, 255, 255, 127, 0, 1>>, "waits")
}

Verdict(t) == LET b == t.bytes  L == LenAt(b, 2, 0, 1, 0) IN PV(b[1] \div 16, b[1] % 16, Sub(b, 2 + L.k, L.n)).v
ASSUME \A t \in Templates : Assert(Verdict(t) = t.v, <<"template verdict differs", t.name, Verdict(t)>>)
ASSUME \A t \in Special :
  LET o == Outcomes(t.bytes, 1, << >>) IN
  Assert(CASE t.v = "dies" -> o = {[ho |-> << >>, died |-> TRUE]}
           [] t.v = "waits" -> o = {[ho |-> << >>, died |-> FALSE]}
           [] OTHER -> {x.died : x \in o} = {TRUE, FALSE}, <<"special template", t.name, o>>)
ASSUME ndJsonSerialize("framer_templates.ndjson", SetToSeq(Templates \cup Special))
=============================================================================
