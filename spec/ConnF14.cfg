SPECIFICATION Spec
CONSTANTS
  WithDisconnect = TRUE
  WithLocalClose = FALSE
  WithKeepAliveErr = FALSE
  WithCtxCancel = FALSE
CHECK_DEADLOCK FALSE
INVARIANTS NoClosedAfterDisconnected
