SPECIFICATION Spec
CONSTANTS
  WithDisconnect = TRUE
  WithLocalClose = FALSE
  WithKeepAliveErr = FALSE
  WithCtxCancel = FALSE
  WithKeepAlive = FALSE
  BugKaNoCtxCheck = FALSE
  BugKaNoDiscCheck = FALSE
  BugReaderAfterWrite = FALSE
CHECK_DEADLOCK FALSE
INVARIANTS NoClosedAfterDisconnected
