------------------------------- MODULE Codec -------------------------------
(***************************************************************************)
(* Property C05: an independent, executable definition of the MQTT 3.1.1   *)
(* wire format of every control packet a client emits, and of the PUBLISH  *)
(* packet a client receives.                                               *)
(*                                                                         *)
(* Written from the OASIS standard "MQTT Version 3.1.1" (sections 1.5.3,   *)
(* 2.2, 2.3.1, 3.1, 3.3, 3.4-3.7, 3.8, 3.10, 3.12, 3.14), NOT from the Go  *)
(* code.  A byte is an integer 0..255, a packet / a UTF-8 string / a       *)
(* payload is a sequence of bytes.  The module has no constants and no     *)
(* behaviour: it is a library of operators that TLC evaluates              *)
(* (CodecGen.tla checks the lemmas at the end of this module and dumps     *)
(* test vectors computed with the encoders).                               *)
(***************************************************************************)
EXTENDS Integers, Sequences

Byte == 0..255

(* The largest value of the Remaining Length field (2.2.3): 128^4 - 1.     *)
MaxRemLen == 268435455

B(b) == IF b THEN 1 ELSE 0                      \* a flag as a bit value
Bit(v, k) == (v \div (2 ^ k)) % 2 = 1           \* bit k (0 = least significant) of v

(***************************************************************************)
(* 2.2.3 Remaining Length.  The encoding algorithm of the standard:        *)
(*     do  encodedByte = X MOD 128;  X = X DIV 128                         *)
(*         if (X > 0) encodedByte = encodedByte OR 128                     *)
(*         'output' encodedByte                                            *)
(*     while (X > 0)                                                       *)
(***************************************************************************)
RECURSIVE RemLen(_)
RemLen(n) == IF n \div 128 > 0
               THEN <<(n % 128) + 128>> \o RemLen(n \div 128)
               ELSE <<n % 128>>

(* The decoding algorithm of the standard: the field ends with the first   *)
(* byte whose continuation bit (128) is clear; byte j (1-based) carries    *)
(* the 7-bit digit of weight 128^(j-1).  RemLenSize is the number of bytes *)
(* of the field that starts at position 1 of bs (at most 4 are legal).     *)
RemLenSize(bs) == CHOOSE k \in 1..Len(bs) : bs[k] < 128 /\ \A j \in 1..(k - 1) : bs[j] >= 128
HasRemLen(bs)  == \E k \in 1..(IF Len(bs) < 4 THEN Len(bs) ELSE 4) : bs[k] < 128 /\ \A j \in 1..(k - 1) : bs[j] >= 128

RECURSIVE DigitsValue(_, _)
DigitsValue(bs, k) == IF k = 0 THEN 0 ELSE DigitsValue(bs, k - 1) + (bs[k] % 128) * (128 ^ (k - 1))
DecodeRemLen(bs) == DigitsValue(bs, RemLenSize(bs))

(* The number of bytes of the MINIMAL encoding of n: 1 + floor(log128 n)   *)
(* (1 for n = 0): k bytes can express at most 128^k - 1.                   *)
MinRemLenSize(n) == IF n < 128 THEN 1 ELSE IF n < 16384 THEN 2 ELSE IF n < 2097152 THEN 3 ELSE 4

(* 1.5.2 / 1.5.3: 16-bit big-endian integer; length-prefixed string/binary *)
U16(v) == <<v \div 256, v % 256>>
Str(s) == U16(Len(s)) \o s

(* 2.2 Fixed header: type in bits 7-4, flags in bits 3-0, remaining length *)
Packet(type, flags, body) == <<16 * type + flags>> \o RemLen(Len(body)) \o body

(***************************************************************************)
(* 3.1 CONNECT.  o is a record                                             *)
(*   [level, clean, keepalive, clientid,                                   *)
(*    hasWill, willTopic, willMsg, willQos, willRetain,                    *)
(*    hasUser, user, hasPass, pass]                                        *)
(* Variable header: protocol name "MQTT", protocol level, connect flags,   *)
(* keep alive.  Connect flags (3.1.2.3 ff.): bit0 reserved = 0, bit1 clean *)
(* session, bit2 will flag, bits 3-4 will QoS, bit5 will retain (both 0    *)
(* when the will flag is 0), bit6 password flag, bit7 user name flag.      *)
(* Payload (3.1.3): client identifier, will topic, will message, user      *)
(* name, password - in this order, each present iff its flag is set.       *)
(***************************************************************************)
ProtocolName == <<77, 81, 84, 84>>                    \* "MQTT"

ConnectFlags(o) ==   2 * B(o.clean)
                   + 4 * B(o.hasWill)
                   + 8 * (IF o.hasWill THEN o.willQos ELSE 0)
                   + 32 * B(o.hasWill /\ o.willRetain)
                   + 64 * B(o.hasPass)
                   + 128 * B(o.hasUser)

ConnectBody(o) ==    Str(ProtocolName) \o <<o.level, ConnectFlags(o)>> \o U16(o.keepalive)
                  \o Str(o.clientid)
                  \o (IF o.hasWill THEN Str(o.willTopic) \o Str(o.willMsg) ELSE <<>>)
                  \o (IF o.hasUser THEN Str(o.user) ELSE <<>>)
                  \o (IF o.hasPass THEN Str(o.pass) ELSE <<>>)

Connect(o) == Packet(1, 0, ConnectBody(o))

(* Option sets MQTT 3.1.1 can carry in a well-formed packet:               *)
(* [MQTT-3.1.2-22] password flag requires the user name flag;              *)
(* [MQTT-3.1.2-14] will QoS is 0..2.                                       *)
ConnectOptsOK(o) == (o.hasPass => o.hasUser) /\ (o.hasWill => o.willQos \in 0..2)

(***************************************************************************)
(* 3.3 PUBLISH.  m is a record [topic, payload, qos, retain, dup, id].     *)
(* Fixed header flags: bit3 DUP, bits 2-1 QoS, bit0 RETAIN.  Variable      *)
(* header: topic name, then the packet identifier iff QoS > 0 (2.3.1).     *)
(* The rest of the packet is the payload.  PublishHeadFor gives everything *)
(* in front of the payload as a function of the payload LENGTH only, so    *)
(* that vectors with megabyte payloads need not be expanded inside TLC.    *)
(***************************************************************************)
PublishFlags(dup, qos, retain) == 8 * B(dup) + 2 * qos + B(retain)

PublishHeadFor(dup, qos, retain, topic, id, plen) ==
       <<16 * 3 + PublishFlags(dup, qos, retain)>>
    \o RemLen(2 + Len(topic) + (IF qos > 0 THEN 2 ELSE 0) + plen)
    \o Str(topic)
    \o (IF qos > 0 THEN U16(id) ELSE <<>>)

Publish(m) == PublishHeadFor(m.dup, m.qos, m.retain, m.topic, m.id, Len(m.payload)) \o m.payload

(* What the protocol can carry (statement: "QoS above 2, payload over the  *)
(* configured maximum are rejected").  max = 0 means "no configured limit".*)
CarriableFor(qos, plen, max) == qos \in 0..2 /\ (max = 0 \/ plen <= max)
Carriable(m, max) == CarriableFor(m.qos, Len(m.payload), max)

(* Messages a conforming sender may emit: [MQTT-3.3.1-2] DUP = 0 for QoS 0,*)
(* [MQTT-2.3.1-1] non-zero identifier for QoS > 0.                         *)
PublishOK(m) == /\ m.qos \in 0..2
                /\ (m.qos = 0 => ~m.dup)
                /\ (m.qos > 0 => m.id \in 1..65535)

(***************************************************************************)
(* 3.8 SUBSCRIBE (flags 0010): packet identifier, then for every entry in  *)
(* order the topic filter and the requested QoS byte (upper 6 bits 0).     *)
(* 3.10 UNSUBSCRIBE (flags 0010): packet identifier, then the filters.     *)
(* subs: sequence of [filter, qos]; fs: sequence of filters.               *)
(***************************************************************************)
RECURSIVE SubPayload(_)
SubPayload(subs) == IF subs = <<>> THEN <<>>
                    ELSE Str(Head(subs).filter) \o <<Head(subs).qos>> \o SubPayload(Tail(subs))
Subscribe(id, subs) == Packet(8, 2, U16(id) \o SubPayload(subs))

RECURSIVE UnsubPayload(_)
UnsubPayload(fs) == IF fs = <<>> THEN <<>> ELSE Str(Head(fs)) \o UnsubPayload(Tail(fs))
Unsubscribe(id, fs) == Packet(10, 2, U16(id) \o UnsubPayload(fs))

(* 3.4 PUBACK, 3.5 PUBREC, 3.6 PUBREL (flags 0010), 3.7 PUBCOMP: identifier*)
PubAck(id)  == Packet(4, 0, U16(id))
PubRec(id)  == Packet(5, 0, U16(id))
PubRel(id)  == Packet(6, 2, U16(id))
PubComp(id) == Packet(7, 0, U16(id))
(* 3.12 PINGREQ, 3.14 DISCONNECT: fixed header only *)
PingReq    == Packet(12, 0, <<>>)
Disconnect == Packet(14, 0, <<>>)

(***************************************************************************)
(* The independent decoder.                                                *)
(* Framed(bs): bs is exactly one control packet - a first byte, a legal    *)
(* (at most 4 bytes) AND minimal remaining-length field, and exactly that  *)
(* many further bytes.  Frame(bs) splits it.                               *)
(***************************************************************************)
Framed(bs) == /\ Len(bs) >= 2
              /\ \A i \in 1..Len(bs) : bs[i] \in Byte
              /\ HasRemLen(Tail(bs))
              /\ LET k == RemLenSize(Tail(bs))
                     n == DecodeRemLen(Tail(bs))
                 IN  /\ Len(bs) = 1 + k + n
                     /\ SubSeq(bs, 2, 1 + k) = RemLen(n)          \* minimal encoding
Frame(bs) == LET k == RemLenSize(Tail(bs))
             IN  [type |-> bs[1] \div 16, flags |-> bs[1] % 16, body |-> SubSeq(bs, 2 + k, Len(bs))]

(* reads the length-prefixed field that starts at position i of b *)
HasStr(b, i)  == i + 1 <= Len(b) /\ i + 1 + 256 * b[i] + b[i + 1] <= Len(b)
ReadStr(b, i) == LET l == 256 * b[i] + b[i + 1] IN [s |-> SubSeq(b, i + 2, i + 1 + l), next |-> i + 2 + l]
NoStr(i)      == [s |-> <<>>, next |-> i]

(* 2.2.2: flag bits of the fixed header, per packet type a client emits *)
FlagsOK(type, flags) == CASE type = 3 -> (flags \div 2) % 4 # 3          \* PUBLISH: QoS 3 is illegal
                          [] type \in {6, 8, 10} -> flags = 2            \* PUBREL SUBSCRIBE UNSUBSCRIBE
                          [] type \in {1, 4, 5, 7, 12, 14} -> flags = 0
                          [] OTHER -> FALSE                              \* not a packet a client sends

DecodePublish(bs) ==
    LET f == Frame(bs)
        b == f.body
        t == ReadStr(b, 1)
        qos == (f.flags \div 2) % 4
        hasId == qos > 0
    IN  [topic   |-> t.s,
         id      |-> IF hasId THEN 256 * b[t.next] + b[t.next + 1] ELSE 0,
         payload |-> SubSeq(b, t.next + (IF hasId THEN 2 ELSE 0), Len(b)),
         qos |-> qos, retain |-> Bit(f.flags, 0), dup |-> Bit(f.flags, 3)]

PublishWellFormed(bs) ==
    /\ Framed(bs)
    /\ LET f == Frame(bs) IN
       /\ f.type = 3 /\ FlagsOK(3, f.flags)
       /\ HasStr(f.body, 1)
       /\ ((f.flags \div 2) % 4 > 0 => ReadStr(f.body, 1).next + 1 <= Len(f.body))

(* the decoder's view of a message: the identifier exists only for QoS > 0 *)
NormMsg(m) == IF m.qos = 0 THEN [m EXCEPT !.id = 0] ELSE m

DecodeConnect(bs) ==
    LET f  == Frame(bs)
        b  == f.body
        pn == ReadStr(b, 1)
        fl == b[pn.next + 1]
        ci == ReadStr(b, pn.next + 4)
        hw == Bit(fl, 2)
        wt == IF hw THEN ReadStr(b, ci.next) ELSE NoStr(ci.next)
        wm == IF hw THEN ReadStr(b, wt.next) ELSE NoStr(wt.next)
        hu == Bit(fl, 7)
        us == IF hu THEN ReadStr(b, wm.next) ELSE NoStr(wm.next)
        hp == Bit(fl, 6)
        pw == IF hp THEN ReadStr(b, us.next) ELSE NoStr(us.next)
    IN  [name |-> pn.s, level |-> b[pn.next], reserved |-> Bit(fl, 0),
         clean |-> Bit(fl, 1), keepalive |-> 256 * b[pn.next + 2] + b[pn.next + 3],
         clientid |-> ci.s,
         hasWill |-> hw, willTopic |-> wt.s, willMsg |-> wm.s,
         willQos |-> (fl \div 8) % 4, willRetain |-> Bit(fl, 5),
         hasUser |-> hu, user |-> us.s, hasPass |-> hp, pass |-> pw.s,
         exact |-> pw.next = Len(b) + 1]                      \* nothing follows the last field

(* what DecodeConnect must return for options o (absent fields read as empty / 0 / FALSE) *)
NormOpts(o) ==
    [name |-> ProtocolName, level |-> o.level, reserved |-> FALSE,
     clean |-> o.clean, keepalive |-> o.keepalive, clientid |-> o.clientid,
     hasWill |-> o.hasWill,
     willTopic |-> IF o.hasWill THEN o.willTopic ELSE <<>>,
     willMsg   |-> IF o.hasWill THEN o.willMsg ELSE <<>>,
     willQos   |-> IF o.hasWill THEN o.willQos ELSE 0,
     willRetain |-> o.hasWill /\ o.willRetain,
     hasUser |-> o.hasUser, user |-> IF o.hasUser THEN o.user ELSE <<>>,
     hasPass |-> o.hasPass, pass |-> IF o.hasPass THEN o.pass ELSE <<>>,
     exact |-> TRUE]

RECURSIVE ReadSubs(_, _)
ReadSubs(b, i) == IF i > Len(b) THEN <<>>
                  ELSE LET r == ReadStr(b, i) IN <<[filter |-> r.s, qos |-> b[r.next]]>> \o ReadSubs(b, r.next + 1)
DecodeSubscribe(bs) == LET f == Frame(bs) IN
    [type |-> f.type, flags |-> f.flags, id |-> 256 * f.body[1] + f.body[2], subs |-> ReadSubs(f.body, 3)]

RECURSIVE ReadFilters(_, _)
ReadFilters(b, i) == IF i > Len(b) THEN <<>>
                     ELSE LET r == ReadStr(b, i) IN <<r.s>> \o ReadFilters(b, r.next)
DecodeUnsubscribe(bs) == LET f == Frame(bs) IN
    [type |-> f.type, flags |-> f.flags, id |-> 256 * f.body[1] + f.body[2], fs |-> ReadFilters(f.body, 3)]

DecodeAck(bs) == LET f == Frame(bs) IN [type |-> f.type, flags |-> f.flags, id |-> 256 * f.body[1] + f.body[2], len |-> Len(f.body)]

(***************************************************************************)
(* Consistency lemmas of this definition (evaluated by TLC over the sets   *)
(* CodecGen passes in; a lemma that is FALSE for some argument means the   *)
(* SPECIFICATION is wrong, which is an infrastructure error of the check,  *)
(* never a verdict about the code).                                        *)
(***************************************************************************)
(* round trip and minimality of the remaining-length codec *)
LemmaRemLen(n) == LET e == RemLen(n) IN
    /\ \A i \in 1..Len(e) : e[i] \in Byte
    /\ HasRemLen(e) /\ RemLenSize(e) = Len(e)
    /\ DecodeRemLen(e) = n
    /\ Len(e) = MinRemLenSize(n)                           \* = 1 + floor(log128 n)
    /\ (Len(e) > 1 => n >= 128 ^ (Len(e) - 1))             \* no shorter field can express n
    /\ n < 128 ^ Len(e)

(* PUBLISH: decode(encode) = identity, flags/identifier rules *)
LemmaPublish(m) == LET bs == Publish(m) f == Frame(bs) IN
    /\ PublishWellFormed(bs)
    /\ DecodePublish(bs) = NormMsg(m)
    /\ f.flags = PublishFlags(m.dup, m.qos, m.retain)
    /\ Len(f.body) = 2 + Len(m.topic) + (IF m.qos > 0 THEN 2 ELSE 0) + Len(m.payload)   \* id present iff QoS > 0

LemmaConnect(o) == LET bs == Connect(o) f == Frame(bs) IN
    /\ Framed(bs) /\ f.type = 1 /\ FlagsOK(1, f.flags)
    /\ DecodeConnect(bs) = NormOpts(o)

LemmaSubscribe(id, subs) == LET bs == Subscribe(id, subs) IN
    /\ Framed(bs) /\ FlagsOK(8, Frame(bs).flags)
    /\ DecodeSubscribe(bs) = [type |-> 8, flags |-> 2, id |-> id, subs |-> subs]

LemmaUnsubscribe(id, fs) == LET bs == Unsubscribe(id, fs) IN
    /\ Framed(bs) /\ FlagsOK(10, Frame(bs).flags)
    /\ DecodeUnsubscribe(bs) = [type |-> 10, flags |-> 2, id |-> id, fs |-> fs]

LemmaAcks(id) ==
    /\ \A p \in {PubAck(id), PubRec(id), PubRel(id), PubComp(id)} : Framed(p) /\ FlagsOK(Frame(p).type, Frame(p).flags)
    /\ DecodeAck(PubAck(id))  = [type |-> 4, flags |-> 0, id |-> id, len |-> 2]
    /\ DecodeAck(PubRec(id))  = [type |-> 5, flags |-> 0, id |-> id, len |-> 2]
    /\ DecodeAck(PubRel(id))  = [type |-> 6, flags |-> 2, id |-> id, len |-> 2]
    /\ DecodeAck(PubComp(id)) = [type |-> 7, flags |-> 0, id |-> id, len |-> 2]

LemmaBare == PingReq = <<192, 0>> /\ Disconnect = <<224, 0>> /\ Framed(PingReq) /\ Framed(Disconnect)
=============================================================================
