SPECIFICATION Spec
CHECK_DEADLOCK FALSE
CONSTRAINT Mon
POSTCONDITION Report
