SPECIFICATION Spec
CONSTANTS
  Callers = {1, 2, 3}
  BugSingleSlot = FALSE
CHECK_DEADLOCK FALSE
INVARIANTS EveryPingAnswered
PROPERTIES AllComplete
