----------------------------- MODULE MCPacketId -----------------------------
(* Model-checking wrapper of PacketId: the callers are interchangeable.     *)
(* The .cfg files (sizes, Bug switch, invariants) are written by            *)
(* checks/c15_packetid.py.                                                  *)
EXTENDS PacketId
Perms == Permutations(Callers)
=============================================================================
