---------------------------- MODULE TraceBlocking ----------------------------
(* C11, binding: every (kind, waiting location, cause) case of module Blocking (and pairs of blocked
   calls) was steered on the real client by withholding the broker packet the call waits for; TLC checks
   what was observed against what the case demands.  No behaviour: TLC evaluates the ASSUME. *)
EXTENDS Integers, Sequences, FiniteSets, TLC, Json

Runs == ndJsonDeserialize("blocking_runs.ndjson")

ClassOk(cls, res) == CASE cls = "canceled" -> res = "canceled"
                       [] cls = "deadline" -> res = "deadline"
                       [] cls = "error" -> res \notin {"nil", "timeout"}
                       [] OTHER -> res # "timeout"
Failing(r) ==
  (IF ~r.returned THEN {"no-return"} ELSE {})
  \cup (IF r.returned /\ ~ClassOk(r.cls, r.res) THEN {"wrong-error"} ELSE {})
  \cup (IF r.also # "" /\ r.done /\ ~r.alsoret THEN {"second-call-no-return"} ELSE {})
  \cup (IF r.done /\ ~r.doneclosed THEN {"done-not-closed"} ELSE {})
  \cup (IF r.leak > 0 THEN {"goroutine-left-running"} ELSE {})

ASSUME PrintT(<<"REPORT", ToJson([n |-> Len(Runs),
         unsteered |-> {Runs[i].id : i \in {x \in 1..Len(Runs) : ~Runs[x].steered}},
         bad |-> {[id |-> Runs[i].id, f |-> Failing(Runs[i])] : i \in {x \in 1..Len(Runs) : Runs[x].steered /\ Failing(Runs[x]) # {}}}])>>)
=============================================================================
