-------------------------------- MODULE Serve --------------------------------
(***************************************************************************)
(* C04 -- inbound QoS 0/1/2 flows of one connection.                        *)
(*                                                                         *)
(* Part 1: the reference receiver, written from the property statement      *)
(*   (MQTT 3.1.1 section 4.3): `Conforms(tl, handler)` decides whether a    *)
(*   timeline -- the single ordered sequence of                             *)
(*      <<"in", p, id, tag, q>>   packet consumed by the client's reader     *)
(*      <<"he", tag>>, <<"hl", tag>>   handler entered / returned            *)
(*      <<"out", p, id>>         packet written by the client                *)
(*      <<"close", by>>          transport closed                            *)
(*   -- is allowed.  It demands what the statement demands and no more: the  *)
(*   PUBCOMP for a PUBREL with an unknown identifier is optional, and when a *)
(*   QoS 2 PUBLISH is re-sent with the same identifier before its release    *)
(*   either content may be handed over (once).                               *)
(* Part 2: the implementation-shaped model of serve() (serve.go:46-187):     *)
(*   `subBuffer` and the order in which it calls the handler and writes      *)
(*   acknowledgements; TLC checks exhaustively, for every input sequence up  *)
(*   to MaxLen over Letters, that its timeline Conforms.                     *)
(* Part 3 (module TraceServe): timelines recorded from the real client are   *)
(*   checked with the same `Conforms`.                                       *)
(***************************************************************************)
EXTENDS Integers, Sequences, FiniteSets, TLC

\* ---------------------------------------------------------------- Part 1
Positions(tl, P(_)) == {j \in 1..Len(tl) : P(tl[j])}
\* the elements of a finite set of integers in increasing order
RECURSIVE SortSet(_)
SortSet(S) == IF S = {} THEN << >> ELSE LET m == CHOOSE x \in S : \A y \in S : x <= y IN <<m>> \o SortSet(S \ {m})

IsIn(e) == e[1] = "in"
IsPubIn(e, q) == e[1] = "in" /\ e[2] = "PUBLISH" /\ e[5] = q
IsRelIn(e) == e[1] = "in" /\ e[2] = "PUBREL"
IsOut(e, p) == e[1] = "out" /\ e[2] = p

\* Reference receiver: fold over the consumed packets.  buf: id -> set of acceptable tags.
\* Result: [ho |-> sequence of expected hand-overs [pos, tags], rel |-> positions of releasing PUBRELs]
RECURSIVE RefFold(_, _, _, _, _)
RefFold(tl, j, buf, ho, rel) ==
  IF j > Len(tl) THEN [ho |-> ho, rel |-> rel]
  ELSE LET e == tl[j] IN
    IF ~IsIn(e) THEN RefFold(tl, j + 1, buf, ho, rel)
    ELSE IF e[2] = "PUBLISH" /\ e[5] < 2
      THEN RefFold(tl, j + 1, buf, Append(ho, [pos |-> j, tags |-> {e[4]}]), rel)
    ELSE IF e[2] = "PUBLISH"
      THEN LET id == e[3]
               old == IF id \in DOMAIN buf THEN buf[id] ELSE {}
           IN RefFold(tl, j + 1, [x \in (DOMAIN buf) \cup {id} |-> IF x = id THEN old \cup {e[4]} ELSE buf[x]], ho, rel)
    ELSE IF e[2] = "PUBREL" /\ e[3] \in DOMAIN buf
      THEN RefFold(tl, j + 1, [x \in (DOMAIN buf) \ {e[3]} |-> buf[x]], Append(ho, [pos |-> j, tags |-> buf[e[3]]]), rel \cup {j})
    ELSE RefFold(tl, j + 1, buf, ho, rel)

Ids(tl) == {tl[j][3] : j \in {x \in 1..Len(tl) : tl[x][1] \in {"in", "out"}}}

Conforms(tl, handler) ==
  LET ref == RefFold(tl, 1, [x \in {} |-> {}], << >>, {})
      HO == ref.ho
      HE == SortSet({j \in 1..Len(tl) : tl[j][1] = "he"})
      HL == SortSet({j \in 1..Len(tl) : tl[j][1] = "hl"})
      \* index of the hand-over triggered by the packet consumed at position p
      HoOf(p) == CHOOSE k \in 1..Len(HO) : HO[k].pos = p
      Outs(p, id) == SortSet({j \in 1..Len(tl) : IsOut(tl[j], p) /\ tl[j][3] = id})
      PubIns(q, id) == SortSet({j \in 1..Len(tl) : IsPubIn(tl[j], q) /\ tl[j][3] = id})
      RelIns(id) == {j \in 1..Len(tl) : IsRelIn(tl[j]) /\ tl[j][3] = id}
  IN
  \* hand-overs: exactly the expected ones, in order, each after the packet that triggers it, each returned
  /\ IF handler
     THEN /\ Len(HE) = Len(HO)
          /\ \A k \in 1..Len(HE) : tl[HE[k]][2] \in HO[k].tags /\ HE[k] > HO[k].pos
          /\ Len(HL) = Len(HE)
          /\ \A k \in 1..Len(HL) : HL[k] > HE[k] /\ tl[HL[k]][2] = tl[HE[k]][2]
     ELSE HE = << >>
  /\ \A id \in Ids(tl) :
       \* QoS 1: exactly one PUBACK per PUBLISH, written after the handler returned
       /\ LET A == Outs("PUBACK", id)  I == PubIns(1, id) IN
          /\ Len(A) = Len(I)
          /\ \A n \in 1..Len(A) : A[n] > I[n] /\ (handler => A[n] > HL[HoOf(I[n])])
       \* QoS 2: exactly one PUBREC per PUBLISH
       /\ LET C == Outs("PUBREC", id)  I == PubIns(2, id) IN
          /\ Len(C) = Len(I)
          /\ \A n \in 1..Len(C) : C[n] > I[n]
       \* PUBCOMP: never before its PUBREL; every releasing PUBREL is answered; unknown ones may be
       /\ LET C == Outs("PUBCOMP", id) IN
          /\ \A n \in 1..Len(C) : Cardinality({r \in RelIns(id) : r < C[n]}) >= n
          /\ Len(C) >= Cardinality(RelIns(id) \cap ref.rel)
          /\ Len(C) <= Cardinality(RelIns(id))
  \* nothing else is written and the connection survives well-formed traffic
  /\ \A j \in 1..Len(tl) : tl[j][1] = "out" => tl[j][2] \in {"PUBACK", "PUBREC", "PUBCOMP"}
  /\ \A j \in 1..Len(tl) : tl[j][1] # "close"

\* What has been consumed has been handed over -- also when the connection ends right afterwards because the
\* acknowledgement cannot be written (the statement ties the hand-over to the ARRIVAL of the PUBLISH / the matching
\* PUBREL, not to a successful acknowledgement).  Used for timelines that end with a failing write.
HeAfter(tl, p, tags) == \E j \in (p + 1)..Len(tl) : tl[j][1] = "he" /\ tl[j][2] \in tags
PendingTags(tl, p, id) ==      \* tags of the QoS 2 PUBLISHes with this id consumed before p and not released before p
  LET rels == {j \in 1..(p - 1) : IsRelIn(tl[j]) /\ tl[j][3] = id}
      lastRel == IF rels = {} THEN 0 ELSE CHOOSE x \in rels : \A y \in rels : y <= x
  IN {tl[j][4] : j \in {x \in (lastRel + 1)..(p - 1) : IsPubIn(tl[x], 2) /\ tl[x][3] = id}}
HandedOver(tl, handler) ==
  handler =>
    /\ \A p \in 1..Len(tl) : (IsPubIn(tl[p], 0) \/ IsPubIn(tl[p], 1)) => HeAfter(tl, p, {tl[p][4]})
    /\ \A p \in 1..Len(tl) : (IsRelIn(tl[p]) /\ PendingTags(tl, p, tl[p][3]) # {}) => HeAfter(tl, p, PendingTags(tl, p, tl[p][3]))

\* ---------------------------------------------------------------- Part 2
CONSTANTS Letters,     \* set of [p |-> "PUB", q, id, dup] and [p |-> "REL", id]
          MaxLen,
          HasHandler,
          BugAckBeforeHandler,   \* non-vacuity switches: wrong implementations the invariant must reject
          BugDeliverOnPublish,
          BugKeepAfterRelease,
          AllowWriteFail,        \* the write of an acknowledgement may fail: serve returns, the connection ends
          BugCompBeforeHandover  \* PUBCOMP written before the message is handed over (nothing handed over if it fails)

VARIABLES dead,   \* serve has returned (a write failed)
          n,      \* packets consumed
          buf,    \* subBuffer: id -> tag
          tl      \* timeline produced so far

svars == <<dead, n, buf, tl>>

SInit == dead = FALSE /\ n = 0 /\ buf = [x \in {} |-> 0] /\ tl = << >>

H(tag) == IF HasHandler THEN <<<<"he", tag>>, <<"hl", tag>>>> ELSE << >>

Recv(x) ==
  /\ n < MaxLen /\ ~dead /\ UNCHANGED dead
  /\ n' = n + 1
  /\ LET tag == n + 1 IN
     IF x.p = "PUB"
     THEN CASE x.q = 0 ->
                 /\ tl' = tl \o <<<<"in", "PUBLISH", 0, tag, 0>>>> \o H(tag)
                 /\ UNCHANGED buf
            [] x.q = 1 ->
                 /\ tl' = tl \o <<<<"in", "PUBLISH", x.id, tag, 1>>>> \o
                          (IF BugAckBeforeHandler THEN <<<<"out", "PUBACK", x.id>>>> \o H(tag)
                           ELSE H(tag) \o <<<<"out", "PUBACK", x.id>>>>)
                 /\ UNCHANGED buf
            [] x.q = 2 ->
                 /\ tl' = tl \o <<<<"in", "PUBLISH", x.id, tag, 2>>>> \o <<<<"out", "PUBREC", x.id>>>> \o
                          (IF BugDeliverOnPublish THEN H(tag) ELSE << >>)
                 /\ buf' = [i \in (DOMAIN buf) \cup {x.id} |-> IF i = x.id THEN tag ELSE buf[i]]
     ELSE IF x.id \in DOMAIN buf
          THEN /\ tl' = tl \o <<<<"in", "PUBREL", x.id, 0, 0>>>> \o
                        (IF BugDeliverOnPublish THEN << >> ELSE H(buf[x.id])) \o <<<<"out", "PUBCOMP", x.id>>>>
               /\ buf' = IF BugKeepAfterRelease THEN buf ELSE [i \in (DOMAIN buf) \ {x.id} |-> buf[i]]
          ELSE /\ tl' = Append(tl, <<"in", "PUBREL", x.id, 0, 0>>)
               /\ UNCHANGED buf

\* the same steps with the acknowledgement's write failing: serve returns the error, the connection is closed
CloseEv == <<"close", "plan">>
RecvFail(x) ==
  /\ AllowWriteFail /\ n < MaxLen /\ ~dead /\ dead' = TRUE
  /\ n' = n + 1 /\ UNCHANGED buf
  /\ LET tag == n + 1 IN
     IF x.p = "PUB"
     THEN /\ x.q > 0
          /\ tl' = tl \o <<<<"in", "PUBLISH", x.id, tag, x.q>>>> \o (IF x.q = 1 THEN H(tag) ELSE << >>) \o <<CloseEv>>
     ELSE /\ x.id \in DOMAIN buf
          /\ tl' = tl \o <<<<"in", "PUBREL", x.id, 0, 0>>>> \o (IF BugCompBeforeHandover THEN << >> ELSE H(buf[x.id])) \o <<CloseEv>>

SNext == \E x \in Letters : Recv(x) \/ RecvFail(x)
SSpec == SInit /\ [][SNext]_svars

ImplConforms == ~dead => Conforms(tl, HasHandler)
ImplHandsOver == HandedOver(tl, HasHandler)
\* the buffer holds exactly the QoS 2 messages received and not yet released
BufferSound == \A id \in DOMAIN buf : \E j \in 1..Len(tl) : IsPubIn(tl[j], 2) /\ tl[j][3] = id /\ tl[j][4] = buf[id]
=============================================================================
