----------------------------- MODULE ErrChain -----------------------------
(***************************************************************************)
(* Property C19, first half: "returned errors keep their cause inspectable".*)
(*                                                                         *)
(* An error value handed out by mqtt-go is a CHAIN: a sequence of wrappers *)
(* (outermost first) around a BASE error.  This module defines             *)
(*                                                                         *)
(*   - which chains exist (Chains),                                        *)
(*   - what the property statement DEMANDS of errors.Is / errors.As /      *)
(*     identity on every chain and every target (IsExpect, AsExpect,       *)
(*     PassExpect, ...) with the three answers                             *)
(*         "T"  the statement demands true,                                *)
(*         "F"  the statement demands false,                               *)
(*         "E"  the statement is silent: either answer is accepted,        *)
(*   - a precise model of what the CURRENT algorithm computes (ImplIs:     *)
(*     errors.Is of the standard library + the library's own Error.Is with *)
(*     its reflective look-through), used only for the consistency lemma   *)
(*     "the documented algorithm satisfies the demand" and for statistics, *)
(*   - consistency lemmas (ASSUMEs) and the dump of the expectation table  *)
(*     that the Go driver (harness/cmd/drive/errchain.go) is compared with.*)
(*                                                                         *)
(* The module has no behaviour: TLC only evaluates the ASSUMEs.            *)
(***************************************************************************)
EXTENDS Integers, Sequences, FiniteSets, TLC, Json, SequencesExt

CONSTANTS MaxDepth,       \* chains with up to MaxDepth wrappers are enumerated
          FullBaseDepth   \* up to this depth every base kind is used; deeper chains use ReprBases

(***************************************************************************)
(* Wrapper kinds (how the Go driver builds each is given in brackets).     *)
(***************************************************************************)
LibKinds == {"lib",      \* *mqtt.Error made by wrapError            [VerifWrapError]
             "libf",     \* *mqtt.Error made by wrapErrorf           [VerifWrapErrorf]
             "retry"}    \* *errorWithRetry made by wrapErrorWithRetry [VerifWrapErrorWithRetry]
FreeKinds == LibKinds \cup
            {"fmtw",          \* fmt.Errorf("...: %w", inner)
             "connerr",       \* &mqtt.ConnectionError{Err: inner} (has Unwrap)
             "foreignErr",    \* foreign *struct with exported field `Err error`, NO Unwrap method
             "foreignOpaque"} \* foreign *struct that neither unwraps nor has an Err field
(* "reqtimeout" is *mqtt.RequestTimeoutError.  Its only field is an unexported embedded `error`, so   *)
(* it cannot be built outside package mqtt, not even with the verif exports: the driver obtains real  *)
(* elements from a RetryClient with ResponseTimeout running over netsim (requestContext.Err in        *)
(* retryclient.go) and puts further wrappers around them.  Hence it only occurs as the INNERMOST      *)
(* wrapper, directly over a context error.                                                            *)
Kinds == FreeKinds \cup {"reqtimeout"}

(***************************************************************************)
(* Base kinds: the library's sentinels, io.EOF, the two context errors and *)
(* a fresh errors.New value private to the chain.                          *)
(***************************************************************************)
DocSentinels == {"ErrClosedTransport", "ErrInvalidPacket", "ErrInvalidPacketLength",
                 "ErrPayloadLenExceeded", "ErrInvalidQoS", "ErrNotConnected"}   \* named in the statement
OtherSentinels == {"ErrClosedClient", "ErrConnectionFailed", "ErrInvalidRune", "ErrInvalidSubAck",
                   "ErrInvalidTopicFilter", "ErrPingTimeout", "ErrKeepAliveDisabled", "ErrUnsupportedProtocol"}
Sentinels == DocSentinels \cup OtherSentinels
CtxErrs == {"canceled", "deadline"}     \* context.Canceled / context.DeadlineExceeded = a context's Err()
Bases == Sentinels \cup CtxErrs \cup {"eof", "fresh"}
ReprBases == DocSentinels \cup CtxErrs \cup {"eof", "fresh"}   \* sentinels are interchangeable: identity comparison only

(* Targets of errors.Is: every base kind, plus "fresh2" = another errors.New with the same text as   *)
(* the fresh base (equal text, different identity: never in any chain).                              *)
Targets == Bases \cup {"fresh2"}

(***************************************************************************)
(* Chains.                                                                 *)
(***************************************************************************)
SeqsUpTo(S, d) == UNION { [1..k -> S] : k \in 0..d }

FreeWs == SeqsUpTo(FreeKinds, MaxDepth)
TimeoutWs == { Append(w, "reqtimeout") : w \in SeqsUpTo(FreeKinds, MaxDepth - 1) }

BasesFor(ws) == IF ws # <<>> /\ Last(ws) = "reqtimeout" THEN CtxErrs
                ELSE IF Len(ws) <= FullBaseDepth THEN Bases ELSE ReprBases

Chains == UNION { { [ws |-> w, base |-> b] : b \in BasesFor(w) } : w \in FreeWs \cup TimeoutWs }

(* wrapping nil: only library wrappers (fmt.Errorf("%w", nil) is a programming error)                *)
NilChains == { [ws |-> w, base |-> "nil"] : w \in SeqsUpTo(LibKinds, MaxDepth) \ {<<>>} }

(***************************************************************************)
(* Pass-through (error.go wrapErrorImpl): a library wrapper applied to     *)
(* io.EOF returns io.EOF ITSELF, applied to nil returns nil.  So library   *)
(* wrappers standing directly over an EOF base vanish; Eff is the chain    *)
(* that really exists.  PassExpect[i] says whether wrapper i must return   *)
(* its argument unchanged (identity).                                      *)
(***************************************************************************)
RECURSIVE StripLib(_)
StripLib(ws) == IF ws # <<>> /\ Last(ws) \in LibKinds THEN StripLib(Front(ws)) ELSE ws

Eff(c) == IF c.base \in {"eof", "nil"} THEN [ws |-> StripLib(c.ws), base |-> c.base] ELSE c

PassExpect(c) == [ i \in 1..Len(c.ws) |->
                     c.base \in {"eof", "nil"} /\ \A j \in i..Len(c.ws) : c.ws[j] \in LibKinds ]

OuterIsEOF(c) == c.base = "eof" /\ Eff(c).ws = <<>>     \* `err == io.EOF`, not merely errors.Is
OuterIsNil(c) == c.base = "nil" /\ Eff(c).ws = <<>>

(***************************************************************************)
(* What the statement demands.                                             *)
(*                                                                         *)
(* "errors.Is finds the documented sentinel ... through any depth of the   *)
(*  library's wrapping": the library's wrapping is every type the library  *)
(*  puts around a cause: Error (lib, libf), errorWithRetry (retry),        *)
(*  ConnectionError (connerr) and RequestTimeoutError (reqtimeout, see     *)
(*  below); the quantifier adds fmt %w wrappers.  These links are PROMISED *)
(*  transparent.                                                           *)
(* "never reports a sentinel that is not in the chain": a target that      *)
(*  occurs nowhere in the chain, or only below a link through which no Go  *)
(*  code can see (foreignOpaque), must be answered false.                  *)
(* A foreignErr link (Err field, no Unwrap) is not part of any chain in    *)
(*  the sense of package errors, but the library's Error.Is looks through  *)
(*  it by reflection when it is called, i.e. when a library wrapper stands *)
(*  outside of it.  The statement is silent: either answer is accepted.    *)
(* reqtimeout: "an expired response timeout of the retrying client is      *)
(*  identifiable as RequestTimeoutError" - over "deadline" the cause IS    *)
(*  the timeout, identified by type (AsExpect), and whether                *)
(*  context.DeadlineExceeded is visible behind it is left open.  Over      *)
(*  "canceled" no timeout expired: the caller cancelled its context while  *)
(*  the response timer was running, the cause is "a cancelled caller       *)
(*  context's error", which the statement lists among the causes errors.Is *)
(*  must find: the link must be transparent.                               *)
(***************************************************************************)
Promised(c, i) == \/ c.ws[i] \in {"lib", "libf", "retry", "fmtw", "connerr"}
                  \/ c.ws[i] = "reqtimeout" /\ c.base = "canceled"
Opaque(c, i) == c.ws[i] = "foreignOpaque"
\* everything else ("foreignErr", "reqtimeout" over "deadline") is Silent

(* position p of chain c (1..n = wrapper elements, n+1 = the base) as seen from the outermost error *)
Tri(c, p) == IF \A i \in 1..(p-1) : Promised(c, i) THEN "T"
             ELSE IF \E i \in 1..(p-1) : Opaque(c, i) THEN "F"
             ELSE "E"

(* errors.Is(chain, target) for a base-kind target *)
IsExpect(c, t) == LET e == Eff(c) IN
                  IF t = e.base THEN Tri(e, Len(e.ws) + 1) ELSE "F"

(* errors.Is(chain, element i of the chain itself) - identity of wrapper values; i ranges over Eff(c) *)
ElemIsExpect(c) == LET e == Eff(c) IN [ i \in 1..Len(e.ws) |-> Tri(e, i) ]

(***************************************************************************)
(* errors.As for the library's exported error types and the ErrorWithRetry *)
(* interface.  Definite providers of a type are the wrapper kinds that ARE *)
(* a value of it; "retry" is only a MAYBE provider of *mqtt.Error (it      *)
(* embeds one, but whether errors.As reaches the embedded value is not     *)
(* promised anywhere).                                                     *)
(***************************************************************************)
AsTypes == {"ConnectionError", "RequestTimeoutError", "Error", "ErrorWithRetry"}
Provides(k, ty) == \/ ty = "ConnectionError" /\ k = "connerr"
                   \/ ty = "RequestTimeoutError" /\ k = "reqtimeout"
                   \/ ty = "Error" /\ k \in {"lib", "libf"}
                   \/ ty = "ErrorWithRetry" /\ k = "retry"
MaybeProvides(k, ty) == ty = "Error" /\ k = "retry"

AsExpect(c, ty) ==
    LET e == Eff(c)
        P == { i \in 1..Len(e.ws) : Provides(e.ws[i], ty) }
        M == { i \in 1..Len(e.ws) : MaybeProvides(e.ws[i], ty) }
    IN IF \E i \in P : Tri(e, i) = "T" THEN "T"
       ELSE IF \A i \in P \cup M : Tri(e, i) = "F" THEN "F"
       ELSE "E"

(* when AsExpect = "T": the elements errors.As may deliver (it must deliver one of the chain's own)  *)
AsProviders(c, ty) == LET e == Eff(c) IN { i \in 1..Len(e.ws) : Provides(e.ws[i], ty) }

(* Outermost-element view of the retry handle (type assertion err.(ErrorWithRetry), as RetryClient   *)
(* does it): a chain whose outermost effective wrapper is "retry" carries the handle and calling     *)
(* Retry runs exactly that wrapper's function; a chain whose outermost wrapper is lib/libf does not. *)
RetryIfcExpect(c) == LET e == Eff(c) IN
                     IF e.ws = <<>> THEN "F"
                     ELSE IF e.ws[1] = "retry" THEN "T"
                     ELSE IF e.ws[1] \in {"lib", "libf"} THEN "F" ELSE "E"

(***************************************************************************)
(* The documented algorithm, modelled precisely (error.go:80-115 + package *)
(* errors): errors.Is walks from the outermost error along Unwrap; at each *)
(* error it reaches it compares identity and calls its Is method if there  *)
(* is one.  Error.Is (on lib, libf, retry - errorWithRetry promotes it)    *)
(* walks the whole rest of the chain itself, along Unwrap or, where a      *)
(* pointer-to-struct has no Unwrap but a field named Err, along that field.*)
(* RequestTimeoutError has neither Unwrap nor a field named Err in the     *)
(* tree this model was written against (error.go:45-52); a repaired tree   *)
(* that gives it an Unwrap method moves it into HasUnwrap.  ImplIs is never *)
(* used for a verdict: the check only counts, on the rows where the        *)
(* statement is silent and no reqtimeout is involved, how often the real   *)
(* code agrees with this model (a NOTE is printed when it does not).       *)
(***************************************************************************)
HasUnwrap(k) == k \in {"lib", "libf", "retry", "fmtw", "connerr"}
StdReach(ws, p) == \A j \in 1..(p-1) : HasUnwrap(ws[j])
LibWalk(ws, i, p) == \A j \in i..(p-1) : HasUnwrap(ws[j]) \/ ws[j] = "foreignErr"
ImplReach(ws, p) == \/ StdReach(ws, p)
                    \/ \E i \in 1..(p-1) : ws[i] \in LibKinds /\ StdReach(ws, i) /\ LibWalk(ws, i, p)
ImplIs(c, t) == LET e == Eff(c) IN t = e.base /\ ImplReach(e.ws, Len(e.ws) + 1)

Agrees(b, x) == (x = "T" => b) /\ (x = "F" => ~b)

(***************************************************************************)
(* Consistency lemmas of the specification itself.                         *)
(***************************************************************************)
\* L1 (headline): under library wrappers only, at any depth, every base is found ...
ASSUME L1 == \A c \in Chains : (\A i \in 1..Len(c.ws) : c.ws[i] \in LibKinds) => IsExpect(c, c.base) = "T"
\* L2: ... and no target other than the base is ever demanded or allowed to be reported
ASSUME L2 == \A c \in Chains : \A t \in Targets : t # c.base => IsExpect(c, t) = "F"
\* L3: putting one more promised wrapper outside changes no demand (depth does not matter);
\*     stated for non-EOF bases - over EOF the wrapper may vanish, which L4 covers
ASSUME L3 == \A c \in Chains : Len(c.ws) < MaxDepth /\ c.base # "eof" =>
                 \A k \in {"lib", "libf", "retry", "fmtw", "connerr"} : \A t \in Targets :
                     IsExpect([ws |-> <<k>> \o c.ws, base |-> c.base], t) = IsExpect(c, t)
\* L4: EOF and nil pass through any stack of library wrappers unwrapped; one foreign wrapper stops it
ASSUME L4 == /\ \A c \in Chains : c.base = "eof" =>
                    (OuterIsEOF(c) <=> \A i \in 1..Len(c.ws) : c.ws[i] \in LibKinds)
             /\ \A c \in NilChains : OuterIsNil(c)
             /\ \A c \in Chains : c.base = "eof" => IsExpect(c, "eof") # "F" \/ \E i \in 1..Len(c.ws) : c.ws[i] = "foreignOpaque"
\* L5: the documented algorithm is one of the behaviours the demand admits, except where the
\*     RequestTimeoutError hides a caller's cancellation (that exception is a statement about the
\*     implementation, not about the specification: it is what the check reports on the real code)
ASSUME L5 == \A c \in Chains : \A t \in Targets :
                 \/ Agrees(ImplIs(c, t), IsExpect(c, t))
                 \/ (c.ws # <<>> /\ Last(c.ws) = "reqtimeout" /\ c.base = "canceled" /\ t = "canceled")
\* L6: "E" is used only where a silent link is involved
ASSUME L6 == \A c \in Chains : \A t \in Targets : IsExpect(c, t) = "E" =>
                 \E i \in 1..Len(c.ws) : c.ws[i] \in {"foreignErr", "reqtimeout"}
\* L7: a visible provider is always found by errors.As; a type occurring nowhere is never found
ASSUME L7 == \A c \in Chains : \A ty \in AsTypes :
                 /\ (AsExpect(c, ty) = "T" => AsProviders(c, ty) # {})
                 /\ ((\A i \in 1..Len(Eff(c).ws) : ~Provides(Eff(c).ws[i], ty) /\ ~MaybeProvides(Eff(c).ws[i], ty))
                        => AsExpect(c, ty) = "F")

(***************************************************************************)
(* The real sources of RequestTimeoutError (timeout mode of the driver):   *)
(* which chain the library hands out for which interrupted operation of a  *)
(* RetryClient with ResponseTimeout.  The demand on the real error is the  *)
(* demand on that chain.                                                   *)
(***************************************************************************)
(* expired = the response timer really expired.  Where it did not (the caller cancelled first) the   *)
(* statement does not say whether the error should still present itself as a RequestTimeoutError.   *)
TimeoutSources ==
    { [source |-> "ping/timeout",      ws |-> <<"lib", "lib", "reqtimeout">>, base |-> "deadline", expired |-> TRUE],
      [source |-> "ping/callerCancel", ws |-> <<"lib", "lib", "reqtimeout">>, base |-> "canceled", expired |-> FALSE],
      [source |-> "pub1/timeout",      ws |-> <<"retry", "reqtimeout">>,      base |-> "deadline", expired |-> TRUE],
      [source |-> "pub2/timeout",      ws |-> <<"retry", "reqtimeout">>,      base |-> "deadline", expired |-> TRUE],
      [source |-> "pub2rel/timeout",   ws |-> <<"retry", "reqtimeout">>,      base |-> "deadline", expired |-> TRUE],
      [source |-> "sub/timeout",       ws |-> <<"retry", "reqtimeout">>,      base |-> "deadline", expired |-> TRUE],
      [source |-> "unsub/timeout",     ws |-> <<"retry", "reqtimeout">>,      base |-> "deadline", expired |-> TRUE] }

\* L8: every expired response timeout is identifiable as RequestTimeoutError; a caller's cancellation is found
ASSUME L8 == \A s \in TimeoutSources : LET c == [ws |-> s.ws, base |-> s.base] IN
                 /\ s.expired => AsExpect(c, "RequestTimeoutError") = "T"
                 /\ ~s.expired => IsExpect(c, s.base) = "T"

(***************************************************************************)
(* The dump.  One row per chain with the demand for every target.          *)
(***************************************************************************)
NonTrivial(c) == Len(c.ws) >= 2 \/ \E i \in 1..Len(c.ws) : c.ws[i] \in {"foreignErr", "foreignOpaque"}

Row(c) == [ ws    |-> c.ws,
            base  |-> c.base,
            is    |-> [ t \in Targets |-> IsExpect(c, t) ],
            impl  |-> { t \in Targets : ImplIs(c, t) },
            eis   |-> ElemIsExpect(c),
            efflen |-> Len(Eff(c).ws),
            as    |-> [ ty \in AsTypes |-> AsExpect(c, ty) ],
            asp   |-> [ ty \in AsTypes |-> AsProviders(c, ty) ],
            pass  |-> PassExpect(c),
            outerEOF |-> OuterIsEOF(c),
            outerNil |-> FALSE,
            retryIfc |-> RetryIfcExpect(c),
            nontrivial |-> NonTrivial(c) ]

NilRow(c) == [ ws |-> c.ws, base |-> "nil", pass |-> PassExpect(c), outerNil |-> OuterIsNil(c) ]

SourceRow(s) == LET c == [ws |-> s.ws, base |-> s.base] IN
                [ source |-> s.source, ws |-> s.ws, base |-> s.base,
                  is |-> [ t \in Targets |-> IsExpect(c, t) ],
                  as |-> [ ty \in AsTypes |-> IF ty = "RequestTimeoutError" /\ ~s.expired THEN "E" ELSE AsExpect(c, ty) ],
                  retryIfc |-> RetryIfcExpect(c) ]

ASSUME Dump ==
    /\ ndJsonSerialize("chains.ndjson", SetToSeq({ Row(c) : c \in Chains }))
    /\ ndJsonSerialize("nilchains.ndjson", SetToSeq({ NilRow(c) : c \in NilChains }))
    /\ ndJsonSerialize("sources.ndjson", SetToSeq({ SourceRow(s) : s \in TimeoutSources }))
    /\ PrintT(<<"COUNTS", [chains |-> Cardinality(Chains), nilchains |-> Cardinality(NilChains),
                           targets |-> Cardinality(Targets), maxdepth |-> MaxDepth]>>)
=============================================================================
