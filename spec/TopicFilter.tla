----------------------------- MODULE TopicFilter -----------------------------
(***************************************************************************)
(* C14 - topic filters validate / match per MQTT 3.1.1 section 4.7, and     *)
(* ServeMux dispatches accordingly.                                          *)
(*                                                                           *)
(* This module is the ORACLE and the GENERATOR of the check:                 *)
(*   - ValidStr / MatchesStr / Dispatch are written from the text of MQTT    *)
(*     3.1.1 section 4.7 (quoted at each operator), not from filter.go;      *)
(*   - TLC checks consistency lemmas of these definitions against each other *)
(*     and against the (non-normative) examples of the standard;             *)
(*   - TLC enumerates every filter / topic over a small level alphabet up to *)
(*     a depth bound and dumps the truth table, the expected ServeMux        *)
(*     dispatch sequences for registration orders it enumerates, and the     *)
(*     expectation for seeded random character strings handed in as data.    *)
(* There is no behaviour specification: TLC only evaluates the ASSUMEs that  *)
(* are switched on by the constant Phases.                                   *)
(*                                                                           *)
(* Representation.  TLC strings have no character access, therefore a        *)
(* STRING OF THE REAL WORLD IS A SEQUENCE OF ATOMS, an atom being a TLA+     *)
(* string that stands for one character ("a", "+", "/", one unicode code     *)
(* point, ...).  The three atoms with a meaning are Plus, Hash and Sep; all   *)
(* other atoms are opaque and only compared for equality.  The harness turns *)
(* a sequence of atoms into the Go string by concatenation.  (In the lemma   *)
(* L_Examples an atom is a whole word such as "sport": an opaque chunk       *)
(* without any of the three special characters behaves like one character.)  *)
(* A "level sequence" is a non-empty sequence of levels, a level being a     *)
(* possibly empty sequence of atoms different from Sep.                      *)
(***************************************************************************)
EXTENDS Integers, Sequences, FiniteSets, TLC, Json, SequencesExt

CONSTANTS
    Phases,        \* subset of {"lemmas", "table", "mux", "random"}: which ASSUME groups this run evaluates
    Depth,         \* truth table: filters and topics with 1..Depth levels
    LemmaDepth,    \* lemmas are checked over all filters / topics with 1..LemmaDepth levels
    MuxLen,        \* dispatch: every registration sequence of length 1..MuxLen over MuxPool
    MuxTopicDepth  \* dispatch: served on every topic with 1..MuxTopicDepth levels

Plus == "+"     \* single-level wildcard  (4.7.1.3)
Hash == "#"     \* multi-level wildcard   (4.7.1.2)
Sep  == "/"     \* topic level separator  (4.7.1.1)

Has(s, c) == \E i \in 1..Len(s) : s[i] = c
Idx(n) == [i \in 1..n |-> i]

(***************************************************************************)
(* Strings <-> levels.  4.7.1.1: "The forward slash is used to separate each *)
(* level within a topic tree [...] Adjacent Topic level separators indicate  *)
(* a zero length topic level."  4.7.3: "A leading or trailing '/' creates a  *)
(* distinct Topic Name or Topic Filter."  Hence a string with n separators   *)
(* has exactly n+1 levels, some of which may be empty; the empty string has  *)
(* one (empty) level and "/" has two.                                        *)
(***************************************************************************)
RECURSIVE Levels(_)
Levels(s) ==
    IF ~Has(s, Sep) THEN <<s>>
    ELSE LET k == CHOOSE i \in 1..Len(s) : s[i] = Sep /\ \A j \in 1..(i - 1) : s[j] # Sep
         IN  <<SubSeq(s, 1, k - 1)>> \o Levels(SubSeq(s, k + 1, Len(s)))

\* the string of a level sequence: the levels joined by Sep (inverse of Levels, lemma L_RoundTrip)
RECURSIVE Str(_)
Str(ls) == IF Len(ls) = 1 THEN ls[1] ELSE ls[1] \o <<Sep>> \o Str(Tail(ls))

(***************************************************************************)
(* Validity of a topic filter.                                               *)
(*  [MQTT-4.7.3-1] "All Topic Names and Topic Filters MUST be at least one   *)
(*     character long."                     (a rule about the STRING: the    *)
(*     filter whose only level is empty is the empty string and is invalid,  *)
(*     while "/" - two empty levels - is one character long and valid)       *)
(*  [MQTT-4.7.1-3] "The single-level wildcard can be used at any level in    *)
(*     the Topic Filter, including first and last levels.  Where it is used  *)
(*     it MUST occupy an entire level of the filter."                        *)
(*  [MQTT-4.7.1-2] "The multi-level wildcard character MUST be specified     *)
(*     either on its own or following a topic level separator.  In either    *)
(*     case it MUST be the last character specified in the Topic Filter."    *)
(***************************************************************************)
ValidLv(f) ==
    \A i \in 1..Len(f) :
        /\ Has(f[i], Plus) => f[i] = <<Plus>>
        /\ Has(f[i], Hash) => (f[i] = <<Hash>> /\ i = Len(f))

ValidStr(s) == Len(s) > 0 /\ ValidLv(Levels(s))

\* The same three sentences read character by character on the string, without splitting
\* it into levels (second, independent formulation; equivalence is lemma L_ValidChars).
ValidChars(s) ==
    /\ Len(s) > 0
    /\ \A i \in 1..Len(s) :
        /\ s[i] = Plus => /\ (i = 1 \/ s[i - 1] = Sep)
                          /\ (i = Len(s) \/ s[i + 1] = Sep)
        /\ s[i] = Hash => /\ i = Len(s)
                          /\ (i = 1 \/ s[i - 1] = Sep)

(***************************************************************************)
(* Topic names the property quantifies over: 4.7.3 at least one character,   *)
(* [MQTT-4.7.1-1] "The wildcard characters [...] MUST NOT be used within a   *)
(* Topic Name", and - by the quantifier of C14 - not starting with '$'       *)
(* (4.7.2 gives those special treatment that the library does not claim).    *)
(***************************************************************************)
TopicName(s) == Len(s) > 0 /\ ~Has(s, Plus) /\ ~Has(s, Hash) /\ s[1] # "$"

(***************************************************************************)
(* Matching, level-wise and recursive on the two level sequences.  ONLY      *)
(* MEANINGFUL FOR A VALID FILTER (then '#' can only be the last level).      *)
(*  4.7.1.2 "The multi-level wildcard represents the parent and any number   *)
(*     of child levels": once the filter reaches '#', whatever is left of    *)
(*     the topic - nothing (the parent itself) or any further levels -       *)
(*     matches.                                                              *)
(*  4.7.1.3 "The single-level wildcard [...] matches only a single topic     *)
(*     level": '+' consumes exactly one level of the topic, whatever it is   *)
(*     (the standard's example: "sport/+" matches "sport/" - the level may   *)
(*     be empty - but not "sport").                                          *)
(*  Any other level has to be equal, character by character (4.7.3 "Topic    *)
(*     Names and Topic Filters are case sensitive").                         *)
(*  Both sequences must be exhausted together.                               *)
(***************************************************************************)
RECURSIVE MatchLv(_, _)
MatchLv(f, t) ==
    IF f = << >> THEN t = << >>
    ELSE IF Head(f) = <<Hash>> THEN TRUE
    ELSE IF t = << >> THEN FALSE
    ELSE (Head(f) = <<Plus>> \/ Head(f) = Head(t)) /\ MatchLv(Tail(f), Tail(t))

\* Declarative formulation of the same section (no recursion): a filter "p/#" matches the
\* topics that have at least the levels of p and agree with p there; a filter without '#'
\* matches the topics with exactly as many levels that agree everywhere.  "Agree at level
\* i": the filter level is '+' or equals the topic level.  Equivalence: lemma L_RecDecl.
Agree(f, t, n) == \A i \in 1..n : f[i] = <<Plus>> \/ f[i] = t[i]
MatchDecl(f, t) ==
    IF f[Len(f)] = <<Hash>>
    THEN Len(t) >= Len(f) - 1 /\ Agree(f, t, Len(f) - 1)
    ELSE Len(t) = Len(f) /\ Agree(f, t, Len(f))

\* String-level entry point.  CASE without OTHER: deliberately undefined (TLC stops with an
\* error) for an invalid filter - nothing in this module ever asks whether an invalid
\* filter matches, and neither does the harness.
MatchesStr(fs, ts) == CASE ValidStr(fs) -> MatchLv(Levels(fs), Levels(ts))

(***************************************************************************)
(* ServeMux.  regs = the filter strings passed to Handle, in call order      *)
(* (handler i is the one passed in the i-th call).  Handle accepts exactly   *)
(* the valid ones; Serve(message with topic ts) invokes exactly the handlers *)
(* whose filter was accepted and matches, in registration order, each once   *)
(* per registration (the same filter registered twice is invoked twice).     *)
(***************************************************************************)
Accepted(regs) == [i \in 1..Len(regs) |-> ValidStr(regs[i])]
Dispatch(regs, ts) ==
    SelectSeq(Idx(Len(regs)), LAMBDA i : ValidStr(regs[i]) /\ MatchesStr(regs[i], ts))

-----------------------------------------------------------------------------
(***************************************************************************)
(* Bounded enumeration.  Filter levels: two literals, the empty level, the   *)
(* two wildcards, and one misuse of each wildcard inside a level.  Topic     *)
(* levels: the literals and the empty level.                                 *)
(***************************************************************************)
FL == {<<"a">>, <<"b">>, << >>, <<Plus>>, <<Hash>>, <<"a", Plus>>, <<Hash, "a">>}
TL == {<<"a">>, <<"b">>, << >>}
PlainFL == {l \in FL : ~Has(l, Plus) /\ ~Has(l, Hash)}

SeqsUpTo(A, n) == UNION {[1..k -> A] : k \in 1..n}
FilterLvs(n) == SeqsUpTo(FL, n)                                   \* every level sequence, valid or not
TopicLvs(n)  == {t \in SeqsUpTo(TL, n) : TopicName(Str(t))}       \* drops only the empty string
ValidF(f) == ValidStr(Str(f))
Wild(f) == \E i \in 1..Len(f) : f[i] = <<Plus>> \/ f[i] = <<Hash>>

RECURSIVE Pow(_, _)
Pow(b, e) == IF e = 0 THEN 1 ELSE b * Pow(b, e - 1)

-----------------------------------------------------------------------------
(***************************************************************************)
(* Phase "lemmas": the definitions above agree with each other, with the     *)
(* consequences the property statement spells out, and with the examples of  *)
(* the standard.  A failing ASSUME stops TLC (the check then reports an      *)
(* infrastructure error, never a verdict about the library).                 *)
(***************************************************************************)
\* (TLC evaluates constant definitions eagerly at start-up: the big sets are empty unless their phase is on)
Lem == "lemmas" \in Phases
LF  == IF Lem THEN FilterLvs(LemmaDepth) ELSE {}
LVF == {f \in LF : ValidF(f)}
LT  == IF Lem THEN TopicLvs(LemmaDepth) ELSE {}
LTL == IF Lem THEN SeqsUpTo(TL, LemmaDepth) ELSE {}
LPool(S) == IF Lem THEN S ELSE {}

\* Levels and Str are inverse; only the one-empty-level sequence is the empty string
L_RoundTrip == \A x \in LF \cup LTL :
                  /\ Levels(Str(x)) = x
                  /\ (Str(x) = << >>) <=> (x = << << >> >>)
\* level-wise and character-wise readings of 4.7.1 / 4.7.3 coincide
L_ValidChars == \A f \in LF : ValidStr(Str(f)) <=> ValidChars(Str(f))
\* non-empty; '+' only as a whole level; '#' only as the whole last level: the valid filters with d
\* levels are (plain or '+')^(d-1) x (plain or '+' or '#'), minus the empty string for d = 1
L_Count == \A d \in 1..LemmaDepth :
              Cardinality({f \in [1..d -> FL] : ValidF(f)})
                = Pow(Cardinality(PlainFL) + 1, d - 1) * (Cardinality(PlainFL) + 2) - (IF d = 1 THEN 1 ELSE 0)
L_Invalid == /\ ~ValidStr(<< >>) /\ ValidStr(<<Sep>>) /\ ValidStr(<<Plus>>) /\ ValidStr(<<Hash>>)
             /\ ~ValidStr(<<"a", Plus>>) /\ ~ValidStr(<<Plus, "a">>) /\ ~ValidStr(<<Hash, "a">>) /\ ~ValidStr(<<"a", Hash>>)
             /\ ~ValidStr(<<Hash, Sep, "a">>) /\ ~ValidStr(<<Hash, Sep>>) /\ ValidStr(<<Sep, Hash>>)
             /\ ~ValidStr(<<Plus, Plus>>) /\ ValidStr(<<Plus, Sep, Plus>>) /\ ~ValidStr(<<Hash, Sep, Hash>>)
\* recursive and declarative matching coincide on every valid filter
L_RecDecl == \A f \in LVF : \A t \in LT : MatchLv(f, t) <=> MatchDecl(f, t)
\* the string-level entry points agree with the level-wise operators used for the table
L_StrEntry == \A f \in LVF : \A t \in {x \in LT : Len(x) <= 2} : MatchesStr(Str(f), Str(t)) <=> MatchLv(f, t)
\* a filter without wildcards matches exactly itself
L_Literal == \A f \in LVF : ~Wild(f) => \A t \in LT : MatchLv(f, t) <=> (t = f)
\* "#" alone matches every topic name
L_HashAll == \A t \in LT : MatchLv(<< <<Hash>> >>, t)
\* "p/#" matches a topic iff p matches the topic cut to the length of p: the parent itself (nothing
\* left) and any number of descendants
L_HashParent == \A f \in LVF : (Len(f) >= 2 /\ f[Len(f)] = <<Hash>>) =>
                   LET p == SubSeq(f, 1, Len(f) - 1) IN
                   /\ \A t \in LT : MatchLv(f, t) <=> (Len(t) >= Len(p) /\ MatchLv(p, SubSeq(t, 1, Len(p))))
                   /\ (~Wild(p) /\ TopicName(Str(p))) => MatchLv(f, p)
L_HashDesc == \A f \in LVF : f[Len(f)] = <<Hash>> =>
                 \A t \in LT : \A l \in TL : MatchLv(f, t) => MatchLv(f, t \o <<l>>)
\* '+' never reaches across a level separator: without '#' the number of levels is preserved, and
\* "+" alone matches exactly the one-level topics
L_PlusOneLevel == /\ \A f \in LVF : (\A i \in 1..Len(f) : f[i] # <<Hash>>) => \A t \in LT : MatchLv(f, t) => Len(t) = Len(f)
                  /\ \A t \in LT : MatchLv(<< <<Plus>> >>, t) <=> Len(t) = 1
\* '+' matches any one level, the empty one included: the level under a '+' is irrelevant
L_PlusAnyLevel == \A f \in LVF : \A t \in LT : \A i \in 1..Len(f) :
                     (f[i] = <<Plus>> /\ i <= Len(t)) =>
                        \A l \in TL : MatchLv(f, t) <=> MatchLv(f, [t EXCEPT ![i] = l])
\* a literal level is compared exactly: changing the topic level under a matching literal breaks the match
L_LiteralLevel == \A f \in LVF : \A t \in LT : \A i \in 1..Len(f) :
                     (MatchLv(f, t) /\ f[i] \in PlainFL /\ i <= Len(t)) =>
                        \A l \in TL \ {t[i]} : ~MatchLv(f, [t EXCEPT ![i] = l])

\* examples of MQTT 3.1.1 section 4.7.1.2 / 4.7.1.3 / 4.7.3 (one atom per word)
Sl == Sep
L_Examples ==
    LET sp == "sport" te == "tennis" p1 == "player1" p2 == "player2" rk == "ranking" sc == "score" wi == "wimbledon" fi == "finance"
        F1 == <<sp, Sl, te, Sl, p1, Sl, Hash>>
    IN  /\ ValidStr(F1)
        /\ MatchesStr(F1, <<sp, Sl, te, Sl, p1>>)
        /\ MatchesStr(F1, <<sp, Sl, te, Sl, p1, Sl, rk>>)
        /\ MatchesStr(F1, <<sp, Sl, te, Sl, p1, Sl, sc, Sl, wi>>)
        /\ ~MatchesStr(F1, <<sp, Sl, te, Sl, p2>>)
        /\ MatchesStr(<<sp, Sl, Hash>>, <<sp>>)                          \* "sport/#" also matches the singular "sport"
        /\ ValidStr(<<Hash>>) /\ ValidStr(<<sp, Sl, te, Sl, Hash>>)
        /\ ~ValidStr(<<sp, Sl, te, Hash>>)                               \* "sport/tennis#" is not valid
        /\ ~ValidStr(<<sp, Sl, te, Sl, Hash, Sl, rk>>)                   \* "sport/tennis/#/ranking" is not valid
        /\ MatchesStr(<<sp, Sl, te, Sl, Plus>>, <<sp, Sl, te, Sl, p1>>)
        /\ MatchesStr(<<sp, Sl, te, Sl, Plus>>, <<sp, Sl, te, Sl, p2>>)
        /\ ~MatchesStr(<<sp, Sl, te, Sl, Plus>>, <<sp, Sl, te, Sl, p1, Sl, rk>>)
        /\ ~MatchesStr(<<sp, Sl, Plus>>, <<sp>>)                         \* "sport/+" does not match "sport"
        /\ MatchesStr(<<sp, Sl, Plus>>, <<sp, Sl>>)                      \* but it does match "sport/"
        /\ ValidStr(<<Plus>>) /\ ValidStr(<<Plus, Sl, te, Sl, Hash>>) /\ ValidStr(<<sp, Sl, Plus, Sl, p1>>)
        /\ ~ValidStr(<<sp, Plus>>)                                       \* "sport+" is not valid
        /\ MatchesStr(<<Plus, Sl, Plus>>, <<Sl, fi>>)                    \* "/finance" matches "+/+" and "/+"
        /\ MatchesStr(<<Sl, Plus>>, <<Sl, fi>>)
        /\ ~MatchesStr(<<Plus>>, <<Sl, fi>>)                             \* but not "+"
        /\ ~MatchesStr(<<sp>>, <<"Sport">>) /\ ~MatchesStr(<<"a", Sl>>, <<"a">>) /\ ~MatchesStr(<<Sl, "a">>, <<"a">>)

\* Dispatch: strictly increasing handler indices (registration order, one invocation per registration),
\* exactly the accepted + matching ones; rejected registrations change nothing but the numbering
LemPool == {<<Hash>>, <<Plus>>, <<"a", Sep, Hash>>, <<"a">>, <<"a", Plus>>, <<Hash, Sep, "a">>, << >>}
L_Dispatch ==
    \A regs \in SeqsUpTo(LPool(LemPool), 3) : \A t \in {x \in LT : Len(x) <= 2} :
        LET d == Dispatch(regs, Str(t))
            ok == SelectSeq(regs, ValidStr)                 \* what a mux that was only offered the valid ones holds
            d2 == Dispatch(ok, Str(t))
        IN  /\ \A k \in 1..(Len(d) - 1) : d[k] < d[k + 1]
            /\ {d[k] : k \in 1..Len(d)} = {i \in 1..Len(regs) : Accepted(regs)[i] /\ MatchesStr(regs[i], Str(t))}
            /\ Len(d) = Len(d2) /\ \A k \in 1..Len(d) : regs[d[k]] = ok[d2[k]]
            /\ \A i, j \in 1..Len(regs) : regs[i] = regs[j] => ((\E k \in 1..Len(d) : d[k] = i) <=> (\E k \in 1..Len(d) : d[k] = j))

ASSUME Lem => Assert(L_RoundTrip, "L_RoundTrip")
ASSUME Lem => Assert(L_ValidChars, "L_ValidChars")
ASSUME Lem => Assert(L_Count, "L_Count")
ASSUME Lem => Assert(L_Invalid, "L_Invalid")
ASSUME Lem => Assert(L_RecDecl, "L_RecDecl")
ASSUME Lem => Assert(L_StrEntry, "L_StrEntry")
ASSUME Lem => Assert(L_Literal, "L_Literal")
ASSUME Lem => Assert(L_HashAll, "L_HashAll")
ASSUME Lem => Assert(L_HashParent, "L_HashParent")
ASSUME Lem => Assert(L_HashDesc, "L_HashDesc")
ASSUME Lem => Assert(L_PlusOneLevel, "L_PlusOneLevel")
ASSUME Lem => Assert(L_PlusAnyLevel, "L_PlusAnyLevel")
ASSUME Lem => Assert(L_LiteralLevel, "L_LiteralLevel")
ASSUME Lem => Assert(L_Examples, "L_Examples")
ASSUME Lem => Assert(L_Dispatch, "L_Dispatch")
\* n lemmas checked over f filters (v of them valid) and t topic names
ASSUME Lem => PrintT(<<"LEMMAS", [n |-> 15, f |-> Cardinality(LF), v |-> Cardinality(LVF), t |-> Cardinality(LT)]>>)

-----------------------------------------------------------------------------
(***************************************************************************)
(* Phase "table": the truth table.  FSeq / TSeq fix an order (TLC's) so that *)
(* topics can be referred to by index.  One row per filter:                   *)
(*   s = the filter string, v = valid?, m = indices (into topics.ndjson) of   *)
(*   the topic names it matches (empty and meaningless when invalid).         *)
(* The same sequence of filters, forwards and backwards, is also one big      *)
(* ServeMux registration order with the invalid filters interleaved; d[j] =   *)
(* expected handler indices for topic j.                                      *)
(***************************************************************************)
Tab == "table" \in Phases
FSeq == IF Tab THEN SetToSeq(FilterLvs(Depth)) ELSE << >>
TSeq == IF Tab THEN SetToSeq(TopicLvs(Depth)) ELSE << >>
FVal == [i \in 1..Len(FSeq) |-> ValidF(FSeq[i])]
\* the table uses the level sequences directly; this is the same as going through the strings:
TableRoundTrip == /\ \A i \in 1..Len(FSeq) : Levels(Str(FSeq[i])) = FSeq[i]
                  /\ \A j \in 1..Len(TSeq) : Levels(Str(TSeq[j])) = TSeq[j] /\ TopicName(Str(TSeq[j]))
TableRows == [i \in 1..Len(FSeq) |->
                [s |-> Str(FSeq[i]), v |-> FVal[i],
                 m |-> IF FVal[i] THEN SelectSeq(Idx(Len(TSeq)), LAMBDA j : MatchLv(FSeq[i], TSeq[j])) ELSE << >>]]
BigMux(order) ==    \* order: a permutation of 1..Len(FSeq) as a sequence
    [regs |-> [k \in 1..Len(order) |-> Str(FSeq[order[k]])],
     v    |-> [k \in 1..Len(order) |-> FVal[order[k]]],
     d    |-> [j \in 1..Len(TSeq) |-> SelectSeq(Idx(Len(order)), LAMBDA k : FVal[order[k]] /\ MatchLv(FSeq[order[k]], TSeq[j]))]]

ASSUME Tab => Assert(TableRoundTrip, "TableRoundTrip")
ASSUME Tab => ndJsonSerialize("topics.ndjson", [j \in 1..Len(TSeq) |-> [s |-> Str(TSeq[j])]])
ASSUME Tab => ndJsonSerialize("table.ndjson", TableRows)
ASSUME Tab => ndJsonSerialize("bigmux.ndjson", <<BigMux(Idx(Len(FSeq))), BigMux([k \in 1..Len(FSeq) |-> Len(FSeq) + 1 - k])>>)
ASSUME Tab => PrintT(<<"TABLE", [filters |-> Len(FSeq), topics |-> Len(TSeq),
                                  valid |-> Cardinality({i \in 1..Len(FSeq) : FVal[i]})]>>)

-----------------------------------------------------------------------------
(***************************************************************************)
(* Phase "mux": every registration sequence of length 1..MuxLen over a pool  *)
(* of filters (repetitions included, so the same filter registered twice and *)
(* invalid filters between valid ones all occur), served on every topic name *)
(* with up to MuxTopicDepth levels.  Row: regs (filter strings in Handle     *)
(* order), v (accepted?), d[j] (handler indices expected for topic j of      *)
(* muxtopics.ndjson, in invocation order).                                   *)
(***************************************************************************)
Mx == "mux" \in Phases
MuxPool == {<< <<Hash>> >>, << <<Plus>> >>, << <<"a">>, <<Hash>> >>, << <<"a">>, <<Plus>> >>, << <<Plus>>, <<Plus>> >>,
            << <<"a">> >>, << <<"a">>, <<"b">> >>, << <<Plus>>, <<"b">>, <<Hash>> >>,
            << <<"a", Plus>> >>, << <<Hash>>, <<"a">> >>, << << >> >>}
MTSeq == IF Mx THEN SetToSeq(TopicLvs(MuxTopicDepth)) ELSE << >>
PoolHit == [p \in MuxPool |-> [j \in 1..Len(MTSeq) |-> ValidF(p) /\ MatchLv(p, MTSeq[j])]]
MuxRow(regs) ==
    [regs |-> [i \in 1..Len(regs) |-> Str(regs[i])],
     v    |-> [i \in 1..Len(regs) |-> ValidF(regs[i])],
     d    |-> [j \in 1..Len(MTSeq) |-> SelectSeq(Idx(Len(regs)), LAMBDA i : PoolHit[regs[i]][j])]]
MuxSeqs == IF Mx THEN SetToSeq(SeqsUpTo(MuxPool, MuxLen)) ELSE << >>
\* the memoised table agrees with the definition of Dispatch on the strings (spot check on the short ones)
MuxAgrees == \A regs \in (IF Mx THEN SeqsUpTo(MuxPool, 2) ELSE {}) : \A j \in 1..Len(MTSeq) :
                MuxRow(regs).d[j] = Dispatch([i \in 1..Len(regs) |-> Str(regs[i])], Str(MTSeq[j]))

ASSUME Mx => Assert(MuxAgrees, "MuxAgrees")
ASSUME Mx => ndJsonSerialize("muxtopics.ndjson", [j \in 1..Len(MTSeq) |-> [s |-> Str(MTSeq[j])]])
ASSUME Mx => ndJsonSerialize("mux.ndjson", [k \in 1..Len(MuxSeqs) |-> MuxRow(MuxSeqs[k])])
ASSUME Mx => PrintT(<<"MUX", [muxes |-> Len(MuxSeqs), topics |-> Len(MTSeq)]>>)

-----------------------------------------------------------------------------
(***************************************************************************)
(* Phase "random": groups of concrete character strings (longer levels,      *)
(* wildcard characters inside levels, unicode, odd separators) produced by   *)
(* the check from VERIF_SEED and handed in as rand_in.ndjson, one group per  *)
(* line: [id, fs = filter strings, ts = topic strings], every string a       *)
(* sequence of one-character atoms.  The expectation is computed here, with  *)
(* the string-level operators on exactly those characters: v = ValidStr,      *)
(* m[i] = indices of matched topics (valid filters only), d[j] = Dispatch of  *)
(* the group's filters registered in the given order, for topic j.            *)
(***************************************************************************)
Rnd == "random" \in Phases
RandRow(g) ==
    LET fl == [i \in 1..Len(g.fs) |-> Levels(g.fs[i])]
        tl == [j \in 1..Len(g.ts) |-> Levels(g.ts[j])]
        v  == [i \in 1..Len(g.fs) |-> ValidStr(g.fs[i])]
    IN  [id |-> g.id, v |-> v,
         m  |-> [i \in 1..Len(g.fs) |-> IF v[i] THEN SelectSeq(Idx(Len(g.ts)), LAMBDA j : MatchLv(fl[i], tl[j])) ELSE << >>],
         d  |-> [j \in 1..Len(g.ts) |-> Dispatch(g.fs, g.ts[j])]]
RandOut(in) == /\ Assert(\A k \in 1..Len(in) : \A j \in 1..Len(in[k].ts) : TopicName(in[k].ts[j]), "generator produced a non-topic-name")
               /\ ndJsonSerialize("rand_out.ndjson", [k \in 1..Len(in) |-> RandRow(in[k])])
               /\ PrintT(<<"RANDOM", [groups |-> Len(in)]>>)
ASSUME Rnd => RandOut(ndJsonDeserialize("rand_in.ndjson"))
=============================================================================
