------------------------------ MODULE Blocking ------------------------------
(***************************************************************************)
(* C11 -- every blocking call returns when its context is cancelled or the  *)
(* connection ends.  One BaseClient connection, one Connect in flight or     *)
(* done, and a set of blocking calls, each with its waiting locations made   *)
(* explicit (the selects and lock acquisitions of publish.go:129-225,         *)
(* subscribe.go:62-108, unsubscribe.go:42-77, pingreq.go:23-52,              *)
(* connect.go:109-170, disconnect.go:22-33):                                 *)
(*   atRLock     c.muConnecting.RLock() while a Connect holds the lock        *)
(*   waitAck     select { connClosed, ctx.Done, own acknowledgement }         *)
(*   waitComp    QoS 2 after PUBREC: select { connClosed, ctx.Done, PUBCOMP } *)
(*   waitConnack Connect: select { connClosed, ctx.Done, CONNACK }            *)
(* and the causes: the call's context is cancelled / expires, the transport   *)
(* is closed locally, the peer closes, a malformed packet arrives.            *)
(* The environment never sends the acknowledgement the call is waiting for,   *)
(* so the only ways out are the ones the property is about.                    *)
(* BugLockIgnoresCtx = TRUE is the code as it is: the lock acquisition does    *)
(* not look at the context (finding F13).                                      *)
(***************************************************************************)
EXTENDS Integers, Sequences, FiniteSets, TLC, Json, SequencesExt

CONSTANTS Calls,              \* function: call name -> kind ("pub1","pub2","sub","unsub","ping","disconnect")
          ConnectInFlight,    \* a Connect is waiting for CONNACK (holding muConnecting) while the calls are issued
          BugLockIgnoresCtx,
          BugNoConnClosedArm, \* non-vacuity: a select without the connClosed arm
          BugCloseNoopAfterDisc \* Close() does nothing once a Disconnect has marked the client Disconnected (seeded change c11g)

C == DOMAIN Calls
VARIABLES loc,        \* per call: "start" | "atRLock" | "waitAck" | "waitComp" | "returned"
          res,        \* per call: "none" | "ctx" | "closed" | "ok"
          ctxDone,    \* per call: its context is cancelled / expired
          connecting, \* Connect holds muConnecting
          connLoc,    \* Connect: "waitConnack" | "returned" | "none"
          connCtxDone,
          topen, serving, done,
          marked,      \* some Disconnect has set the state to Disconnected (disconnect.go:24, BEFORE it writes DISCONNECT)
          closeCalled  \* the application called Close()
vars == <<loc, res, ctxDone, connecting, connLoc, connCtxDone, topen, serving, done, marked, closeCalled>>

Init == /\ loc = [c \in C |-> "start"] /\ res = [c \in C |-> "none"] /\ ctxDone = [c \in C |-> FALSE]
        /\ connecting = ConnectInFlight /\ connLoc = IF ConnectInFlight THEN "waitConnack" ELSE "none"
        /\ connCtxDone = FALSE /\ topen = TRUE /\ serving = TRUE /\ done = FALSE /\ marked = FALSE /\ closeCalled = FALSE

\* ---- the calls ----
\* Disconnect: state := Disconnected, then the DISCONNECT packet is written, then the transport is closed (disconnect.go:22-33)
Enter(c) == /\ loc[c] = "start"
            /\ loc' = [loc EXCEPT ![c] = IF connecting THEN "atRLock" ELSE IF Calls[c] = "disconnect" THEN "discWrite" ELSE "waitAck"]
            /\ marked' = (marked \/ (~connecting /\ Calls[c] = "disconnect"))
            /\ UNCHANGED <<res, ctxDone, connecting, connLoc, connCtxDone, topen, serving, done, closeCalled>>
\* the lock is released when Connect returns
GotLock(c) == /\ loc[c] = "atRLock" /\ ~connecting
              /\ IF ~topen
                 THEN loc' = [loc EXCEPT ![c] = "returned"] /\ res' = [res EXCEPT ![c] = "closed"] /\ UNCHANGED marked   \* the write fails on a closed transport
                 ELSE /\ loc' = [loc EXCEPT ![c] = IF Calls[c] = "disconnect" THEN "discWrite" ELSE "waitAck"]
                      /\ marked' = (marked \/ Calls[c] = "disconnect") /\ UNCHANGED res
              /\ UNCHANGED <<ctxDone, connecting, connLoc, connCtxDone, topen, serving, done, closeCalled>>
\* the DISCONNECT write succeeds: Disconnect closes the transport and returns nil
DiscWriteOk(c) == /\ loc[c] = "discWrite" /\ topen
                  /\ topen' = FALSE /\ loc' = [loc EXCEPT ![c] = "returned"] /\ res' = [res EXCEPT ![c] = "ok"]
                  /\ UNCHANGED <<ctxDone, connecting, connLoc, connCtxDone, serving, done, marked, closeCalled>>
\* ... or fails (a transport that reports an error, or one that was closed meanwhile): Disconnect returns the error and
\* leaves the transport as it is -- ending the connection is then up to the application's Close()
DiscWriteFail(c) == /\ loc[c] = "discWrite"
                    /\ loc' = [loc EXCEPT ![c] = "returned"] /\ res' = [res EXCEPT ![c] = "closed"]
                    /\ UNCHANGED <<ctxDone, connecting, connLoc, connCtxDone, topen, serving, done, marked, closeCalled>>
\* a context-aware lock acquisition would return here
LockCtx(c) == /\ loc[c] = "atRLock" /\ ctxDone[c] /\ ~BugLockIgnoresCtx
              /\ loc' = [loc EXCEPT ![c] = "returned"] /\ res' = [res EXCEPT ![c] = "ctx"]
              /\ UNCHANGED <<ctxDone, connecting, connLoc, connCtxDone, topen, serving, done, marked, closeCalled>>
\* QoS 2: PUBREC arrives (the only acknowledgement the environment ever sends), PUBREL is written
Rec(c) == /\ loc[c] = "waitAck" /\ Calls[c] = "pub2" /\ topen
          /\ loc' = [loc EXCEPT ![c] = "waitComp"]
          /\ UNCHANGED <<res, ctxDone, connecting, connLoc, connCtxDone, topen, serving, done, marked, closeCalled>>
WakeCtx(c) == /\ loc[c] \in {"waitAck", "waitComp"} /\ ctxDone[c]
              /\ loc' = [loc EXCEPT ![c] = "returned"] /\ res' = [res EXCEPT ![c] = "ctx"]
              /\ UNCHANGED <<ctxDone, connecting, connLoc, connCtxDone, topen, serving, done, marked, closeCalled>>
WakeClosed(c) == /\ loc[c] \in {"waitAck", "waitComp"} /\ done /\ ~BugNoConnClosedArm
                 /\ loc' = [loc EXCEPT ![c] = "returned"] /\ res' = [res EXCEPT ![c] = "closed"]
                 /\ UNCHANGED <<ctxDone, connecting, connLoc, connCtxDone, topen, serving, done, marked, closeCalled>>
\* ---- Connect in flight ----
ConnWake == /\ connLoc = "waitConnack" /\ (done \/ connCtxDone)
            /\ connLoc' = "returned" /\ connecting' = FALSE
            /\ UNCHANGED <<loc, res, ctxDone, connCtxDone, topen, serving, done, marked, closeCalled>>
\* ---- causes ----
Cancel(c) == /\ ~ctxDone[c] /\ loc[c] # "returned" /\ ctxDone' = [ctxDone EXCEPT ![c] = TRUE]
             /\ UNCHANGED <<loc, res, connecting, connLoc, connCtxDone, topen, serving, done, marked, closeCalled>>
CancelConnect == /\ connLoc = "waitConnack" /\ ~connCtxDone /\ connCtxDone' = TRUE
                 /\ UNCHANGED <<loc, res, ctxDone, connecting, connLoc, topen, serving, done, marked, closeCalled>>
EndConn == /\ topen /\ topen' = FALSE          \* peer close, or the reader closing after a malformed packet
           /\ UNCHANGED <<loc, res, ctxDone, connecting, connLoc, connCtxDone, serving, done, marked, closeCalled>>
\* the application's Close(): closes the transport whatever state the client is in (conn.go:50-53)
LocalClose == /\ ~closeCalled /\ closeCalled' = TRUE
              /\ topen' = IF BugCloseNoopAfterDisc /\ marked THEN topen ELSE FALSE
              /\ UNCHANGED <<loc, res, ctxDone, connecting, connLoc, connCtxDone, serving, done, marked>>
\* the reader goroutine: sees the closed transport, runs its epilogue, closes connClosed, exits
ReaderExit == /\ serving /\ ~topen /\ serving' = FALSE /\ done' = TRUE
              /\ UNCHANGED <<loc, res, ctxDone, connecting, connLoc, connCtxDone, topen, marked, closeCalled>>

Next == (\E c \in C : Enter(c) \/ GotLock(c) \/ LockCtx(c) \/ Rec(c) \/ WakeCtx(c) \/ WakeClosed(c) \/ Cancel(c) \/ DiscWriteOk(c) \/ DiscWriteFail(c))
        \/ ConnWake \/ CancelConnect \/ EndConn \/ LocalClose \/ ReaderExit
\* A4: Transport.Write returns (DiscWriteOk or DiscWriteFail happens)
Lib == (\E c \in C : Enter(c) \/ GotLock(c) \/ LockCtx(c) \/ WakeCtx(c) \/ WakeClosed(c) \/ DiscWriteOk(c) \/ DiscWriteFail(c)) \/ ConnWake \/ ReaderExit
Spec == Init /\ [][Next]_vars /\ WF_vars(Lib)

\* ---- C11 ----
CancelledReturns == \A c \in C : ctxDone[c] ~> (loc[c] = "returned")
ClosedReturnsAll == (~topen) ~> (\A c \in C : loc[c] \in {"start", "returned"})
ConnectReturns == (connLoc = "waitConnack" /\ (connCtxDone \/ ~topen)) ~> (connLoc = "returned")
ReaderExits == (~topen) ~> (done /\ ~serving)
\* a cancelled context is reported as that context's error (when nothing else ended the call first)
CtxErrorReported == \A c \in C : (res[c] = "ctx") => ctxDone[c]
DoneOnlyIfEnded == done => ~topen
\* a local Close ends the connection -- also after a Disconnect whose DISCONNECT could not be written
CloseEnds == closeCalled => ~topen

\* ---- the cases executed on the real code: (kind, location, cause) and what must be observed ----
Kinds == {"pub1", "pub2", "sub", "unsub", "ping", "connect", "disconnect", "rconnect", "rdisconnect"}
\* retryWaitComp: the second half of a QoS 2 publish repeated through the retry handle of an interrupted call -- on ANOTHER
\* connection and with ANOTHER context than the call that produced the handle (seeded change c11h); for the model it is
\* location waitComp of a new call
LocsOf(k) == CASE k = "pub2" -> {"atRLock", "waitAck", "waitComp", "retryWaitComp"}
               \* inWrite: the request is still inside Transport.Write (a peer that stopped reading) when the application calls
               \* Close(): closing must not wait for that write (it is what ends it), seeded change c11j
               [] k \in {"pub1", "sub", "unsub", "ping"} -> {"atRLock", "waitAck", "handlerBusy", "inWrite"}
               [] k = "connect" -> {"waitConnack", "connectWrite"}
               [] k = "disconnect" -> {"atRLock", "handlerBusy", "fromHandler"}
               [] k = "rconnect" -> {"dialFailing", "waitConnack"}
               \* connectCancelledAtActive: Disconnect after a Connect whose context was cancelled at the moment the first
               \* handshake succeeded (the loop must not wait for a Connect that has already returned: seeded change c11i)
               [] OTHER -> {"loopDialing", "loopConnected", "connectCancelledAtActive"}
Causes == {"ctxCancel", "ctxDeadline", "localClose", "peerClose", "malformed", "deadTransport", "otherDisconnect",
           "closeAfterFailedDisconnect", "closeAfterStuckDisconnect"}
Applicable(k, l, cause) ==
  /\ (k = "rdisconnect" => cause = "none")
  /\ (k = "rconnect" => cause \in {"ctxCancel", "ctxDeadline"})
  /\ (l = "atRLock" => cause \in {"ctxCancel", "ctxDeadline", "localClose", "peerClose"})
  /\ (l = "inWrite" => cause = "localClose")
  /\ (l = "retryWaitComp" => cause \in {"ctxCancel", "ctxDeadline", "localClose", "peerClose", "malformed"})
  \* while the application's handler keeps the reader goroutine busy no acknowledgement is dispatched and
  \* Done() cannot be closed: a waiting call is released by its context only; Disconnect itself does not
  \* wait for the reader (it writes DISCONNECT and closes the transport)
  /\ (l \in {"handlerBusy", "fromHandler"} => cause \in {"ctxCancel", "ctxDeadline"})
  \* the transport dies while CONNECT is being written: Connect fails, and the connection has ended (Done() closed)
  /\ (l = "connectWrite" <=> cause = "deadTransport")
  \* another goroutine calls Disconnect while the call waits for its acknowledgement (a local end of the connection)
  /\ (cause = "otherDisconnect" => (l \in {"waitAck", "waitComp"} /\ k \in {"pub1", "pub2", "sub", "unsub", "ping"}))
  \* another goroutine's Disconnect could not write DISCONNECT (the write failed, or is still blocked when Close is called:
  \* a blocked write returns once the transport is closed) and the application then calls Close()
  /\ (cause \in {"closeAfterFailedDisconnect", "closeAfterStuckDisconnect"} => (l \in {"waitAck", "waitComp"} /\ k \in {"pub1", "pub2", "sub", "unsub", "ping"}))
Cases == {[k |-> k, l |-> l, cause |-> cause,
           \* what the statement demands: the call returns; with which error class; is Done() closed afterwards
           \* (Disconnect has no waiting location of its own besides the lock: with the handler busy it simply returns)
           cls |-> CASE k = "disconnect" /\ l \in {"handlerBusy", "fromHandler"} -> "any"
                     [] cause = "ctxCancel" -> "canceled" [] cause = "ctxDeadline" -> "deadline" [] cause = "none" -> "any" [] OTHER -> "error",
           done |-> cause \in {"localClose", "peerClose", "malformed", "deadTransport", "otherDisconnect", "closeAfterFailedDisconnect", "closeAfterStuckDisconnect"}] :
          k \in Kinds, l \in UNION {LocsOf(x) : x \in Kinds}, cause \in Causes \cup {"none"}}
CaseSet0 == {x \in Cases : x.l \in LocsOf(x.k) /\ Applicable(x.k, x.l, x.cause) /\ (x.cause = "none" <=> x.k = "rdisconnect")}
\* benign broker traffic that precedes the call on the established connection and concerns nobody: an unsolicited
\* (or late) PINGRESP, acknowledgements for identifiers nobody waits for, an application message.  None of it is
\* a step of the model above (no variable changes), so the demands of a case are the same with and without it.
Preludes == {"pingresp", "foreignAcks", "inbound", "connacks"}   \* connacks: the broker repeats its CONNACK three times
WithPre(x, p) == [k |-> x.k, l |-> x.l, cause |-> x.cause, cls |-> x.cls, done |-> x.done, pre |-> p]
CaseSet == {WithPre(x, "") : x \in CaseSet0}
           \cup {WithPre(x, p) : x \in {y \in CaseSet0 : y.l \in {"waitAck", "waitComp"}}, p \in Preludes}   \* (not retryWaitComp)
ASSUME ndJsonSerialize("blocking_cases.ndjson", SetToSeq(CaseSet))
=============================================================================
