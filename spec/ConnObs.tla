------------------------------- MODULE ConnObs -------------------------------
(***************************************************************************)
(* C16 -- Layer-1 observers for "connection state, Err() and Done() report  *)
(* what really happened", evaluated by TLC on traces recorded from the real *)
(* code: harness family "conn" (one BaseClient, Cfg.mode = "base") and       *)
(* family "retry" (reconnecting client with keep-alive, Cfg.mode =           *)
(* "reconn").  Trace-driven and deterministic like MqttEnv; the clauses of   *)
(* the statement are the observers C16_*; the design-level counterpart is    *)
(* module Conn (exhaustive lifecycle model).                                 *)
(***************************************************************************)
EXTENDS Integers, Sequences, FiniteSets, TLC, Json

Traces == ndJsonDeserialize("traces.ndjson")

VARIABLES tid, l, fresh,
  conns,     \* per dialled transport g: [open, accepted, connackRead, started, disc, graceful, closeSeq]
  cbs,       \* per g: sequence of ConnState callbacks [s, cls, err]
  samples,   \* Sample events
  discCalls, \* number of Disconnect calls started
  ended,     \* End event seen
  hist       \* C09 / C13: [dials, writes (first per g + CONNECTs + PINGREQs), closes, rets, hwaits, idle]
vars == <<tid, l, fresh, conns, cbs, samples, discCalls, ended, hist>>

T == Traces[tid].evs
Cfg == Traces[tid].cfg
Ev == T[l]
G == 1..Len(conns)

Init == /\ tid \in 1..Len(Traces) /\ l = 1 /\ fresh = ""
        /\ conns = << >> /\ cbs = << >> /\ samples = << >> /\ discCalls = 0 /\ ended = FALSE
        /\ hist = [dials |-> << >>, writes |-> << >>, closes |-> << >>, rets |-> << >>, hwaits |-> << >>, idle |-> [e |-> "none"]]

NewConn == [open |-> TRUE, accepted |-> FALSE, connackRead |-> FALSE, started |-> FALSE, disc |-> FALSE, graceful |-> FALSE, closeSeq |-> 0]

Step ==
  /\ l <= Len(T) /\ l' = l + 1 /\ UNCHANGED tid /\ fresh' = Ev.e
  /\ hist' = CASE Ev.e = "Dial" -> [hist EXCEPT !.dials = Append(@, Ev)]
               [] Ev.e = "Write" /\ Ev.req -> [hist EXCEPT !.writes = Append(@, Ev)]
               [] Ev.e = "Close" -> [hist EXCEPT !.closes = Append(@, Ev)]
               [] Ev.e = "Ret" -> [hist EXCEPT !.rets = Append(@, Ev)]
               [] Ev.e = "H:reconnWait" -> [hist EXCEPT !.hwaits = Append(@, Ev)]
               [] Ev.e = "Idle" -> [hist EXCEPT !.idle = Ev]
               [] OTHER -> hist
  /\ CASE Ev.e = "Dial" /\ Ev.res = "ok" ->
            /\ conns' = Append(conns, NewConn) /\ cbs' = Append(cbs, << >>)
            /\ UNCHANGED <<samples, discCalls, ended>>
       [] Ev.e = "Write" ->
            /\ conns' = [conns EXCEPT ![Ev.g].started = TRUE,
                                      ![Ev.g].accepted = @ \/ (Ev.p = "CONNECT" /\ Ev.o \in {"ok", "cutAfter", "dropAck", "lateAck"} /\ Ev.connack = "accepted"),
                                      ![Ev.g].graceful = @ \/ (Ev.p = "DISCONNECT" /\ Ev.o = "ok" /\ conns[Ev.g].accepted /\ conns[Ev.g].connackRead)]
            /\ UNCHANGED <<cbs, samples, discCalls, ended>>
       [] Ev.e = "Read" ->
            /\ conns' = IF Ev.p = "CONNACK" /\ conns[Ev.g].accepted THEN [conns EXCEPT ![Ev.g].connackRead = TRUE] ELSE conns
            /\ UNCHANGED <<cbs, samples, discCalls, ended>>
       [] Ev.e = "Close" ->
            /\ conns' = [conns EXCEPT ![Ev.g].open = FALSE, ![Ev.g].closeSeq = l]
            /\ UNCHANGED <<cbs, samples, discCalls, ended>>
       [] Ev.e = "ConnState" ->
            /\ cbs' = [cbs EXCEPT ![Ev.g] = Append(@, [s |-> Ev.s, cls |-> Ev.cls, err |-> Ev.err, at |-> l])]
            /\ UNCHANGED <<conns, samples, discCalls, ended>>
       [] Ev.e = "Call" /\ Ev.kind = "Disconnect" ->
            \* Disconnect is addressed to the client that is current at the time of the call
            /\ discCalls' = discCalls + 1
            /\ conns' = IF Len(conns) > 0 THEN [conns EXCEPT ![Len(conns)].disc = TRUE] ELSE conns
            /\ UNCHANGED <<cbs, samples, ended>>
       [] Ev.e = "Sample" ->
            /\ samples' = Append(samples, Ev) /\ UNCHANGED <<conns, cbs, discCalls, ended>>
       [] Ev.e = "End" ->
            /\ ended' = TRUE /\ UNCHANGED <<conns, cbs, samples, discCalls>>
       [] OTHER -> UNCHANGED <<conns, cbs, samples, discCalls, ended>>

Spec == Init /\ [][Step]_vars

\* ---- observers ----------------------------------------------------------
CountS(g, s) == Cardinality({i \in 1..Len(cbs[g]) : cbs[g][i].s = s})
LastCb == LET g == T[l - 1].g IN cbs[g][Len(cbs[g])]
CbG == T[l - 1].g
Base == Cfg.mode = "base"

C16_ActiveOnce == fresh = "ConnState" => CountS(CbG, "Active") <= 1
C16_ActiveOnlyAfterAccept == (fresh = "ConnState" /\ LastCb.s = "Active") => conns[CbG].connackRead
C16_ClosedOnce == fresh = "ConnState" => CountS(CbG, "Closed") <= 1
C16_ClosedHasError == (fresh = "ConnState" /\ LastCb.s = "Closed") => LastCb.cls # "nil"
C16_DisconnectedOnce == fresh = "ConnState" => CountS(CbG, "Disconnected") <= 1
C16_NoClosedAfterDisconnected ==
  (fresh = "ConnState" /\ LastCb.s = "Closed") =>
     ~\E i \in 1..(Len(cbs[CbG]) - 1) : cbs[CbG][i].s = "Disconnected"
C16_DisconnectedOnlyIfCalled == (fresh = "ConnState" /\ LastCb.s = "Disconnected") => conns[CbG].disc

\* Err() is nil on a healthy connection ...
C16_ErrNilWhileHealthy ==
  fresh = "Sample" =>
    LET s == samples[Len(samples)]  c == conns[s.g] IN
    (c.open /\ c.accepted /\ c.connackRead /\ ~c.disc /\ ~s.closed) => s.err = "nil"
\* ... and after a graceful Disconnect
C16_ErrNilAfterGraceful ==
  fresh = "Sample" =>
    LET s == samples[Len(samples)] IN conns[s.g].graceful => s.err = "nil"
\* Done() closed only if the connection has ended
C16_DoneOnlyIfEnded ==
  fresh = "Sample" =>
    LET s == samples[Len(samples)] IN s.done => ~conns[s.g].open

\* at the end of a run (everything settled)
FinalSample(g) == {i \in 1..Len(samples) : samples[i].g = g /\ samples[i].final}
C16_ClosedExactlyOnceWithoutDisconnect ==
  (fresh = "End" /\ Base) =>
    \A g \in G : (conns[g].started /\ ~conns[g].open /\ ~conns[g].disc) => CountS(g, "Closed") = 1
C16_DisconnectedExactlyOnce ==
  (fresh = "End" /\ Base) =>
    \A g \in G : (conns[g].started /\ conns[g].disc) => CountS(g, "Disconnected") = 1
C16_ClosedErrIsErr ==
  fresh = "End" =>
    \A g \in G : \A i \in 1..Len(cbs[g]) : cbs[g][i].s = "Closed" =>
       \A k \in FinalSample(g) : samples[k].errs = cbs[g][i].err
C16_DoneIfEnded ==
  fresh = "End" =>
    \A g \in G : (conns[g].started /\ ~conns[g].open) => \A k \in FinalSample(g) : samples[k].done


\* ---- C09: reconnect lifecycle -------------------------------------------
Min2(a, b) == IF a < b THEN a ELSE b
RECURSIVE P2(_)
P2(k) == IF k = 0 THEN 1 ELSE 2 * P2(k - 1)
ND == Len(hist.dials)
AcceptedConn(g) == g \in G /\ conns[g].accepted /\ conns[g].connackRead
\* index (in hist.dials) of the last dial before n whose connection was established; 0 if none
LastSuccessBefore(n) == LET S == {i \in 1..(n - 1) : hist.dials[i].res = "ok" /\ AcceptedConn(hist.dials[i].g)}
                        IN IF S = {} THEN 0 ELSE CHOOSE i \in S : \A j \in S : j <= i
ExpectedWaitUs(k) == Min2(Cfg.reconnBaseUs * P2(Min2(k, 20)), Cfg.reconnMaxUs)
\* never two transports open at once
C09_OneTransport == (fresh = "Dial" /\ hist.dials[ND].res = "ok") => hist.dials[ND].open = 0
\* every connection begins with exactly one CONNECT carrying the same client id and options
WritesOn(g) == {i \in 1..Len(hist.writes) : hist.writes[i].g = g}
C09_ConnectFirst ==
  (fresh = "Write" /\ T[l - 1].req) =>
    LET n == Len(hist.writes)  w == hist.writes[n]  first == \A i \in WritesOn(w.g) : i >= n IN
    /\ first <=> (w.p = "CONNECT")
    /\ (w.p = "CONNECT") => \A i \in 1..n : hist.writes[i].p = "CONNECT" =>
           /\ hist.writes[i].cid = w.cid /\ hist.writes[i].cflags = w.cflags /\ hist.writes[i].keepalive = w.keepalive
\* lower bound on the time between the end of the previous attempt and this dial
C09_BackoffLowerBound ==
  (fresh = "Dial" /\ ND >= 2 /\ hist.dials[ND].res # "ctx" /\ hist.dials[ND - 1].res # "ctx") =>
    LET n == ND
        s == LastSuccessBefore(n)
        k == n - (IF s = 0 THEN 1 ELSE s) - 1
        prev == hist.dials[n - 1]
        cl == {hist.closes[i].t_us : i \in {x \in 1..Len(hist.closes) : prev.res = "ok" /\ hist.closes[x].g = prev.g}}
        tprev == IF cl = {} THEN prev.t_us ELSE CHOOSE t \in cl \cup {prev.t_us} : \A u \in cl \cup {prev.t_us} : u <= t
    IN hist.dials[n].t_us - tprev >= ExpectedWaitUs(k) - 1
\* the exact back-off value the loop is about to sleep (hook event, only in hook-recording runs)
C09_BackoffExact ==
  fresh = "H:reconnWait" =>
    LET n == Len(hist.hwaits)
        h == hist.hwaits[n]
        \* waits since the last established connection
        okD == {d \in 1..ND : hist.dials[d].res = "ok" /\ AcceptedConn(hist.dials[d].g)}
        lastAcc == IF okD = {} THEN 0 ELSE hist.dials[CHOOSE d \in okD : \A e \in okD : e <= d].seq
        k == Cardinality({i \in 1..(n - 1) : hist.hwaits[i].seq > lastAcc})
    IN h.a0 = 1000 * ExpectedWaitUs(k)
\* after Disconnect has returned the client never dials again
C09_NoDialAfterDisconnect ==
  (fresh = "Dial" /\ hist.dials[ND].res # "ctx") => ~\E i \in 1..Len(hist.rets) : hist.rets[i].kind = "Disconnect"
\* a Disconnect that arrived while the loop was provably inside its back-off wait (after the hook event
\* that precedes the wait, and at least 5 ms before the wait could end) must not be followed by a dial
C09_NoDialAfterDisconnectDuringWait ==
  (fresh = "Dial" /\ hist.dials[ND].res # "ctx" /\ Len(hist.hwaits) > 0) =>
    LET hw == hist.hwaits[Len(hist.hwaits)] IN
    ~\E i \in 1..(l - 2) : /\ T[i].e = "Call" /\ T[i].kind = "Disconnect"
                            /\ T[i].t_us > hw.t_us /\ 1000 * (T[i].t_us + 5000) < 1000 * hw.t_us + hw.a0
\* ... nor after Connect was cancelled before the first connection succeeded
C09_NoDialAfterCancelledConnect ==
  (fresh = "Dial" /\ hist.dials[ND].res # "ctx") =>
     ~\E i \in 1..Len(hist.rets) : hist.rets[i].kind = "Connect" /\ hist.rets[i].res \in {"canceled", "deadline"}
                                     /\ hist.rets[i].t_us + 1000 * 20 < hist.dials[ND].t_us
\* Disconnect returns (no panic, within its generous context)
C09_DisconnectReturns ==
  (fresh = "Ret" /\ T[l - 1].kind = "Disconnect") => T[l - 1].res \in {"nil", "closedclient", "eof", "closedtransport"}
\* after an unexpected end the client dials until a connection is established
C09_Reestablished == (fresh = "Idle" /\ hist.idle.unreached = 0 /\ ~Cfg.noReestablish) => hist.idle.healthy

\* ---- C13: keep-alive of the reconnecting client ---------------------------
DroppedPings == {i \in 1..Len(hist.writes) : hist.writes[i].p = "PINGREQ" /\ hist.writes[i].o \in {"dropReq", "dropAck"}}
C13_SilentPeerDetected ==
  (fresh = "Idle" /\ hist.idle.unreached = 0) =>
    \A i \in DroppedPings :
      LET w == hist.writes[i] IN
      /\ \E c \in 1..Len(cbs[w.g]) : cbs[w.g][c].s = "Closed" /\ cbs[w.g][c].cls = "pingtimeout"
      /\ \E c \in 1..Len(hist.closes) : hist.closes[c].g = w.g /\ hist.closes[c].by = "local" /\ hist.closes[c].seq > w.seq
      /\ \E d \in 1..ND : hist.dials[d].seq > w.seq
\* the first ping that gets no response is the one that is reported: the keep-alive loop writes no further PINGREQ
\* on a connection after one of its PINGREQs went unanswered (runs without application pings in the background)
C13_TimeoutOnFirstUnanswered ==
  (fresh = "Write" /\ T[l - 1].req /\ T[l - 1].p = "PINGREQ" /\ ~Cfg.hammer) =>
    ~\E i \in DroppedPings : hist.writes[i].g = T[l - 1].g /\ hist.writes[i].seq < T[l - 1].seq
C13_OnlySilentPeer ==
  (fresh = "ConnState" /\ LastCb.cls = "pingtimeout") =>
    \E i \in DroppedPings : hist.writes[i].g = CbG

\* C16, "Closed ... together with the non-nil error that ended it": a connection reported closed by a keep-alive time-out
\* is one on which a ping really went unanswered -- not one whose PINGREQ could not be written, for instance (c16i)
\* (traces of the reconnecting client only: in the base-client scenarios of the conn family the DRIVER plays the keep-alive
\* and stores ErrPingTimeout itself, step "kaerr")
C16_ClosedCauseTruthful == Cfg.mode = "reconn" => C13_OnlySilentPeer

Obs == [ C16_ClosedCauseTruthful |-> C16_ClosedCauseTruthful, C16_ActiveOnce |-> C16_ActiveOnce, C16_ActiveOnlyAfterAccept |-> C16_ActiveOnlyAfterAccept,
         C16_ClosedOnce |-> C16_ClosedOnce, C16_ClosedHasError |-> C16_ClosedHasError,
         C16_DisconnectedOnce |-> C16_DisconnectedOnce, C16_NoClosedAfterDisconnected |-> C16_NoClosedAfterDisconnected,
         C16_DisconnectedOnlyIfCalled |-> C16_DisconnectedOnlyIfCalled,
         C16_ErrNilWhileHealthy |-> C16_ErrNilWhileHealthy, C16_ErrNilAfterGraceful |-> C16_ErrNilAfterGraceful,
         C16_DoneOnlyIfEnded |-> C16_DoneOnlyIfEnded,
         C16_ClosedExactlyOnceWithoutDisconnect |-> C16_ClosedExactlyOnceWithoutDisconnect,
         C16_DisconnectedExactlyOnce |-> C16_DisconnectedExactlyOnce,
         C16_ClosedErrIsErr |-> C16_ClosedErrIsErr, C16_DoneIfEnded |-> C16_DoneIfEnded,
         C09_OneTransport |-> C09_OneTransport, C09_ConnectFirst |-> C09_ConnectFirst, C09_BackoffLowerBound |-> C09_BackoffLowerBound,
         C09_BackoffExact |-> C09_BackoffExact, C09_NoDialAfterDisconnect |-> C09_NoDialAfterDisconnect,
         C09_NoDialAfterDisconnectDuringWait |-> C09_NoDialAfterDisconnectDuringWait,
         C09_NoDialAfterCancelledConnect |-> C09_NoDialAfterCancelledConnect, C09_DisconnectReturns |-> C09_DisconnectReturns,
         C09_Reestablished |-> C09_Reestablished,
         C13_SilentPeerDetected |-> C13_SilentPeerDetected, C13_OnlySilentPeer |-> C13_OnlySilentPeer,
         C13_TimeoutOnFirstUnanswered |-> C13_TimeoutOnFirstUnanswered ]
Failing == {n \in DOMAIN Obs : ~Obs[n]}
Mon == LET cur == TLCGet(tid)
           known == {p[1] : p \in cur.v}
           new == {<<n, l - 1>> : n \in Failing \ known}
       IN TLCSet(tid, [hw |-> IF cur.hw < l THEN l ELSE cur.hw, v |-> cur.v \cup new])
Report ==
  PrintT(<<"REPORT", ToJson([t \in 1..Len(Traces) |->
       [id |-> Traces[t].id, len |-> Len(Traces[t].evs), hw |-> TLCGet(t).hw,
        v |-> {[o |-> p[1], at |-> p[2]] : p \in TLCGet(t).v}]])>>)
ASSUME \A t \in 1..Len(Traces) : TLCSet(t, [hw |-> 0, v |-> {}])
=============================================================================
