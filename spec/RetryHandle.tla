---------------------------- MODULE RetryHandle ----------------------------
(***************************************************************************)
(* Property C19, second half: "An interrupted QoS>=1 publish, subscribe or *)
(* unsubscribe returns an error implementing ErrorWithRetry whose Retry    *)
(* re-issues that same request on the client it is given."                 *)
(*                                                                         *)
(* A request of kind k runs through its STAGES, one request packet each    *)
(* (MQTT 3.1.1 section 4.3):                                               *)
(*     pub0  PUBLISH                       (no acknowledgement)            *)
(*     pub1  PUBLISH  -> PUBACK                                            *)
(*     pub2  PUBLISH  -> PUBREC,  PUBREL -> PUBCOMP                        *)
(*     sub   SUBSCRIBE -> SUBACK                                           *)
(*     unsub UNSUBSCRIBE -> UNSUBACK                                       *)
(* An ATTEMPT is one call on one client: attempt 1 is the application's    *)
(* call (BaseClient.Publish/Subscribe/Unsubscribe), attempt a+1 is         *)
(* Retry(ctx, client a+1) on the error attempt a returned.  Every attempt  *)
(* but the last is interrupted at some stage by a failure STEP:            *)
(*     writeFails  Transport.Write of that packet fails (netsim cutBefore) *)
(*     ackLost     the packet reaches the broker, the connection dies      *)
(*                 before the acknowledgement (netsim cutAfter)            *)
(*     ctxCancel   the acknowledgement never comes and the caller cancels  *)
(*                 the context of that attempt (netsim dropAck + cancel)   *)
(*     connGone    the connection of that client has already ended (peer   *)
(*                 closed it, Done() is closed) when the attempt is made:  *)
(*                 nothing reaches the broker, the attempt is interrupted  *)
(*                 at the stage it starts with                             *)
(*                                                                         *)
(* ExpectedRetry(kind, fails) is the table the real code is compared with: *)
(* what every attempt's error must look like, which request packets every  *)
(* connection must see, and the netsim fault rules that produce the run.   *)
(***************************************************************************)
EXTENDS Integers, Sequences, FiniteSets, TLC, Json, SequencesExt

CONSTANT MaxFails      \* number of interrupted attempts per scenario: 1..MaxFails

ReqKinds == {"pub0", "pub1", "pub2", "sub", "unsub"}
Steps == {"writeFails", "ackLost", "ctxCancel", "connGone"}

Stages(k) == CASE k = "pub0"  -> <<"PUBLISH">>
               [] k = "pub1"  -> <<"PUBLISH">>
               [] k = "pub2"  -> <<"PUBLISH", "PUBREL">>
               [] k = "sub"   -> <<"SUBSCRIBE">>
               [] k = "unsub" -> <<"UNSUBSCRIBE">>

Outcome(step) == CASE step = "writeFails" -> "cutBefore"
                   [] step = "ackLost"    -> "cutAfter"
                   [] step = "ctxCancel"  -> "dropAck"
                   [] step = "connGone"   -> "connGone"

(* The cause errors.Is must find in the error of an attempt interrupted by `step`:                  *)
(*   writeFails -> the very error Transport.Write returned ("transportErr"),                        *)
(*   ackLost    -> mqtt.ErrClosedTransport (the serve loop saw the connection die),                 *)
(*   ctxCancel  -> the Err() of the attempt's context (context.Canceled),                           *)
(*   connGone   -> the transport's error or mqtt.ErrClosedTransport ("connEnded").                  *)
Cause(step) == CASE step = "writeFails" -> "transportErr"
                 [] step = "ackLost"    -> "ErrClosedTransport"
                 [] step = "ctxCancel"  -> "ctxErr"
                 [] step = "connGone"   -> "connEnded"

(* A failure is [stage, step].  QoS 0 has no acknowledgement to lose: only the write can fail.      *)
FailsOf(k) == IF k = "pub0" THEN { [stage |-> 1, step |-> "writeFails"] }
              ELSE { [stage |-> s, step |-> st] : s \in 1..Len(Stages(k)), st \in Steps }

(* A retry resumes at the stage that was interrupted, so stages never go backwards: after PUBREC    *)
(* was received (failure at PUBREL) the PUBLISH must not be sent again [MQTT-4.3.3: the sender MUST *)
(* NOT re-send the PUBLISH once it has sent the corresponding PUBREL].                              *)
Monotone(fs) == \A i \in 1..(Len(fs) - 1) : fs[i].stage <= fs[i+1].stage
(* an attempt on a connection that has already ended makes no progress: it fails at the stage it starts with *)
GoneOk(fs) == \A i \in 1..Len(fs) : fs[i].step = "connGone" => fs[i].stage = (IF i = 1 THEN 1 ELSE fs[i-1].stage)

FailSeqs(k) == IF k = "pub0" THEN { <<f>> : f \in FailsOf(k) }   \* not retryable: one attempt only
               ELSE { fs \in UNION { [1..n -> FailsOf(k)] : n \in 1..MaxFails } : Monotone(fs) /\ GoneOk(fs) }

Scenarios == UNION { { [kind |-> k, fails |-> fs] : fs \in FailSeqs(k) } : k \in ReqKinds }

Retryable(k) == k # "pub0"

(* number of attempts that happen: a non-retryable error ends the scenario *)
NAttempts(sc) == IF Retryable(sc.kind) THEN Len(sc.fails) + 1 ELSE 1

FirstStage(sc, a) == IF a = 1 THEN 1 ELSE sc.fails[a-1].stage
LastStage(sc, a) == IF a <= Len(sc.fails) THEN sc.fails[a].stage ELSE Len(Stages(sc.kind))

(* Request packets connection a must see, in order.  DUP is 0 on the first transmission of a        *)
(* PUBLISH and 1 on every re-transmission [MQTT-3.3.1-1], [MQTT-3.3.1-2]; other packets have no DUP. *)
(* sameId: the packet must carry the packet identifier of the original PUBLISH [MQTT-4.3.2/4.3.3,   *)
(* 2.3.1: a re-sent PUBLISH and the PUBREL of the flow use the same identifier].                    *)
Gone(sc, a) == a <= Len(sc.fails) /\ sc.fails[a].step = "connGone"
Packets(sc, a) == IF Gone(sc, a) THEN << >> ELSE
                  [ i \in 1..(LastStage(sc, a) - FirstStage(sc, a) + 1) |->
                      LET p == Stages(sc.kind)[FirstStage(sc, a) + i - 1] IN
                      [ p |-> p,
                        dup |-> (p = "PUBLISH" /\ a > 1),
                        sameId |-> p \in {"PUBLISH", "PUBREL"} /\ sc.kind # "pub0" ] ]

(* how often packet type p has been transmitted before the last packet of attempt a: netsim counts  *)
(* the packets of a type over all connections of one run                                            *)
CountIn(seq, p, upto) == Cardinality({ i \in 1..upto : seq[i].p = p })
RECURSIVE Sent(_, _, _)     \* transmissions of p in attempts 1..a
Sent(sc, a, p) == IF a = 0 THEN 0
                  ELSE Sent(sc, a-1, p) + CountIn(Packets(sc, a), p, Len(Packets(sc, a)))
CountBefore(sc, a, p) == Sent(sc, a-1, p) + CountIn(Packets(sc, a), p, Len(Packets(sc, a)) - 1)

(* netsim fault rule of interrupted attempt a: the N-th packet of type P gets outcome O *)
Fault(sc, a) == LET p == Stages(sc.kind)[sc.fails[a].stage] IN
                IF Gone(sc, a) THEN [ p |-> p, n |-> 0, o |-> "connGone" ]
                ELSE [ p |-> p, n |-> CountBefore(sc, a, p) + 1, o |-> Outcome(sc.fails[a].step) ]

(* what the error of attempt a must look like *)
ErrExpect(sc, a) ==
    IF a <= Len(sc.fails)
    THEN [ err |-> TRUE, retryable |-> Retryable(sc.kind), cause |-> Cause(sc.fails[a].step) ]
    ELSE [ err |-> FALSE, retryable |-> FALSE, cause |-> "none" ]      \* the last attempt completes: nil

ExpectedRetry(sc) ==
    [ kind   |-> sc.kind,
      steps  |-> [ a \in 1..Len(sc.fails) |-> sc.fails[a].step ],
      stages |-> [ a \in 1..Len(sc.fails) |-> Stages(sc.kind)[sc.fails[a].stage] ],
      faults |-> [ a \in 1..Len(sc.fails) |-> Fault(sc, a) ],
      errs   |-> [ a \in 1..NAttempts(sc) |-> ErrExpect(sc, a) ],
      conns  |-> [ a \in 1..NAttempts(sc) |-> Packets(sc, a) ] ]

(***************************************************************************)
(* Consistency lemmas.                                                     *)
(***************************************************************************)
\* R1: every interrupted QoS>=1 publish, subscribe, unsubscribe is retryable; a QoS 0 publish never is
ASSUME R1 == \A sc \in Scenarios : \A a \in 1..Len(sc.fails) :
                 ErrExpect(sc, a).retryable <=> sc.kind # "pub0"
\* R2: the first packet of every retry is the packet that was interrupted ("re-issues that same request")
ASSUME R2 == \A sc \in Scenarios : \A a \in 2..NAttempts(sc) : ~Gone(sc, a) =>
                 Packets(sc, a)[1].p = Stages(sc.kind)[sc.fails[a-1].stage]
\* R3: DUP=0 exactly on attempt 1; every PUBLISH of a retry has DUP=1
ASSUME R3 == \A sc \in Scenarios : \A a \in 1..NAttempts(sc) : \A i \in 1..Len(Packets(sc, a)) :
                 Packets(sc, a)[i].p = "PUBLISH" => (Packets(sc, a)[i].dup <=> a > 1)
\* R4: once an attempt has been interrupted at PUBREL, no later attempt sends PUBLISH
ASSUME R4 == \A sc \in Scenarios : \A a \in 1..Len(sc.fails) : Stages(sc.kind)[sc.fails[a].stage] = "PUBREL" =>
                 \A b \in (a+1)..NAttempts(sc) : \A i \in 1..Len(Packets(sc, b)) : Packets(sc, b)[i].p # "PUBLISH"
\* R5: the last attempt runs the request to its end; every attempt sends at least one packet
ASSUME R5 == \A sc \in Scenarios :
                 /\ \A a \in 1..NAttempts(sc) : ~Gone(sc, a) => Len(Packets(sc, a)) >= 1
                 /\ Retryable(sc.kind) => Last(Packets(sc, NAttempts(sc))).p = Last(Stages(sc.kind))
\* R6: the fault rule of attempt a hits the last packet of connection a and nothing earlier
ASSUME R6 == \A sc \in Scenarios : \A a \in 1..Len(sc.fails) : ~Gone(sc, a) =>
                 /\ Fault(sc, a).p = Last(Packets(sc, a)).p
                 /\ Fault(sc, a).n >= 1

ASSUME Dump ==
    /\ ndJsonSerialize("retry.ndjson", SetToSeq({ ExpectedRetry(sc) : sc \in Scenarios }))
    /\ PrintT(<<"COUNTS", [scenarios |-> Cardinality(Scenarios)]>>)
=============================================================================
