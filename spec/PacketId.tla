------------------------------ MODULE PacketId ------------------------------
(***************************************************************************)
(* C15 -- "Packet identifiers are non-zero and unique among outstanding    *)
(* requests".                                                              *)
(*                                                                         *)
(* The packet identifier allocator of mqtt-go (uniqid.go) as a state       *)
(* machine:                                                                *)
(*                                                                         *)
(*     func (c *BaseClient) newID() uint16 {                               *)
(*         id := uint16(atomic.AddUint32(&c.idLast, 1))    -- step Add     *)
(*         if id == 0 { return c.newID() }                 -- step Check   *)
(*         return id                                                       *)
(*     }                                                                   *)
(*                                                                         *)
(* and its three users: subscribeImpl / unsubscribeImpl (always newID) and *)
(* publishImpl (`if message.ID == 0 { message.ID = c.newID() }`: an id the *)
(* caller already put on the message is used unchanged).                   *)
(*                                                                         *)
(* MQTT 3.1.1 section 2.3.1: SUBSCRIBE, UNSUBSCRIBE and PUBLISH (QoS > 0)  *)
(* carry a NON-ZERO 16 bit packet identifier; each time a client sends a   *)
(* new packet of one of these types it MUST assign it a CURRENTLY UNUSED   *)
(* identifier; the identifier becomes available for reuse after the        *)
(* corresponding acknowledgement has been processed.                       *)
(*                                                                         *)
(* Sizes are parameters so that TLC can enumerate the machine completely:  *)
(* identifiers are 0..M-1 (real code: M = 65536, uint16), the counter has  *)
(* M*K values (real code: K = 65536, uint32) and wraps around as well, so  *)
(* with K >= 2 both wrap-arounds (of the identifier and of the counter)    *)
(* are part of the model.                                                  *)
(***************************************************************************)
EXTENDS PacketIdArith, Sequences, FiniteSets, TLC    \* PacketIdArith: CONSTANTS M, K; W, Succ, PairInc, NextAlloc

\* from PacketIdArith:  M  number of identifier values (ids are 0..M-1; 0 must never be used)
\*                      K  the counter has CM = M*K values
CONSTANTS
  Callers,   \* goroutines concurrently calling Subscribe / Unsubscribe / Publish
  Supplied,  \* identifiers a Publish caller may have preset in Message.ID (subset of 1..M-1)
  Bug        \* "none": the code as it is.  Seeded defects (non-vacuity of the invariants):
             \* "nozero"    newID returns uint16(counter) even when it is 0
             \* "nonatomic" the increment is a separate read and write
             \* "short"     the counter value is truncated further, so ids repeat early
             \* "overwrite" publishImpl assigns a fresh id even if the caller supplied one
             \* "rewind"    publishImpl moves the counter to the identifier the caller supplied

ASSUME /\ M \in Nat /\ M >= 3
       /\ K \in Nat /\ K >= 1
       /\ Supplied \subseteq 1..(M - 1)
       /\ Bug \in {"none", "nozero", "nonatomic", "short", "overwrite", "rewind"}

CM == M * K                      \* number of counter values (2^32 in the code)
\* W == M - 1 (PacketIdArith)     \* number of usable identifiers (65535 in the code)

---------------------------------------------------------------------------
(* Pure arithmetic of the allocator; TracePacketId uses the same           *)
(* definitions (on the (high, low) representation of the counter, see the  *)
(* lemma PairLemma below) to replay real identifier traces.                *)

Inc(c)  == (c + 1) % CM                                  \* atomic.AddUint32(&idLast, 1), wrapping
IdOf(c) == IF Bug = "short" THEN (c % M) % (M \div 2)    \* mutant: `& 0xFF`-like truncation
                            ELSE c % M                   \* uint16(counter)
Returned(c) == Bug = "nozero" \/ IdOf(c) # 0             \* newID returns IdOf(c) (else it recurses)

\* Succ(v) (PacketIdArith): successor of an identifier in allocation order: +1, skipping 0

---------------------------------------------------------------------------
VARIABLES
  ctr,   \* c.idLast
  pc,    \* per caller: "idle" | "alloc" (about to call newID) | "ld" (nonatomic only: value read)
         \*             | "chk" (atomic add done, zero test pending) | "out" (request outstanding)
  loc,   \* per caller: the counter value its last add returned (or, in "ld", the value it read)
  sup,   \* per caller: identifier the caller supplied with the request (0 = none)
  wid,   \* per caller: identifier the outstanding request carries on the wire
  age,   \* per caller (ghost): identifiers handed out after the one of this request, saturating at W
  win    \* (ghost) the last <= W identifiers handed out, in ALLOCATION ORDER = order of the adds

vars == <<ctr, pc, loc, sup, wid, age, win>>

TypeOK ==
  /\ ctr \in 0..(CM - 1)
  /\ pc  \in [Callers -> {"idle", "alloc", "ld", "chk", "out"}]
  /\ loc \in [Callers -> 0..(CM - 1)]
  /\ sup \in [Callers -> {0} \cup Supplied]
  /\ wid \in [Callers -> 0..(M - 1)]
  /\ age \in [Callers -> 0..W]
  /\ win \in Seq(0..(M - 1)) /\ Len(win) <= W

Init ==
  /\ ctr \in 0..(CM - 1)            \* ANY start value (initID picks a random one; the harness presets it)
  /\ pc  = [c \in Callers |-> "idle"]
  /\ loc = [c \in Callers |-> 0]
  /\ sup = [c \in Callers |-> 0]
  /\ wid = [c \in Callers |-> 0]
  /\ age = [c \in Callers |-> 0]
  /\ win = <<>>

\* A request starts.  s = 0: Subscribe / Unsubscribe / Publish without preset id -> newID.
\* s # 0: Publish with Message.ID = s -> the id is used as it is, the counter is not touched.
Request(c, s) ==
  /\ pc[c] = "idle"
  /\ sup' = [sup EXCEPT ![c] = s]
  /\ IF s # 0 /\ Bug # "overwrite"
       THEN /\ pc'  = [pc EXCEPT ![c] = "out"]
            /\ wid' = [wid EXCEPT ![c] = s]
       ELSE /\ pc'  = [pc EXCEPT ![c] = "alloc"]
            /\ wid' = wid
  /\ IF s # 0 /\ Bug = "rewind" THEN ctr' = (ctr \div M) * M + s ELSE ctr' = ctr
  /\ UNCHANGED <<loc, age, win>>

\* caller d holds (or is about to return from newID with) a library-chosen identifier
Holding(d) == \/ pc[d] = "chk" /\ Returned(loc[d])
              \/ pc[d] = "out" /\ sup[d] = 0

\* ghost bookkeeping of an add that produced counter value n on behalf of caller c
Log(c, n) ==
  IF Returned(n)
    THEN /\ win' = (IF Len(win) = W THEN Tail(win) ELSE win) \o <<IdOf(n)>>
         /\ age' = [d \in Callers |-> IF d = c THEN 0
                                      ELSE IF Holding(d) /\ age[d] < W THEN age[d] + 1 ELSE age[d]]
    ELSE UNCHANGED <<win, age>>

\* atomic.AddUint32(&c.idLast, 1): ONE atomic step that increments and returns the new value
Add(c) ==
  /\ Bug # "nonatomic"
  /\ pc[c] = "alloc"
  /\ ctr' = Inc(ctr)
  /\ loc' = [loc EXCEPT ![c] = ctr']
  /\ pc'  = [pc EXCEPT ![c] = "chk"]
  /\ Log(c, ctr')
  /\ UNCHANGED <<sup, wid>>

\* seeded defect: v := atomic.LoadUint32(&idLast) + 1 ; atomic.StoreUint32(&idLast, v)
Load(c) ==
  /\ Bug = "nonatomic"
  /\ pc[c] = "alloc"
  /\ loc' = [loc EXCEPT ![c] = ctr]
  /\ pc'  = [pc EXCEPT ![c] = "ld"]
  /\ UNCHANGED <<ctr, sup, wid, age, win>>

Store(c) ==
  /\ pc[c] = "ld"
  /\ ctr' = Inc(loc[c])
  /\ loc' = [loc EXCEPT ![c] = ctr']
  /\ pc'  = [pc EXCEPT ![c] = "chk"]
  /\ Log(c, ctr')
  /\ UNCHANGED <<sup, wid>>

\* `if id == 0 { return c.newID() }  return id` -- a second step of the same caller
Check(c) ==
  /\ pc[c] = "chk"
  /\ IF Returned(loc[c])
       THEN /\ pc'  = [pc EXCEPT ![c] = "out"]
            /\ wid' = [wid EXCEPT ![c] = IdOf(loc[c])]
       ELSE /\ pc'  = [pc EXCEPT ![c] = "alloc"]        \* recursion: add again
            /\ wid' = wid
  /\ loc' = [loc EXCEPT ![c] = 0]
  /\ UNCHANGED <<ctr, sup, age, win>>

\* the acknowledgement arrived (or the request was abandoned): the identifier is free again
Release(c) ==
  /\ pc[c] = "out"
  /\ pc'  = [pc EXCEPT ![c] = "idle"]
  /\ sup' = [sup EXCEPT ![c] = 0]
  /\ wid' = [wid EXCEPT ![c] = 0]
  /\ age' = [age EXCEPT ![c] = 0]
  /\ loc' = [loc EXCEPT ![c] = 0]
  /\ UNCHANGED <<ctr, win>>

Next == \E c \in Callers :
          \/ \E s \in {0} \cup Supplied : Request(c, s)
          \/ Add(c) \/ Load(c) \/ Store(c) \/ Check(c) \/ Release(c)

Spec == Init /\ [][Next]_vars

---------------------------------------------------------------------------
(* The property.                                                           *)

Outstanding(c) == pc[c] = "out"
Allocated(c)   == Outstanding(c) /\ sup[c] = 0          \* the library chose the identifier

\* "Packet identifiers chosen by the client are never 0"
NonZero ==
  /\ \A c \in Callers : Outstanding(c) => wid[c] # 0
  /\ \A i \in DOMAIN win : win[i] # 0

\* "any M-1 consecutive allocations (in counter order) are pairwise distinct"
WindowDistinct == \A i, j \in DOMAIN win : i # j => win[i] # win[j]

\* the shape of the allocation sequence, which is what TracePacketId replays against real traces:
\* every identifier is the successor (skipping 0) of the one handed out before
Successor == \A i \in 1..(Len(win) - 1) : win[i + 1] = Succ(win[i])

\* "no identifier is given to two requests that are outstanding at the same time": two outstanding
\* requests with library-chosen identifiers carry different identifiers as long as the older one has
\* not stayed outstanding while W or more further identifiers were handed out -- which is implied by
\* "fewer than W requests outstanding in a row"; see NoClashEver for why the bound is needed.
NoClash ==
  \A c, d \in Callers :
     (c # d /\ Allocated(c) /\ Allocated(d) /\ age[c] < W /\ age[d] < W) => wid[c] # wid[d]

\* "an identifier the caller already put on a message is used unchanged"
PassThrough == \A c \in Callers : (Outstanding(c) /\ sup[c] # 0) => wid[c] = sup[c]

\* ... and it costs no counter value (conformance detail used when replaying real traces)
SuppliedKeepsCounter ==
  [][\A c \in Callers : (pc[c] = "idle" /\ pc'[c] = "out") => ctr' = ctr]_vars

\* NOT an invariant of a plain counter (TLC refutes it; the check records the counterexample as the
\* documented limit of the design): a request that stays outstanding while the whole identifier space
\* is handed out to others meets its identifier again.
NoClashEver ==
  \A c, d \in Callers : (c # d /\ Allocated(c) /\ Allocated(d)) => wid[c] # wid[d]

---------------------------------------------------------------------------
(* The counter as a pair (high part, identifier part), the representation  *)
(* TracePacketId uses for the real sizes (2^32 does not fit TLC integers). *)
PairOf(c)     == <<c \div M, c % M>>
\* the counter value after a complete, undisturbed newID() starting from counter value c
AfterNewID(c) == IF Inc(c) % M = 0 THEN Inc(Inc(c)) ELSE Inc(c)
PairLemma     == \A c \in 0..(CM - 1) :
                   /\ PairOf(Inc(c)) = PairInc(PairOf(c))            \* PairInc is the wrapping increment
                   /\ (c % M) = PairId(PairOf(c))                    \* PairId is uint16()
                   /\ PairOf(AfterNewID(c)) = NextAlloc(PairOf(c))   \* NextAlloc is newID()
                   /\ AfterNewID(c) % M # 0
                   /\ (c % M # 0) => AfterNewID(c) % M = Succ(c % M) \* ... and yields the successor id
                   /\ (c % M = 0) => AfterNewID(c) % M = 1
\* the allocation sequence does not depend on the high part and is a cycle through 1..M-1:
PeriodLemma   == \A v \in 1..(M - 1) : /\ Succ(v) \in 1..(M - 1)
                                       /\ \A w \in 1..(M - 1) : Succ(v) = Succ(w) => v = w
ASSUME PairLemma
ASSUME PeriodLemma

=============================================================================
