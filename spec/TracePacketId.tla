--------------------------- MODULE TracePacketId ---------------------------
(***************************************************************************)
(* C15 -- validation of REAL packet identifier traces (and generation of   *)
(* the boundary vectors the Go driver `packetid` executes).                *)
(*                                                                         *)
(* The module has no behaviour specification: TLC evaluates the ASSUMEs.   *)
(* Every row of traces.ndjson is one run of the real allocator:            *)
(*                                                                         *)
(*   id    name of the run                                                 *)
(*   hi,lo value the driver stored into c.idLast before the run, as the    *)
(*         pair of PacketIdArith (counter = hi*65536 + lo)                 *)
(*   ids   the identifiers the run obtained, in ALLOCATION ORDER (order of *)
(*         the counter values they came from; for the concurrent runs the  *)
(*         driver reconstructs it from the per-goroutine draw order)       *)
(*   ev    the acquire / release log in real-time order: +v = a request    *)
(*         was given identifier v and is outstanding from now on, -v = the *)
(*         request carrying v stopped being outstanding, 0 = a request was *)
(*         given identifier 0                                              *)
(*   reqs  (script runs) sequential requests <<supplied id or 0, id seen   *)
(*         in PUBLISH/SUBSCRIBE on the wire, id seen in PUBREL or 0>>      *)
(*                                                                         *)
(* Verdicts (what the property statement demands):                         *)
(*   zero    an identifier 0 was handed out / put on the wire              *)
(*   clash   an identifier was acquired while a request carrying the same  *)
(*           identifier was still outstanding                              *)
(*   sup     a caller-supplied identifier did not appear unchanged         *)
(* Conformance with the model PacketId (refinement; reported, but not a    *)
(* violation of the property by itself):                                   *)
(*   dev     first index at which `ids` is not the allocation sequence of  *)
(*           PacketId from the preset counter: NextAlloc(start), then Succ *)
(*           ("no gap other than the skipped zero", both wrap-arounds)     *)
(*   rep     an identifier repeats within W consecutive allocations        *)
(*   cdev    script runs: a library-chosen id is not the next of the model *)
(*           (e.g. a supplied id consumed a counter value)                 *)
(*                                                                         *)
(* Everything is evaluated in (n log n): repeats are found by letting TLC  *)
(* sort the set { <<identifier, position>> } and looking at neighbours.    *)
(***************************************************************************)
EXTENDS PacketIdArith, Sequences, FiniteSets, TLC, Json, SequencesExt

CONSTANTS Mode      \* "validate" | "gen"

Traces == ndJsonDeserialize("traces.ndjson")

Abs(x) == IF x < 0 THEN -x ELSE x
Min2(a, b) == IF a < b THEN a ELSE b
First(S, n) == LET q == SetToSeq(S) IN SubSeq(q, 1, Min2(n, Len(q)))     \* at most n witnesses

\* positions grouped by identifier: the sorted sequence of <<|s[i]|, i>>
Keyed(s)  == SetToSeq({ <<Abs(s[i]), i>> : i \in 1..Len(s) })
Lt(a, b)  == a[1] < b[1] \/ (a[1] = b[1] /\ a[2] < b[2])
KeySorted(q) == \A k \in 1..(Len(q) - 1) : Lt(q[k], q[k + 1])

---------------------------------------------------------------------------
\* zero: positions of identifier 0
ZeroIn(s) == { i \in 1..Len(s) : s[i] = 0 }

\* dev: first index where ids leaves the model's allocation sequence (0 = conforms)
Dev(ids, start) ==
  LET bad == { i \in 1..Len(ids) :
                 IF i = 1 THEN ids[1] # PairId(NextAlloc(start))
                          ELSE ids[i - 1] \notin 1..(M - 1) \/ ids[i] # Succ(ids[i - 1]) }
  IN IF bad = {} THEN 0 ELSE CHOOSE i \in bad : \A j \in bad : i <= j

\* rep: <<v, i, j>> with ids[i] = ids[j] = v, i < j < i + W (neighbours in the sorted order suffice)
Rep(q) ==                                  \* q = Keyed(ids)
     { <<q[k][1], q[k][2], q[k + 1][2]>> :
         k \in { k \in 1..(Len(q) - 1) : q[k][1] = q[k + 1][1] /\ q[k + 1][2] - q[k][2] < W } }

\* clash: <<v, i, j>>: ev[i] = ev[j] = +v, i < j, and no -v in between.
\* malformed: a release of an identifier that is not held (a defect of the driver, not of the library)
Clash(ev, q) ==                            \* q = Keyed(ev)
     { <<q[k][1], q[k][2], q[k + 1][2]>> :
         k \in { k \in 1..(Len(q) - 1) : /\ q[k][1] = q[k + 1][1] /\ q[k][1] # 0
                                          /\ ev[q[k][2]] > 0 /\ ev[q[k + 1][2]] > 0 } }
Malformed(ev, q) ==
     \/ ~KeySorted(q) \/ Len(q) # Len(ev)
     \/ \E k \in 1..Len(q) : /\ ev[q[k][2]] < 0
                             /\ (k = 1 \/ q[k - 1][1] # q[k][1] \/ ev[q[k - 1][2]] < 0)

\* script runs: sequential replay of PacketId's Request / Add / Check on the pair counter.
\* Result: <<sup, cdev>> sets of request indices.
RECURSIVE Replay(_, _, _, _, _)
Replay(reqs, i, p, sup, cdev) ==
  IF i > Len(reqs) THEN <<sup, cdev>>
  ELSE LET r == reqs[i] IN
       IF r[1] # 0
         THEN \* caller-supplied: must be on the wire as it is (PUBLISH and, QoS 2, PUBREL); counter untouched
              Replay(reqs, i + 1, p,
                     IF r[2] # r[1] \/ (r[3] # 0 /\ r[3] # r[1]) THEN sup \cup {i} ELSE sup, cdev)
         ELSE LET n == NextAlloc(p) IN
              Replay(reqs, i + 1, n, sup, IF r[2] # PairId(n) THEN cdev \cup {i} ELSE cdev)

Report(t) ==
  LET T == Traces[t]
      start == <<T.hi, T.lo>>
      rp == Replay(T.reqs, 1, start, {}, {})
      qi == Keyed(T.ids)
      qe == Keyed(T.ev)
  IN [id    |-> T.id,
      n     |-> Len(T.ids), nev |-> Len(T.ev), nreq |-> Len(T.reqs),
      zero  |-> First(ZeroIn(T.ids) \cup ZeroIn(T.ev) \cup { i \in 1..Len(T.reqs) : T.reqs[i][2] = 0 }, 5),
      clash |-> First(Clash(T.ev, qe), 5),
      sup   |-> First(rp[1], 5),
      dev   |-> Dev(T.ids, start),
      rep   |-> First(Rep(qi), 5),
      cdev  |-> First(rp[2], 5),
      bad   |-> Malformed(T.ev, qe) \/ ~KeySorted(qi) \/ Len(qi) # Len(T.ids),
      wraps |-> Cardinality({ i \in 2..Len(T.ids) : T.ids[i] < T.ids[i - 1] })]   \* 16 bit wrap-arounds seen

ASSUME Mode = "validate" =>
  PrintT(<<"REPORT", ToJson([t \in 1..Len(Traces) |-> Report(t)])>>)

---------------------------------------------------------------------------
(* Generation: the boundary start values and the caller-supplied-id        *)
(* scripts, chosen from the arithmetic above rather than written by hand.  *)

\* start values of the counter around everything that can go wrong: zero, just below / at the wrap of
\* the identifier part (for the lowest, a middle and the highest high part: the latter is the wrap of
\* the whole counter)
Starts ==
  { <<h, l>> : h \in {0, 1, K \div 2, K - 1}, l \in {0, 1, M - 16, M - 2, M - 1} }

\* requests of a script: 0 = library-chosen id (Subscribe), v # 0 = Publish with Message.ID = v
SupVals == {1, 255, 256, M - 1}
Scripts ==
  LET A == {0} \cup SupVals
  IN { <<a>> : a \in SupVals } \cup { <<a, b>> : a \in A, b \in A } \cup
     { <<a, 0, b, 0>> : a \in SupVals, b \in A }

ASSUME Mode = "gen" =>
  /\ ndJsonSerialize("starts.ndjson", SetToSeq({ [hi |-> s[1], lo |-> s[2]] : s \in Starts }))
  /\ ndJsonSerialize("scripts.ndjson", SetToSeq({ [s |-> s] : s \in { sc \in Scripts : \E i \in 1..Len(sc) : sc[i] # 0 } }))

=============================================================================
