------------------------------- MODULE Conn -------------------------------
(* C16 (and the BaseClient part of C09/C11): lifecycle of ONE BaseClient connection.
   Connect (connect.go:109-170) in four steps, the reader goroutine with its exit epilogue
   (connect.go:120-132: Close, store error unless Disconnected, connStateUpdate(Closed) --
   state change under c.mu, callback after unlocking (conn.go:34-47) --, close(connClosed)),
   Disconnect (disconnect.go:22-33), local Close, what the peer does (accept / refuse / close /
   malformed packet), the keep-alive error store of the reconnecting client (SetErrorOnce + Close)
   and cancellation of Connect's context.  Observed from outside: the ConnState callback log `cb`,
   Err() (`err`) and Done() (`done`).  The C16 clauses are the invariants at the end.
   NoClosedAfterDisconnected is violated on this model of the code as it is (finding F14: the
   callback is invoked after c.mu has been released, so the reader's Closed callback can be
   delivered after Disconnect's Disconnected callback); it is kept in a separate configuration.  *)
EXTENDS Integers, Sequences, FiniteSets, TLC

CONSTANTS WithDisconnect, WithLocalClose, WithKeepAliveErr, WithCtxCancel,
          WithKeepAlive,      \* the keep-alive goroutine of the reconnecting client (reconnclient.go:109-131) is modelled
          BugKaNoCtxCheck,    \* finding F5: an error is stored although the keep-alive context was cancelled
          BugKaNoDiscCheck,   \* finding F17: ... although Disconnect had been called (ping interrupted by Disconnect)
          BugReaderAfterWrite \* the reader goroutine is started only after CONNECT has been written (seeded change c16g)

VARIABLES
  st,        \* connState: "New","Active","Closed","Disconnected"
  err,       \* "nil" or an error tag
  topen,     \* transport open
  done,      \* connClosed closed
  connecting,\* muConnecting held by Connect
  cpc,       \* Connect caller pc
  cres,      \* Connect result
  cl,        \* locals of connStateUpdate in Connect: [last, state, err]
  spc,       \* serve goroutine pc
  serr,      \* error serve returned
  sl,        \* locals of connStateUpdate in serve
  dpc,       \* Disconnect caller pc
  dl,        \* locals of connStateUpdate in Disconnect
  ack,       \* chConnAck content: "none","acc","ref"
  peer,      \* what the peer has done: "idle","acked","closed"
  cb,        \* callback log: seq of [s, e]
  discCalled,\* Disconnect has been called (entered)
  ended,     \* the connection has ended (transport closed) - ground truth
  kapc,      \* keep-alive goroutine: "off" | "idle" | "ping" | "stopped"
  kacancel,  \* its context has been cancelled by the reconnect loop
  rdisc      \* reconnectClient.disconnected is closed (Disconnect of the reconnecting client was called)

vars == <<st, err, topen, done, connecting, cpc, cres, cl, spc, serr, sl, dpc, dl, ack, peer, cb, discCalled, ended, kapc, kacancel, rdisc>>
kavars == <<kapc, kacancel, rdisc>>

Init ==
  /\ st = "New" /\ err = "nil" /\ topen = TRUE /\ done = FALSE /\ connecting = FALSE
  /\ cpc = "start" /\ cres = "none" /\ cl = [last |-> "New", state |-> "New", err |-> "nil"]
  /\ spc = "off" /\ serr = "nil" /\ sl = cl /\ dpc = "idle" /\ dl = cl
  /\ ack = "none" /\ peer = "idle" /\ cb = << >> /\ discCalled = FALSE /\ ended = FALSE
  /\ kapc = "off" /\ kacancel = FALSE /\ rdisc = FALSE

\* ---- Connect ----
CInit ==   \* init(); muConnecting.Lock(); go serve; write CONNECT -- which may fail, also on a transport that stays open
  /\ cpc = "start"
  /\ \E wok \in (IF topen THEN {TRUE, FALSE} ELSE {FALSE}) :
       /\ spc' = IF BugReaderAfterWrite /\ ~wok THEN "off" ELSE "read"
       /\ IF wok THEN cpc' = "wait" /\ cres' = cres /\ connecting' = TRUE
          ELSE cpc' = "done" /\ cres' = "writeerr" /\ connecting' = FALSE
  /\ UNCHANGED <<st, err, topen, done, cl, serr, sl, dpc, dl, ack, peer, cb, discCalled, ended>> /\ UNCHANGED kavars

CWait ==   \* select over connClosed / ctx / connAck
  /\ cpc = "wait"
  /\ \/ /\ done /\ cpc' = "done" /\ cres' = "closed" /\ connecting' = FALSE /\ UNCHANGED ack
     \/ /\ WithCtxCancel /\ cpc' = "done" /\ cres' = "ctx" /\ connecting' = FALSE /\ UNCHANGED ack
     \/ /\ ack = "ref" /\ ack' = "none" /\ cpc' = "done" /\ cres' = "refused" /\ connecting' = FALSE
     \/ /\ ack = "acc" /\ ack' = "none" /\ cpc' = "upd" /\ cres' = cres /\ connecting' = connecting
  /\ UNCHANGED <<st, err, topen, done, cl, spc, serr, sl, dpc, dl, peer, cb, discCalled, ended>> /\ UNCHANGED kavars

CUpdA ==   \* connStateUpdate(Active), part under mu
  /\ cpc = "upd"
  /\ LET ns == IF st # "Disconnected" THEN "Active" ELSE st IN
     /\ cl' = [last |-> st, state |-> ns, err |-> err]
     /\ st' = ns
  /\ cpc' = "cb"
  /\ UNCHANGED <<err, topen, done, connecting, cres, spc, serr, sl, dpc, dl, ack, peer, cb, discCalled, ended>> /\ UNCHANGED kavars

CUpdB ==   \* callback outside the lock, then return
  /\ cpc = "cb"
  /\ cb' = IF cl.last # cl.state THEN Append(cb, [s |-> cl.state, e |-> cl.err, by |-> "connect"]) ELSE cb
  /\ cpc' = "done" /\ cres' = "ok" /\ connecting' = FALSE
  /\ UNCHANGED <<st, err, topen, done, cl, spc, serr, sl, dpc, dl, ack, peer, discCalled, ended>> /\ UNCHANGED kavars

\* ---- peer ----
PeerAck(a) ==
  /\ peer = "idle" /\ topen /\ cpc \in {"wait"} /\ spc = "read"
  /\ peer' = "acked" /\ ack' = a          \* serve reads CONNACK and puts it into chConnAck
  /\ UNCHANGED <<st, err, topen, done, connecting, cpc, cres, cl, spc, serr, sl, dpc, dl, cb, discCalled, ended>> /\ UNCHANGED kavars

PeerClose ==
  /\ topen /\ spc = "read"
  /\ topen' = FALSE /\ ended' = TRUE /\ peer' = "closed"
  /\ UNCHANGED <<st, err, done, connecting, cpc, cres, cl, spc, serr, sl, dpc, dl, ack, cb, discCalled>> /\ UNCHANGED kavars

PeerMalformed ==
  /\ topen /\ spc = "read"
  /\ spc' = "close" /\ serr' = "invalid"
  /\ UNCHANGED <<st, err, topen, done, connecting, cpc, cres, cl, sl, dpc, dl, ack, peer, cb, discCalled, ended>> /\ UNCHANGED kavars

\* ---- local Close / keep-alive error ----
LocalClose ==
  /\ WithLocalClose /\ topen /\ cpc # "start"
  /\ topen' = FALSE /\ ended' = TRUE
  /\ UNCHANGED <<st, err, done, connecting, cpc, cres, cl, spc, serr, sl, dpc, dl, ack, peer, cb, discCalled>> /\ UNCHANGED kavars

KeepAliveErr ==  \* SetErrorOnce(ErrPingTimeout); Close()
  /\ WithKeepAliveErr /\ topen /\ cpc = "done" /\ cres = "ok"
  /\ err' = IF err = "nil" THEN "pingtimeout" ELSE err
  /\ topen' = FALSE /\ ended' = TRUE
  /\ UNCHANGED <<st, done, connecting, cpc, cres, cl, spc, serr, sl, dpc, dl, ack, peer, cb, discCalled>> /\ UNCHANGED kavars

\* ---- serve goroutine ----
SReadEOF ==
  /\ spc = "read" /\ ~topen
  /\ spc' = "close" /\ serr' = "eof"
  /\ UNCHANGED <<st, err, topen, done, connecting, cpc, cres, cl, sl, dpc, dl, ack, peer, cb, discCalled, ended>> /\ UNCHANGED kavars

SClose ==  \* c.Close()
  /\ spc = "close"
  /\ topen' = FALSE /\ ended' = TRUE /\ spc' = "seterr"
  /\ UNCHANGED <<st, err, done, connecting, cpc, cres, cl, serr, sl, dpc, dl, ack, peer, cb, discCalled>> /\ UNCHANGED kavars

SSetErr == \* under mu: if state != Disconnected, SetErrorOnce
  /\ spc = "seterr"
  /\ err' = IF st # "Disconnected" /\ err = "nil" THEN serr ELSE err
  /\ spc' = "upd"
  /\ UNCHANGED <<st, topen, done, connecting, cpc, cres, cl, serr, sl, dpc, dl, ack, peer, cb, discCalled, ended>> /\ UNCHANGED kavars

SUpdA ==
  /\ spc = "upd"
  /\ LET ns == IF st # "Disconnected" THEN "Closed" ELSE st IN
     /\ sl' = [last |-> st, state |-> ns, err |-> err]
     /\ st' = ns
  /\ spc' = "cb"
  /\ UNCHANGED <<err, topen, done, connecting, cpc, cres, cl, serr, dpc, dl, ack, peer, cb, discCalled, ended>> /\ UNCHANGED kavars

SUpdB ==
  /\ spc = "cb"
  /\ cb' = IF sl.last # sl.state THEN Append(cb, [s |-> sl.state, e |-> sl.err, by |-> "serve"]) ELSE cb
  /\ spc' = "fin"
  /\ UNCHANGED <<st, err, topen, done, connecting, cpc, cres, cl, serr, sl, dpc, dl, ack, peer, discCalled, ended>> /\ UNCHANGED kavars

SFin ==
  /\ spc = "fin"
  /\ done' = TRUE /\ spc' = "exit"
  /\ UNCHANGED <<st, err, topen, connecting, cpc, cres, cl, serr, sl, dpc, dl, ack, peer, cb, discCalled, ended>> /\ UNCHANGED kavars

\* ---- Disconnect ----
DStart ==  \* muConnecting.RLock (blocked while Connect runs); connStateUpdate(Disconnected) part A
  /\ WithDisconnect /\ dpc = "idle" /\ ~connecting /\ cpc = "done" /\ cres = "ok"
  /\ (WithKeepAlive => rdisc)
  /\ discCalled' = TRUE
  /\ dl' = [last |-> st, state |-> "Disconnected", err |-> err]
  /\ st' = "Disconnected"
  /\ dpc' = "cb"
  /\ UNCHANGED <<err, topen, done, connecting, cpc, cres, cl, spc, serr, sl, ack, peer, cb, ended>> /\ UNCHANGED kavars

DCb ==
  /\ dpc = "cb"
  /\ cb' = IF dl.last # dl.state THEN Append(cb, [s |-> dl.state, e |-> dl.err, by |-> "disconnect"]) ELSE cb
  /\ dpc' = "write"
  /\ UNCHANGED <<st, err, topen, done, connecting, cpc, cres, cl, spc, serr, sl, dl, ack, peer, discCalled, ended>> /\ UNCHANGED kavars

DWrite ==  \* write DISCONNECT; on success Transport.Close()
  /\ dpc = "write"
  /\ IF topen THEN topen' = FALSE /\ ended' = TRUE /\ dpc' = "ok"
     ELSE dpc' = "err" /\ UNCHANGED <<topen, ended>>
  /\ UNCHANGED <<st, err, done, connecting, cpc, cres, cl, spc, serr, sl, dl, ack, peer, cb, discCalled>> /\ UNCHANGED kavars


\* ---- keep-alive goroutine of the reconnecting client, and the loop's part in it ----
RDisconnect ==   \* reconnectClient.Disconnect: close(c.disconnected) first, then the DISCONNECT task
  /\ WithKeepAlive /\ WithDisconnect /\ ~rdisc /\ cpc = "done" /\ cres = "ok"
  /\ rdisc' = TRUE
  /\ UNCHANGED <<st, err, topen, done, connecting, cpc, cres, cl, spc, serr, sl, dpc, dl, ack, peer, cb, discCalled, ended, kapc, kacancel>>
KAStart ==
  /\ WithKeepAlive /\ kapc = "off" /\ cpc = "done" /\ cres = "ok"
  /\ kapc' = "idle"
  /\ UNCHANGED <<st, err, topen, done, connecting, cpc, cres, cl, spc, serr, sl, dpc, dl, ack, peer, cb, discCalled, ended, kacancel, rdisc>>
KATick == /\ kapc = "idle" /\ kapc' = "ping"
          /\ UNCHANGED <<st, err, topen, done, connecting, cpc, cres, cl, spc, serr, sl, dpc, dl, ack, peer, cb, discCalled, ended, kacancel, rdisc>>
KAPingOk == /\ kapc = "ping" /\ topen /\ kapc' = "idle"
            /\ UNCHANGED <<st, err, topen, done, connecting, cpc, cres, cl, spc, serr, sl, dpc, dl, ack, peer, cb, discCalled, ended, kacancel, rdisc>>
\* the select after KeepAlive returned an error (reconnclient.go): stand down if the context was cancelled or
\* Disconnect was called, else store the error on this connection and close it
StandDown == (kacancel /\ ~BugKaNoCtxCheck) \/ (rdisc /\ ~BugKaNoDiscCheck)
KAPingTimeout ==     \* the peer is silent: ErrPingTimeout
  /\ kapc = "ping" /\ topen /\ kapc' = "stopped"
  /\ IF StandDown THEN UNCHANGED <<err, topen, ended>>
     ELSE /\ err' = IF err = "nil" THEN "pingtimeout" ELSE err
          /\ topen' = FALSE /\ ended' = TRUE
  /\ UNCHANGED <<st, done, connecting, cpc, cres, cl, spc, serr, sl, dpc, dl, ack, peer, cb, discCalled, kacancel, rdisc>>
KAPingFails ==       \* the transport was closed under the ping (by anyone): Ping returns an error
  /\ kapc = "ping" /\ ~topen /\ kapc' = "stopped"
  /\ err' = IF StandDown \/ err # "nil" THEN err ELSE "pingfailed"
  /\ UNCHANGED <<st, topen, done, connecting, cpc, cres, cl, spc, serr, sl, dpc, dl, ack, peer, cb, discCalled, ended, kacancel, rdisc>>
\* the reconnect loop: Done() closed or disconnected closed -> cancelKeepAlive()
LoopCancelsKA ==
  /\ WithKeepAlive /\ ~kacancel /\ (done \/ rdisc)
  /\ kacancel' = TRUE
  /\ UNCHANGED <<st, err, topen, done, connecting, cpc, cres, cl, spc, serr, sl, dpc, dl, ack, peer, cb, discCalled, ended, kapc, rdisc>>

Next ==
  \/ CInit \/ CWait \/ CUpdA \/ CUpdB
  \/ PeerAck("acc") \/ PeerAck("ref") \/ PeerClose \/ PeerMalformed
  \/ LocalClose \/ KeepAliveErr
  \/ SReadEOF \/ SClose \/ SSetErr \/ SUpdA \/ SUpdB \/ SFin
  \/ DStart \/ DCb \/ DWrite
  \/ RDisconnect \/ KAStart \/ KATick \/ KAPingOk \/ KAPingTimeout \/ KAPingFails \/ LoopCancelsKA

Spec == Init /\ [][Next]_vars /\ WF_vars(Next)

\* ---------------- C16 as invariants over the callback log ----------------
Idx(s) == {i \in 1..Len(cb) : cb[i].s = s}
ActiveAtMostOnce == Cardinality(Idx("Active")) <= 1
ActiveOnlyAfterAccept == Idx("Active") # {} => peer = "acked" \/ cres = "ok" \/ cpc \in {"upd", "cb", "done"}
ClosedAtMostOnce == Cardinality(Idx("Closed")) <= 1
ClosedHasError == \A i \in Idx("Closed") : cb[i].e # "nil"
DisconnectedAtMostOnce == Cardinality(Idx("Disconnected")) <= 1
NoClosedAfterDisconnected == \A i \in Idx("Disconnected") : \A j \in Idx("Closed") : j < i
\* at rest (everything finished)
\* (a reader that was never started although Connect has run is reachable with BugReaderAfterWrite only)
AtRest == (spc = "exit" \/ (spc = "off" /\ ended)) /\ cpc = "done" /\ dpc \in {"idle", "ok", "err"} /\ kapc \in {"off", "stopped"}
ClosedExactlyOnceIfNoDisconnect == (AtRest /\ ~discCalled) => Cardinality(Idx("Closed")) = 1
DisconnectedExactlyOnce == (AtRest /\ discCalled) => Cardinality(Idx("Disconnected")) = 1
ClosedErrIsErr == \A i \in Idx("Closed") : AtRest => cb[i].e = err
ErrNilWhileHealthy == (topen /\ spc = "read" /\ cpc = "done" /\ cres = "ok" /\ ~discCalled /\ kapc # "stopped") => err = "nil"
\* graceful: Disconnect wrote DISCONNECT on an open transport and nothing else ended the connection first
ErrNilAfterGraceful == (AtRest /\ dpc = "ok" /\ peer # "closed" /\ serr # "invalid") => err = "nil"
DoneIffEnded == (done => ended) /\ (AtRest => done)
ActiveAfterClosedState == ~(AtRest /\ st = "Active")
=============================================================================
