------------------------------ MODULE WireWrite ------------------------------
(***************************************************************************)
(* C10, wire half -- packets of concurrent writers never interleave.         *)
(* Writers (API callers and the reader goroutine that acknowledges inbound   *)
(* messages) hand whole packets to BaseClient.write (client.go:85-97), which *)
(* holds muWrite while it loops over Transport.Write; the transport delivers *)
(* a packet in several chunks and other goroutines run in between.           *)
(* Invariant: the byte stream is a concatenation of whole packets.           *)
(* BugNoMutex models write() without muWrite.                                *)
(***************************************************************************)
EXTENDS Integers, Sequences, FiniteSets, TLC

CONSTANTS Writers, Chunks, PacketsPerWriter, BugNoMutex

VARIABLES stream,   \* sequence of <<writer, packet number, chunk number>>
          pc,       \* per writer: [n |-> packet being written (0 = none), k |-> next chunk]
          lock      \* holder of muWrite, or "free"
vars == <<stream, pc, lock>>

Init == stream = << >> /\ pc = [w \in Writers |-> [n |-> 0, k |-> 0, sent |-> 0]] /\ lock = "free"

Begin(w) == /\ pc[w].n = 0 /\ pc[w].sent < PacketsPerWriter
            /\ (BugNoMutex \/ lock = "free")
            /\ lock' = IF BugNoMutex THEN lock ELSE w
            /\ pc' = [pc EXCEPT ![w] = [n |-> pc[w].sent + 1, k |-> 1, sent |-> pc[w].sent]]
            /\ UNCHANGED stream
Chunk(w) == /\ pc[w].n > 0 /\ pc[w].k <= Chunks
            /\ stream' = Append(stream, <<w, pc[w].n, pc[w].k>>)
            /\ pc' = [pc EXCEPT ![w].k = @ + 1]
            /\ UNCHANGED lock
End(w) == /\ pc[w].n > 0 /\ pc[w].k > Chunks
          /\ pc' = [pc EXCEPT ![w] = [n |-> 0, k |-> 0, sent |-> pc[w].sent + 1]]
          /\ lock' = IF BugNoMutex THEN lock ELSE "free"
          /\ UNCHANGED stream
Next == \E w \in Writers : Begin(w) \/ Chunk(w) \/ End(w)
Spec == Init /\ [][Next]_vars

\* every chunk but the first of a packet directly follows the previous chunk of the same packet
WholePackets == \A i \in 1..Len(stream) :
                   stream[i][3] > 1 => (i > 1 /\ stream[i - 1] = <<stream[i][1], stream[i][2], stream[i][3] - 1>>)
\* and a packet that was begun is completed before another one starts
NoInterleaving == \A i \in 2..Len(stream) :
                   stream[i][3] = 1 => stream[i - 1][3] = Chunks
=============================================================================
