INIT SInit
NEXT SNext
CHECK_DEADLOCK FALSE
CONSTANTS
  Letters = {}
  MaxLen = 0
  HasHandler = TRUE
  BugAckBeforeHandler = FALSE
  BugDeliverOnPublish = FALSE
  BugKeepAfterRelease = FALSE
  AllowWriteFail = FALSE
  BugCompBeforeHandover = FALSE
