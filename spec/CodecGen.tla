------------------------------ MODULE CodecGen ------------------------------
(***************************************************************************)
(* Property C05, generator side.  TLC evaluates this module (ASSUMEs only, *)
(* no behaviour):                                                          *)
(*   1. the consistency lemmas of Codec.tla over the input sets below;     *)
(*   2. a table (n, RemLen(n)) -> remlen.ndjson, rows <<n, b1, .., bk>>;   *)
(*   3. test vectors (input, expected bytes) -> vectors.ndjson, one JSON   *)
(*      object per line, field "op" names the kind.                        *)
(* The Go driver (harness/cmd/drive/codec.go) runs the real client on each *)
(* input and compares the bytes on the transport with the "exp"/"head"     *)
(* fields computed HERE by the encoders of Codec.tla.                      *)
(*                                                                         *)
(* Long strings / payloads are written as a "blob" descriptor              *)
(*   [pre, n, base, mod, a, s]  ==  pre \o <<base + (a + s*(i-1)) % mod>>  *)
(* (i = 1..n), expanded identically by Bytes() below and by the driver, so *)
(* the files stay small although bodies cross 16384 and 2097152 bytes.     *)
(***************************************************************************)
EXTENDS Codec, CodecSeed, TLC, Json, FiniteSets, SequencesExt

CONSTANTS Thorough,        \* BOOLEAN: tier
          SpreadOffset,    \* seeded by the check: extra lengths (SpreadOffset + k*SpreadStride) % 2^28
          SpreadStride,
          SpreadN

Lit(seq)            == [pre |-> seq, n |-> 0, base |-> 0, mod |-> 1, a |-> 0, s |-> 0]
Gen(n, base, mod, a, s) == [pre |-> <<>>, n |-> n, base |-> base, mod |-> mod, a |-> a, s |-> s]
Bytes(b) == b.pre \o [i \in 1..b.n |-> b.base + ((b.a + b.s * (i - 1)) % b.mod)]
BLen(b)  == Len(b.pre) + b.n
Letters(n, a) == Gen(n, 97, 26, a, 1)          \* n lower-case letters
Ramp(n, a, s) == Gen(n, 0, 256, a, s)          \* arbitrary binary data

(***************************************************************************)
(* 1. Remaining length: lemma over, and table of,                          *)
(*    all n < 20000, every class boundary +-3, 128 values per byte         *)
(*    position (digit d in position p, other digits 0 / all other digits   *)
(*    127), and the seeded spread.                                         *)
(***************************************************************************)
Boundaries == {127, 128, 16383, 16384, 2097151, 2097152, MaxRemLen}
NearBoundaries == {n \in UNION {(b - 3)..(b + 3) : b \in Boundaries} : n \in 0..MaxRemLen}
PerDigit == UNION {{d * (128 ^ p), MaxRemLen - (127 - d) * (128 ^ p)} : d \in 0..127, p \in 0..3}
Spread == {(SpreadOffset + k * SpreadStride) % (MaxRemLen + 1) : k \in 0..(SpreadN - 1)}
LenSet == (0..19999) \cup NearBoundaries \cup PerDigit \cup Spread

ASSUME LemmaRemLenAll == \A n \in LenSet : LemmaRemLen(n)
(* a non-minimal or over-long field is not accepted as a frame by the decoder of this spec *)
ASSUME LemmaNonMinimal == /\ ~Framed(<<192, 128, 0>>)
                          /\ ~Framed(<<192, 128, 128, 128, 128, 0>>)
                          /\ Framed(<<192, 0>>)

LenSeq == SetToSeq(LenSet)
ASSUME DumpRemLen == ndJsonSerialize("remlen.ndjson", [i \in DOMAIN LenSeq |-> <<LenSeq[i]>> \o RemLen(LenSeq[i])])

(***************************************************************************)
(* 2. CONNECT: all combinations of the options.                            *)
(***************************************************************************)
ClientIds == {<<>>, <<99>>, <<99, 105, 100, 45, 195, 169, 45, 49>>}        \* "", "c", "cid-e'-1" (2-byte UTF-8)
UserName  == <<117, 115, 101, 114, 195, 188>>                              \* "useru:" (2-byte UTF-8)
Password  == <<112, 64, 115, 115>>                                         \* "p@ss"
NoWill == [has |-> FALSE, topic |-> <<>>, msg |-> <<>>, qos |-> 0, retain |-> FALSE]
Wills == {NoWill} \cup
         {[has |-> TRUE,
           topic |-> <<119, 47, 48 + q>>,                                  \* "w/<q>"
           msg |-> IF r THEN <<>> ELSE <<98, 121, 101, 0, 255, q>>,        \* empty / binary will message
           qos |-> q, retain |-> r] : q \in 0..2, r \in BOOLEAN}

ConnectInputs ==
    {[level |-> l, clean |-> c, keepalive |-> k, clientid |-> cid,
      hasWill |-> w.has, willTopic |-> w.topic, willMsg |-> w.msg, willQos |-> w.qos, willRetain |-> w.retain,
      hasUser |-> hu, user |-> IF hu THEN UserName ELSE <<>>,
      hasPass |-> hp, pass |-> IF hp THEN Password ELSE <<>>]
     : l \in {3, 4}, c \in BOOLEAN, k \in {0, 1, 300, 65535}, cid \in ClientIds, w \in Wills,
       hu \in BOOLEAN, hp \in BOOLEAN}

(* long fields: the body crosses typical internal buffer sizes (128, 256, 512 bytes) at different fields *)
Fill(b, n) == [i \in 1..n |-> b]
LongWill == [has |-> TRUE, topic |-> Fill(119, 120), msg |-> Fill(98, 130), qos |-> 1, retain |-> TRUE]
LongConnectInputs ==
    {[level |-> 4, clean |-> c, keepalive |-> 60, clientid |-> cid,
      hasWill |-> w.has, willTopic |-> w.topic, willMsg |-> w.msg, willQos |-> w.qos, willRetain |-> w.retain,
      hasUser |-> hu, user |-> IF hu THEN Fill(117, ul) ELSE <<>>,
      hasPass |-> hp, pass |-> IF hp THEN Fill(112, pl) ELSE <<>>]
     : c \in BOOLEAN, cid \in {<<99>>, Fill(99, 23), Fill(99, 245), Fill(99, 300)}, w \in {NoWill, LongWill},
       hu \in BOOLEAN, hp \in BOOLEAN, ul \in {6, 130}, pl \in {4, 300}}
ConnectInputsAll == ConnectInputs \cup LongConnectInputs

ASSUME LemmaConnectAll == \A o \in ConnectInputsAll : LemmaConnect(o)
(* flag bits, spelled out once more for the reader: reserved bit 0 is never set,          *)
(* will QoS / will retain are 0 without a will, credentials flags match the presence      *)
ASSUME LemmaConnectFlags == \A o \in ConnectInputs : LET f == ConnectFlags(o) IN
    /\ f \in Byte /\ ~Bit(f, 0)
    /\ Bit(f, 1) = o.clean /\ Bit(f, 2) = o.hasWill /\ Bit(f, 6) = o.hasPass /\ Bit(f, 7) = o.hasUser
    /\ (~o.hasWill => (f \div 8) % 8 = 0)
    /\ (o.hasWill => (f \div 8) % 4 = o.willQos /\ Bit(f, 5) = o.willRetain)

ConnectVectors == LET q == SetToSeq(ConnectInputsAll) IN
    [i \in DOMAIN q |-> [op |-> "connect", o |-> q[i], ok |-> ConnectOptsOK(q[i]), exp |-> Connect(q[i])]]

(***************************************************************************)
(* 3. PUBLISH (both directions), and through it PUBREL / PUBACK / PUBREC / *)
(*    PUBCOMP.  A vector is a message m with blob topic / payload and      *)
(*       head = everything in front of the payload,                        *)
(*       rel  = the PUBREL a sender emits after PUBREC (QoS 2),            *)
(*       ack1 / ack2 = what a RECEIVER of m emits: PUBACK | PUBREC,PUBCOMP *)
(***************************************************************************)
IdsCore == {1, 255, 256, 65535}
IdsMore == {2, 127, 128, 257, 32767, 32768, 65534}

FlagCombos(ids) ==
    {[qos |-> 0, retain |-> r, dup |-> FALSE, id |-> i] : r \in BOOLEAN, i \in {0, 1, 65535}}   \* id must not appear
    \cup {[qos |-> q, retain |-> r, dup |-> d, id |-> i] : q \in {1, 2}, r \in BOOLEAN, d \in BOOLEAN, i \in ids}

IdLen(fc) == IF fc.qos > 0 THEN 2 ELSE 0

(* body length targets: both sides of every remaining-length class boundary (+-2, thorough: +-3;  *)
(* the 16 KiB class, which TLC expands byte by byte, only +-1 in the quick tier)                   *)
BodyTargets == LET w == IF Thorough THEN 3 ELSE 2
                   x == IF Thorough THEN 3 ELSE 1
               IN  UNION {(b - w + 1)..(b + w) : b \in {127, 2097151}} \cup ((16383 - x + 1)..(16383 + x))
BoundaryIds == IF Thorough THEN IdsCore \cup IdsMore ELSE IdsCore

MsgVec(fc, topic, payload) ==
    [op |-> "msg",
     m |-> [topic |-> topic, payload |-> payload, qos |-> fc.qos, retain |-> fc.retain, dup |-> fc.dup, id |-> fc.id],
     head |-> PublishHeadFor(fc.dup, fc.qos, fc.retain, Bytes(topic), fc.id, BLen(payload)),
     rel  |-> IF fc.qos = 2 THEN PubRel(fc.id) ELSE <<>>,
     ack1 |-> IF fc.qos = 1 THEN PubAck(fc.id) ELSE IF fc.qos = 2 THEN PubRec(fc.id) ELSE <<>>,
     ack2 |-> IF fc.qos = 2 THEN PubComp(fc.id) ELSE <<>>]

(* the message a vector stands for, as Codec.tla sees it *)
MsgOf(v) == [topic |-> Bytes(v.m.topic), payload |-> Bytes(v.m.payload),
             qos |-> v.m.qos, retain |-> v.m.retain, dup |-> v.m.dup, id |-> v.m.id]

(* small messages: every flag combination and identifier, a few topics / payloads *)
SmallTopics   == {<<97>>, <<97, 47, 98>>, <<116, 47, 195, 169, 47, 226, 130, 172>>}        \* "a" "a/b" "t/e'/EUR" (2- and 3-byte UTF-8)
SmallPayloads == {<<>>, <<0>>, <<255, 0, 128, 13, 10>>}
SmallMsgs == {MsgVec(fc, Lit(t), Lit(p)) : fc \in FlagCombos(IdsCore \cup IdsMore), t \in SmallTopics, p \in SmallPayloads}

(* boundary messages: body length = target exactly; topic length and data vary with the target *)
BoundaryMsg(fc, target) ==
    LET tl == 1 + (target % 5)
        pl == target - 2 - tl - IdLen(fc)
    IN  MsgVec(fc, Letters(tl, target % 26), Ramp(pl, (target + fc.id) % 256, 1 + 2 * (fc.qos % 3)))
BoundaryMsgs == {BoundaryMsg(fc, t) : fc \in FlagCombos(BoundaryIds), t \in BodyTargets}

(* topic-length boundaries (the 16-bit length prefix): 127/128, 255/256, 65535 (the maximum) *)
TopicLens == {127, 128, 255, 256, 65535}
LongTopicMsgs == {MsgVec(fc, Letters(tl, tl % 26), Ramp(3, tl % 256, 1)) :
                    fc \in {c \in FlagCombos({256}) : c.id \in {0, 256} /\ ~c.dup}, tl \in TopicLens}

(* seeded messages: rows <<qos, retain, dup, id, topic length, topic phase, payload length,  *)
(* payload start, payload step>> of CodecSeed.tla, which the check regenerates from VERIF_SEED *)
SeededMsgs == [k \in DOMAIN SeedParams |-> LET p == SeedParams[k] IN
                 MsgVec([qos |-> p[1], retain |-> p[2] = 1, dup |-> p[3] = 1, id |-> p[4]],
                        Letters(p[5], p[6]), Ramp(p[7], p[8], p[9]))]

(* every packet identifier (thorough; every 257th in the quick tier), QoS 1 and 2 alternating, so that   *)
(* PUBLISH, PUBREL, PUBACK, PUBREC and PUBCOMP are each seen with all identifiers in both tiers together *)
SweepN == IF Thorough THEN 65535 ELSE 255
IdSweepMsgs == [k \in 1..SweepN |-> LET i == IF Thorough THEN k ELSE 1 + 257 * (k - 1) IN
                  MsgVec([qos |-> 1 + ((i + i \div 256) % 2), retain |-> FALSE, dup |-> FALSE, id |-> i],
                         Lit(<<105>>), Lit(<<i % 256>>))]

(* all message vectors, as a sequence (the enumerated sets first) *)
MsgVecs == SetToSeq(SmallMsgs \cup BoundaryMsgs \cup LongTopicMsgs) \o SeededMsgs \o IdSweepMsgs

(* The lemmas are evaluated on the expanded message wherever that is affordable (bodies up to *)
(* 70000 bytes); for the 2 MiB bodies Publish(m) = head \o payload holds by definition.       *)
Expandable(v) == BLen(v.m.topic) + BLen(v.m.payload) <= 70000
ASSUME LemmaPublishAll == \A k \in DOMAIN MsgVecs : LET v == MsgVecs[k] IN Expandable(v) =>
          LET m == MsgOf(v) IN
          /\ PublishOK(m)
          /\ LemmaPublish(m)
          /\ Publish(m) = v.head \o Bytes(v.m.payload)
ASSUME LemmaPublishLong == \A k \in DOMAIN MsgVecs : LET v == MsgVecs[k] IN
          /\ DecodeRemLen(Tail(v.head)) + 1 + RemLenSize(Tail(v.head)) = Len(v.head) + BLen(v.m.payload)
          /\ v.head[1] \div 16 = 3 /\ FlagsOK(3, v.head[1] % 16)
ASSUME LemmaAcksAll == \A id \in IdsCore \cup IdsMore : LemmaAcks(id)
ASSUME LemmaBare

(***************************************************************************)
(* 4. Rejections: what the protocol cannot carry.  expect = "reject" when  *)
(*    ~Carriable, "open" for the one case the statement leaves open (the   *)
(*    code also refuses length = maximum), "emit" otherwise.               *)
(***************************************************************************)
RejectCases ==
    {[qos |-> q, plen |-> pl, max |-> mx] :
        q \in {0, 1, 2, 3, 4, 128, 255}, mx \in {0, 1, 10, 128, 16384},
        pl \in {0, 1, 9, 10, 11, 12, 127, 128, 129, 16383, 16384, 16385, 40000}}
RejectVec(c) ==
    LET fc == [qos |-> c.qos, retain |-> FALSE, dup |-> FALSE, id |-> 7]
        topic == Lit(<<114>>)
        payload == Ramp(c.plen, c.max % 256, 1)
        ok == CarriableFor(c.qos, c.plen, c.max)
    IN  [op |-> "reject", max |-> c.max,
         m |-> [topic |-> topic, payload |-> payload, qos |-> c.qos, retain |-> FALSE, dup |-> FALSE, id |-> 7],
         expect |-> IF ~ok THEN "reject" ELSE IF c.max > 0 /\ c.plen = c.max THEN "open" ELSE "emit",
         badqos |-> c.qos > 2, toolong |-> c.max > 0 /\ c.plen > c.max,
         head |-> IF ok THEN PublishHeadFor(FALSE, c.qos, FALSE, <<114>>, 7, c.plen) ELSE <<>>,
         rel  |-> IF ok /\ c.qos = 2 THEN PubRel(7) ELSE <<>>]
RejectVectors == LET q == SetToSeq(RejectCases) IN [i \in DOMAIN q |-> RejectVec(q[i])]

(***************************************************************************)
(* 5. SUBSCRIBE / UNSUBSCRIBE: lists of length 1..3 (every list over the   *)
(*    filters below for lengths 1 and 2; for length 3 every QoS triple on  *)
(*    fixed filter triples in the quick tier, every list in thorough),     *)
(*    plus filters whose length puts the body on a class boundary.         *)
(*    The empty list is not covered by the statement: one vector each,     *)
(*    marked open (recorded, never judged).                                *)
(***************************************************************************)
Filters == {<<97>>, <<97, 47, 43>>, <<35>>, <<116, 47, 195, 169>>}           \* "a" "a/+" "#" "t/e'"
Entry(f, q) == [filter |-> Lit(f), qos |-> q]
Triples == IF Thorough THEN {<<a, b, c>> : a \in Filters, b \in Filters, c \in Filters}
           ELSE {<<<<97>>, <<97, 47, 43>>, <<35>>>>, <<<<35>>, <<35>>, <<116, 47, 195, 169>>>>,
                 <<<<116, 47, 195, 169>>, <<97>>, <<97>>>>}
SubLists ==      {<<Entry(f, q)>> : f \in Filters, q \in 0..2}
            \cup {<<Entry(f, q), Entry(g, r)>> : f \in Filters, g \in Filters, q \in 0..2, r \in 0..2}
            \cup {<<Entry(t[1], q), Entry(t[2], r), Entry(t[3], s)>> : t \in Triples, q \in 0..2, r \in 0..2, s \in 0..2}
(* body = 2 (id) + 2 + filter length + 1 (QoS byte) *)
LongSubLists == {<<[filter |-> Letters(t - 5, t % 26), qos |-> t % 3]>> : t \in {127, 128, 16383, 16384}}
                \cup {<<Entry(<<97>>, 1), [filter |-> Letters(t - 9, t % 26), qos |-> 2]>> : t \in {127, 128}}
UnsubLists ==      {<<Lit(f)>> : f \in Filters}
              \cup {<<Lit(f), Lit(g)>> : f \in Filters, g \in Filters}
              \cup {<<Lit(f), Lit(g), Lit(h)>> : f \in Filters, g \in Filters, h \in Filters}
(* body = 2 (id) + 2 + filter length *)
LongUnsubLists == {<<Letters(t - 4, t % 26)>> : t \in {127, 128, 16383, 16384}}

ExpSubs(l) == [i \in DOMAIN l |-> [filter |-> Bytes(l[i].filter), qos |-> l[i].qos]]
ExpFs(l)   == [i \in DOMAIN l |-> Bytes(l[i])]
SubIds(l)  == IF Len(l) = 3 /\ ~Thorough THEN {255, 256} ELSE IdsCore

SubVec(id, l, open)   == [op |-> "subscribe", id |-> id, subs |-> l, open |-> open, exp |-> Subscribe(id, ExpSubs(l))]
UnsubVec(id, l, open) == [op |-> "unsubscribe", id |-> id, fs |-> l, open |-> open, exp |-> Unsubscribe(id, ExpFs(l))]

SubVecSet ==   {SubVec(id, l, FALSE) : id \in IdsCore, l \in {x \in SubLists : Len(x) < 3} \cup LongSubLists}
          \cup UNION {{SubVec(id, l, FALSE) : id \in SubIds(l)} : l \in {x \in SubLists : Len(x) = 3}}
          \cup {SubVec(300, <<>>, TRUE)}
UnsubVecSet == {UnsubVec(id, l, FALSE) : id \in IdsCore, l \in UnsubLists \cup LongUnsubLists}
          \cup {UnsubVec(300, <<>>, TRUE)}

ASSUME LemmaSubscribeAll   == \A v \in SubVecSet : LemmaSubscribe(v.id, ExpSubs(v.subs)) /\ (~v.open => Len(v.subs) \in 1..3)
ASSUME LemmaUnsubscribeAll == \A v \in UnsubVecSet : LemmaUnsubscribe(v.id, ExpFs(v.fs))

(***************************************************************************)
(* 6. PINGREQ, DISCONNECT, and the dump.                                   *)
(***************************************************************************)
BareVectors == <<[op |-> "ping", exp |-> PingReq], [op |-> "disconnect", exp |-> Disconnect]>>

ASSUME DumpVectors == ndJsonSerialize("vectors.ndjson",
          ConnectVectors \o MsgVecs \o RejectVectors
          \o SetToSeq(SubVecSet) \o SetToSeq(UnsubVecSet) \o BareVectors)

ASSUME PrintT(<<"COUNTS", [lens |-> Cardinality(LenSet), connect |-> Cardinality(ConnectInputs),
                           msgs |-> Len(MsgVecs), reject |-> Cardinality(RejectCases),
                           subscribe |-> Cardinality(SubVecSet), unsubscribe |-> Cardinality(UnsubVecSet)]>>)
=============================================================================
