------------------------------- MODULE Clone -------------------------------
(***************************************************************************)
(* Property C20: "Handlers behind ServeMux / ServeAsync get private copies  *)
(* of the message."                                                         *)
(*                                                                         *)
(* Go messages are pointers to structs whose Payload is a slice, i.e. a     *)
(* (pointer, length, capacity) view into a backing array.  Aliasing is the  *)
(* whole point of the property, so the model has an explicit heap:          *)
(*   bufs : sequence of backing arrays (each a sequence of bytes; its        *)
(*          length is the capacity);                                         *)
(*   msgs : sequence of message objects  [topic, id, qos, retain, dup,       *)
(*          buf, off, len]  where (buf, off, len) is the Payload slice       *)
(*          header (buf = 0: no backing array -- nil or empty payload).      *)
(* A reference is an index into msgs / bufs.  A *deep* copy allocates a new  *)
(* message object AND a new backing array, a *shallow* copy only a new       *)
(* message object (sharing the array), "no copy" passes the reference on.    *)
(*                                                                         *)
(* Threads (goroutines) are sequences of operations; thread 1 is the caller  *)
(* of Serve.  Dispatching operations ("mux", "async1", "amux", "clone") are  *)
(* internal; the visible events are exactly those a harness can order on the *)
(* real code: call / return of Serve, entry of a handler body, the caller    *)
(* mutating its own message, and the end of the run.                         *)
(*                                                                         *)
(* A handler body first OBSERVES the message it was given, then applies one  *)
(* MUTATION to it and keeps the pointer (it stays a "holder").               *)
(* The property is the conjunction of three invariants:                      *)
(*   NoBadObs      every observation equals the value the caller's message   *)
(*                 had when that Serve call was made;                        *)
(*   CallerIntact  the caller's message(s) only ever change by the caller's  *)
(*                 own writes;                                               *)
(*   HoldersIntact what a handler left in its copy stays there, whatever    *)
(*                 later handlers / the caller do.                           *)
(* Impl = "Deep" is the implementation demanded by the property; every other *)
(* value models a wrong implementation on which TLC must find a violation    *)
(* (non-vacuity of the invariants and of the enumerated cases).             *)
(***************************************************************************)
EXTENDS Integers, Sequences, FiniteSets, TLC, Json

CONSTANTS
  Impl,      \* "Deep" | "ShallowPayload" | "MuxNoClone" | "AsyncNoClone" | "DropDup" | "DropID" | "DropRetain" | "SwapFlags"
  MaxH,      \* 1..3: maximal number of handlers registered on a ServeMux
  MutKinds,  \* mutation kinds a handler may apply (subset of AllMuts)
  PayKinds,  \* payload shapes of the first message (subset of AllPays)
  Modes,     \* caller programs (subset of AllModes)
  Tops,      \* dispatcher topologies (subset of AllTops)
  Reduce,    \* TRUE: internal (dispatching) steps take priority over visible ones
  Record     \* TRUE: keep the schedule of visible events and print the finished case

AllMuts  == {"topic", "inplace", "append", "reslice", "retain", "dup", "qos", "id", "all"}
AllPays  == {"nil", "empty", "tight", "spare", "spare0"}
AllModes == {"one", "one_cmut", "reuse", "fresh"}
AllTops  == {"mux", "async", "amux", "clone"}

ASSUME MutKinds \subseteq AllMuts /\ PayKinds \subseteq AllPays /\ Modes \subseteq AllModes /\ Tops \subseteq AllTops
ASSUME MaxH \in 1..3

VARIABLES
  cs,     \* the case: [top, hs, pay, mode]; hs[i] = [a |-> handler i wrapped in ServeAsync, mut |-> its mutation]
  msgs, bufs,     \* the heap
  thr,    \* threads: sequence of sequences of operations; thr[1] is the caller
  cm,     \* references of the caller's message objects (1, or 2 in mode "fresh")
  cwant,  \* ghost: what the caller last wrote to cm[k] (as a value)
  orig,   \* ghost: orig[r] = value of the served message when Serve call r was made
  held,   \* ghost: one entry per finished handler invocation [h, r, m, want]
  bad,    \* ghost: <<>> or <<first observation that differed from orig>>
  sched   \* history of visible events (only if Record)

vars == <<cs, msgs, bufs, thr, cm, cwant, orig, held, bad, sched>>

---------------------------------------------------------------------------
(* Values.  The value of a message is what Go code can read through the     *)
(* pointer: the five scalar fields and the bytes Payload[0:len].            *)
PayOf(ms, bs, m) == LET x == ms[m] IN
  IF x.buf = 0 \/ x.len = 0 THEN <<>> ELSE SubSeq(bs[x.buf], x.off + 1, x.off + x.len)

View(ms, bs, m) == LET x == ms[m] IN
  [topic |-> x.topic, id |-> x.id, qos |-> x.qos, retain |-> x.retain, dup |-> x.dup,
   payload |-> PayOf(ms, bs, m)]

(* The first message has every flag set / non-zero, so that a copy that     *)
(* forgets a field (leaving Go's zero value) differs.                       *)
Msg1(buf, len) == [topic |-> "t/a", id |-> 7, qos |-> 1, retain |-> TRUE, dup |-> TRUE, buf |-> buf, off |-> 0, len |-> len]
Buf1(p) == CASE p = "tight"  -> <<1, 2, 3>>         \* len 3, cap 3
             [] p = "spare"  -> <<1, 2, 3, 0, 0>>   \* len 3, cap 5: append may write into the array
             [] p = "spare0" -> <<0, 0>>            \* len 0, cap 2
             [] OTHER        -> <<>>                \* nil / empty: no array
Len1(p) == IF p \in {"tight", "spare"} THEN 3 ELSE 0
(* The second message (mode "fresh") is a different object with different   *)
(* content in every field.                                                  *)
\* (RETAIN and DUP differ in the second message: a copy that exchanges them is a wrong copy -- seeded change c20i, Impl "SwapFlags")
Msg2(buf) == [topic |-> "t/b", id |-> 9, qos |-> 2, retain |-> TRUE, dup |-> FALSE, buf |-> buf, off |-> 0, len |-> 2]
Buf2 == <<11, 12>>

---------------------------------------------------------------------------
(* Message.clone() as implemented by Impl.  Result: new heap and the        *)
(* reference of the copy.  Deep: `append([]byte{}, m.Payload...)` gives a   *)
(* fresh array holding exactly the payload bytes (Go may round the capacity *)
(* up; the spare part is private either way and never observed).            *)
DoClone(ms, bs, m) ==
  LET x == ms[m]
      pay == PayOf(ms, bs, m)
      shallow == Impl = "ShallowPayload"
      y == [x EXCEPT !.buf = IF shallow THEN x.buf ELSE IF pay = <<>> THEN 0 ELSE Len(bs) + 1,
                     !.off = IF shallow THEN x.off ELSE 0,
                     !.dup = IF Impl = "DropDup" THEN FALSE ELSE IF Impl = "SwapFlags" THEN x.retain ELSE x.dup,
                     !.id = IF Impl = "DropID" THEN 0 ELSE x.id,
                     !.retain = IF Impl = "DropRetain" THEN FALSE ELSE IF Impl = "SwapFlags" THEN x.dup ELSE x.retain]
  IN [ms |-> Append(ms, y), bs |-> IF shallow \/ pay = <<>> THEN bs ELSE Append(bs, pay), ref |-> Len(ms) + 1]

(* Writes through a message pointer.  Fill(.., v): Payload[j] = v + j for    *)
(* all j (in place).  Go's append: in place if the slice has room in its    *)
(* array, else a new array.                                                 *)
SetFirst(ms, bs, m, v) == LET x == ms[m] IN
  IF x.buf = 0 \/ x.len = 0 THEN bs ELSE [bs EXCEPT ![x.buf][x.off + 1] = v]
Fill(ms, bs, m, v) == LET x == ms[m] IN
  IF x.buf = 0 \/ x.len = 0 THEN bs
  ELSE [bs EXCEPT ![x.buf] = [j \in 1..Len(bs[x.buf]) |->
           IF j > x.off /\ j <= x.off + x.len THEN v + (j - x.off - 1) ELSE bs[x.buf][j]]]
HasRoom(ms, bs, m) == LET x == ms[m] IN x.buf # 0 /\ x.off + x.len < Len(bs[x.buf])
AppendByte(ms, bs, m, v) ==
  LET x == ms[m] IN
  IF HasRoom(ms, bs, m)
  THEN [ms |-> [ms EXCEPT ![m].len = x.len + 1], bs |-> [bs EXCEPT ![x.buf][x.off + x.len + 1] = v]]
  ELSE [ms |-> [ms EXCEPT ![m] = [x EXCEPT !.buf = Len(bs) + 1, !.off = 0, !.len = x.len + 1]],
        bs |-> Append(bs, PayOf(ms, bs, m) \o <<v>>)]

(* The mutation handler i applies after observing (value written: 200+10i). *)
Mutate(ms, bs, m, kind, i) ==
  LET x == ms[m]
      v == 200 + 10 * i
      tp == "t/h" \o ToString(i)
  IN CASE kind = "topic"   -> [ms |-> [ms EXCEPT ![m].topic = tp], bs |-> bs]
       [] kind = "inplace" -> [ms |-> ms, bs |-> SetFirst(ms, bs, m, v)]            \* Payload[0] = v
       [] kind = "append"  -> AppendByte(ms, bs, m, v)                              \* Payload = append(Payload, v)
       [] kind = "reslice" -> [ms |-> IF x.len = 0 THEN ms                          \* Payload = Payload[1:]
                                      ELSE [ms EXCEPT ![m].off = x.off + 1, ![m].len = x.len - 1], bs |-> bs]
       [] kind = "retain"  -> [ms |-> [ms EXCEPT ![m].retain = ~x.retain], bs |-> bs]
       [] kind = "dup"     -> [ms |-> [ms EXCEPT ![m].dup = ~x.dup], bs |-> bs]
       [] kind = "qos"     -> [ms |-> [ms EXCEPT ![m].qos = (x.qos + 1) % 3], bs |-> bs]
       [] kind = "id"      -> [ms |-> [ms EXCEPT ![m].id = x.id + 100 + i], bs |-> bs]
       [] kind = "all"     -> [ms |-> [ms EXCEPT ![m] = [x EXCEPT !.topic = tp, !.retain = ~x.retain, !.dup = ~x.dup,
                                                                   !.qos = (x.qos + 1) % 3, !.id = x.id + 100 + i]],
                               bs |-> Fill(ms, bs, m, v)]

(* The caller re-using its message object and buffer for the next message   *)
(* (what a reader with a receive buffer does): every payload byte is         *)
(* overwritten in place, one byte is appended if the array has room, and     *)
(* all scalar fields get the values of message 2.                            *)
CallerMutate(ms, bs, m) ==
  LET bs1 == Fill(ms, bs, m, 100)
      a == IF HasRoom(ms, bs1, m) THEN AppendByte(ms, bs1, m, 77) ELSE [ms |-> ms, bs |-> bs1]
      x == a.ms[m]
  IN [ms |-> [a.ms EXCEPT ![m] = [x EXCEPT !.topic = "t/b", !.id = 9, !.qos = 2, !.retain = FALSE, !.dup = FALSE]],
      bs |-> a.bs]

---------------------------------------------------------------------------
(* Cases.                                                                  *)
(* (HSeqs and Cases take a parameter only so that TLC does not evaluate the   *)
(* whole set at start-up in runs that never use it, e.g. trace validation.) *)
HR == [a : BOOLEAN, mut : MutKinds]
HSeqs(n) == {<<a>> : a \in HR}
            \cup (IF n >= 2 THEN {<<a, b>> : a \in HR, b \in HR} ELSE {})
            \cup (IF n >= 3 THEN {<<a, b, c>> : a \in HR, b \in HR, c \in HR} ELSE {})
(* "mux":   ServeMux with handlers hs (hs[i].a: handler i is ServeAsync{h_i}) *)
(* "amux":  ServeAsync{ServeMux with handlers hs}                             *)
(* "async": ServeAsync{h_1}            "clone": h_1(VerifClone(msg)) inline   *)
Cases(T) ==
  {[top |-> tp, hs |-> hs, pay |-> p, mode |-> md] :
      tp \in T \cap {"mux", "amux"}, hs \in HSeqs(MaxH), p \in PayKinds, md \in Modes}
  \cup
  {[top |-> tp, hs |-> <<[a |-> FALSE, mut |-> mu]>>, pay |-> p, mode |-> md] :
      tp \in T \cap {"async", "clone"}, mu \in MutKinds, p \in PayKinds, md \in Modes}

Op(o, m, r, i) == [op |-> o, m |-> m, r |-> r, i |-> i]
Program(md) ==
  CASE md = "one"      -> <<Op("call", 0, 1, 0), Op("fin", 0, 0, 0)>>
    [] md = "one_cmut" -> <<Op("call", 0, 1, 0), Op("cmut", 0, 0, 0), Op("fin", 0, 0, 0)>>
    [] md = "reuse"    -> <<Op("call", 0, 1, 0), Op("cmut", 0, 0, 0), Op("call", 0, 2, 0), Op("fin", 0, 0, 0)>>
    [] md = "fresh"    -> <<Op("call", 0, 1, 0), Op("call", 0, 2, 0), Op("fin", 0, 0, 0)>>

InitCase(c) ==
  /\ cs = c
  /\ bufs = (IF Buf1(c.pay) = <<>> THEN <<>> ELSE <<Buf1(c.pay)>>) \o (IF c.mode = "fresh" THEN <<Buf2>> ELSE <<>>)
  /\ msgs = <<Msg1(IF Buf1(c.pay) = <<>> THEN 0 ELSE 1, Len1(c.pay))>>
            \o (IF c.mode = "fresh" THEN <<Msg2(IF Buf1(c.pay) = <<>> THEN 1 ELSE 2)>> ELSE <<>>)
  /\ cm = IF c.mode = "fresh" THEN <<1, 2>> ELSE <<1>>
  /\ cwant = [k \in 1..Len(cm) |-> View(msgs, bufs, cm[k])]
  /\ thr = <<Program(c.mode)>>
  /\ orig = <<>> /\ held = <<>> /\ bad = <<>> /\ sched = <<>>

Init == \E c \in Cases(Tops) : InitCase(c)

---------------------------------------------------------------------------
(* Internal steps of thread t: the dispatchers.                             *)
IsInternal(o) == o.op \in {"mux", "async1", "amux", "clone"}
InternalEnabled(t) == thr[t] # <<>> /\ IsInternal(Head(thr[t]))
AnyInternal == \E t \in 1..Len(thr) : InternalEnabled(t)

Internal(t) ==
  /\ InternalEnabled(t)
  /\ LET o == Head(thr[t])
         rest == Tail(thr[t])
         c == DoClone(msgs, bufs, o.m)
     IN CASE o.op = "mux" ->
              \* ServeMux.Serve: for each matching handler, in order: h.Serve(message.clone())
              IF o.i > Len(cs.hs)
              THEN thr' = [thr EXCEPT ![t] = rest] /\ UNCHANGED <<msgs, bufs>>
              ELSE LET share == Impl = "MuxNoClone"
                       ref == IF share THEN o.m ELSE c.ref
                       child == Op(IF cs.hs[o.i].a THEN "async1" ELSE "h", ref, o.r, o.i)
                   IN /\ thr' = [thr EXCEPT ![t] = <<child, Op("mux", o.m, o.r, o.i + 1)>> \o rest]
                      /\ msgs' = IF share THEN msgs ELSE c.ms
                      /\ bufs' = IF share THEN bufs ELSE c.bs
          [] o.op \in {"async1", "amux"} ->
              \* ServeAsync.Serve: go m.Handler.Serve(message.clone()) -- the argument of a go
              \* statement is evaluated by the calling goroutine, the call runs in a new one
              LET share == Impl = "AsyncNoClone"
                  ref == IF share THEN o.m ELSE c.ref
                  body == IF o.op = "async1" THEN Op("h", ref, o.r, o.i) ELSE Op("mux", ref, o.r, 1)
              IN /\ thr' = Append([thr EXCEPT ![t] = rest], <<body>>)
                 /\ msgs' = IF share THEN msgs ELSE c.ms
                 /\ bufs' = IF share THEN bufs ELSE c.bs
          [] o.op = "clone" ->
              \* the harness calling VerifClone itself and handing the result to h_1
              /\ thr' = [thr EXCEPT ![t] = <<Op("h", c.ref, o.r, 1)>> \o rest]
              /\ msgs' = c.ms /\ bufs' = c.bs
  /\ UNCHANGED <<cs, cm, cwant, orig, held, bad, sched>>

---------------------------------------------------------------------------
(* Visible steps.  Each one appends its event to sched (if Record).  The    *)
(* caller's events carry nothing: what the caller must see is cwant.        *)
Log(ev) == sched' = IF Record THEN Append(sched, ev) ELSE sched
ServedRef(r) == IF cs.mode = "fresh" /\ r = 2 THEN cm[2] ELSE cm[1]
TopOp(m, r) == CASE cs.top = "mux" -> Op("mux", m, r, 1) [] cs.top = "async" -> Op("async1", m, r, 1)
                 [] cs.top = "amux" -> Op("amux", m, r, 0) [] cs.top = "clone" -> Op("clone", m, r, 1)

\* the caller calls Serve(msg) for the r-th time
Call ==
  /\ thr[1] # <<>> /\ Head(thr[1]).op = "call"
  /\ LET r == Head(thr[1]).r  m == ServedRef(r) IN
       /\ orig' = Append(orig, View(msgs, bufs, m))
       /\ thr' = [thr EXCEPT ![1] = <<TopOp(m, r), Op("ret", 0, r, 0)>> \o Tail(thr[1])]
       /\ Log([e |-> "call", r |-> r])
  /\ UNCHANGED <<cs, msgs, bufs, cm, cwant, held, bad>>

\* Serve returned to the caller
Ret ==
  /\ thr[1] # <<>> /\ Head(thr[1]).op = "ret"
  /\ thr' = [thr EXCEPT ![1] = Tail(thr[1])]
  /\ Log([e |-> "ret", r |-> Head(thr[1]).r])
  /\ UNCHANGED <<cs, msgs, bufs, cm, cwant, orig, held, bad>>

\* the caller overwrites its own message in place
CMut ==
  /\ thr[1] # <<>> /\ Head(thr[1]).op = "cmut"
  /\ LET n == CallerMutate(msgs, bufs, cm[1]) IN
       /\ msgs' = n.ms /\ bufs' = n.bs
       /\ cwant' = [cwant EXCEPT ![1] = View(n.ms, n.bs, cm[1])]
  /\ thr' = [thr EXCEPT ![1] = Tail(thr[1])]
  /\ Log([e |-> "cmut"])
  /\ UNCHANGED <<cs, cm, orig, held, bad>>

\* the body of handler o.i runs in thread t on the message it was given: observe, mutate, keep
\* (saw: the observation; used by CloneTrace to match the recorded one)
HandlerSaw(t) == View(msgs, bufs, Head(thr[t]).m)
Handler(t) ==
  /\ thr[t] # <<>> /\ Head(thr[t]).op = "h"
  /\ LET o == Head(thr[t])
         saw == View(msgs, bufs, o.m)
         n == Mutate(msgs, bufs, o.m, cs.hs[o.i].mut, o.i)
     IN /\ bad' = IF bad = <<>> /\ saw # orig[o.r]
                  THEN <<[h |-> o.i, r |-> o.r, saw |-> saw, want |-> orig[o.r]]>> ELSE bad
        /\ msgs' = n.ms /\ bufs' = n.bs
        /\ held' = Append(held, [h |-> o.i, r |-> o.r, m |-> o.m, want |-> View(n.ms, n.bs, o.m)])
        /\ Log([e |-> "h", h |-> o.i, r |-> o.r, want |-> orig[o.r]])
  /\ thr' = [thr EXCEPT ![t] = Tail(thr[t])]
  /\ UNCHANGED <<cs, cm, cwant, orig>>

\* end of the run: every goroutine has finished
Quiet == \A t \in 2..Len(thr) : thr[t] = <<>>
Fin ==
  /\ thr[1] # <<>> /\ Head(thr[1]).op = "fin" /\ Quiet
  /\ thr' = [thr EXCEPT ![1] = Tail(thr[1])]
  /\ Log([e |-> "fin"])
  /\ Record => PrintT(<<"CASE", ToJson([cs |-> cs, sched |-> sched'])>>)
  /\ UNCHANGED <<cs, msgs, bufs, cm, cwant, orig, held, bad>>

Visible == Call \/ Ret \/ CMut \/ Fin \/ \E t \in 1..Len(thr) : Handler(t)

(* Reduce: a dispatching step only touches objects no other thread can       *)
(* reach when Impl = "Deep" (each copy is owned by one thread), so it        *)
(* commutes with every step of the other threads and may be taken first.    *)
Next == IF Reduce /\ AnyInternal
        THEN LET t == CHOOSE t \in 1..Len(thr) : InternalEnabled(t) /\ \A u \in 1..(t - 1) : ~InternalEnabled(u)
             IN Internal(t)
        ELSE Visible \/ \E t \in 1..Len(thr) : Internal(t)

Spec == Init /\ [][Next]_vars

---------------------------------------------------------------------------
(* The property.                                                           *)
NoBadObs == bad = <<>>
CallerIntact == \A k \in 1..Len(cm) : View(msgs, bufs, cm[k]) = cwant[k]
HoldersIntact == \A k \in 1..Len(held) : View(msgs, bufs, held[k].m) = held[k].want
Isolation == NoBadObs /\ CallerIntact /\ HoldersIntact

(* Sanity of the model itself.                                             *)
TypeOK ==
  /\ \A m \in 1..Len(msgs) : msgs[m].buf \in 0..Len(bufs) /\ msgs[m].off >= 0 /\ msgs[m].len >= 0
        /\ (msgs[m].buf # 0 => msgs[m].off + msgs[m].len <= Len(bufs[msgs[m].buf]))
        /\ (msgs[m].buf = 0 => msgs[m].len = 0)
  /\ Len(orig) <= 2
  /\ Len(held) <= 2 * Len(cs.hs)
(* Under Deep every message object other than the caller's is reachable from *)
(* at most one pending operation (ownership), which justifies Reduce.        *)
Owned == Impl = "Deep" =>
  \A t1, t2 \in 1..Len(thr) : \A k1 \in 1..Len(thr[t1]), k2 \in 1..Len(thr[t2]) :
     (<<t1, k1>> # <<t2, k2>> /\ thr[t1][k1].op = "h" /\ thr[t2][k2].m = thr[t1][k1].m) => FALSE
(* every invocation promised by the case has happened at the end            *)
Complete == (thr[1] = <<>>) =>
  Len(held) = Len(cs.hs) * Len(orig)
=============================================================================
