---------------------------- MODULE PacketIdArith ----------------------------
(***************************************************************************)
(* Arithmetic of the packet identifier allocator (C15), shared by the      *)
(* model PacketId (small M, K, enumerated exhaustively) and by the trace   *)
(* validator TracePacketId (real sizes M = K = 65536).                     *)
(*                                                                         *)
(* The 32 bit counter c.idLast is written as a pair <<h, l>> with          *)
(* value h*M + l, l \in 0..M-1 being the part uint16() keeps and           *)
(* h \in 0..K-1 the part it throws away; TLC integers are 32 bit SIGNED,   *)
(* so 2^32 itself cannot be written, pairs can.  PacketId proves (by       *)
(* enumeration, lemma PairLemma) that PairInc is the wrapping increment.   *)
(***************************************************************************)
EXTENDS Integers

CONSTANTS
  M,    \* number of identifier values: ids are 0..M-1, 0 is not allowed on the wire (MQTT 3.1.1, 2.3.1)
  K     \* the counter has M*K values

W == M - 1                                   \* usable identifiers: 1..M-1

\* atomic.AddUint32(&c.idLast, 1) on the pair representation (both wrap-arounds)
PairInc(p) == IF p[2] = M - 1 THEN <<(p[1] + 1) % K, 0>> ELSE <<p[1], p[2] + 1>>

\* uint16(counter)
PairId(p) == p[2]

\* the counter after a complete newID(): add once, and once more if the truncated value was 0
NextAlloc(p) == LET q == PairInc(p) IN IF PairId(q) = 0 THEN PairInc(q) ELSE q

\* the identifier handed out after identifier v (allocation order): +1, skipping 0
Succ(v) == IF v = M - 1 THEN 1 ELSE v + 1

=============================================================================
