------------------------------ MODULE Reconnect ------------------------------
(***************************************************************************)
(* C09 -- the retry loop of the reconnecting client (reconnclient.go:81-165)*)
(* as a state machine: dial, SetClient+Connect, connected, connection lost,  *)
(* close-and-wait-for-Done, back-off wait, with Disconnect and cancellation  *)
(* of Connect's context (effective only until the first success) arriving    *)
(* in any phase.  The environment decides every dial / connect outcome and   *)
(* when an established connection ends (peer close, protocol error,          *)
(* keep-alive timeout are the same to the loop: Done() closed, Err() # nil). *)
(* Observers: number of transports open, the sequence of back-off waits with *)
(* the number of consecutive failures before each, dials after a stop.       *)
(***************************************************************************)
EXTENDS Integers, Sequences, FiniteSets, TLC

CONSTANTS Base, MaxWait,          \* ReconnectWaitBase, ReconnectWaitMax (abstract units)
          MaxAttempts,            \* bound on dial attempts
          BugNoReset, BugNoDouble, BugDialAfterStop, BugNoCloseOnFail   \* non-vacuity switches

VARIABLES pc, wait, open, attempts, fails, waits, disc, cancelled, first, badDial, discRet

vars == <<pc, wait, open, attempts, fails, waits, disc, cancelled, first, badDial, discRet>>

Min(a, b) == IF a < b THEN a ELSE b
RECURSIVE Pow2(_)
Pow2(k) == IF k = 0 THEN 1 ELSE 2 * Pow2(k - 1)

Init == /\ pc = "dial" /\ wait = Base /\ open = 0 /\ attempts = 0 /\ fails = 0 /\ waits = << >>
        /\ disc = FALSE /\ cancelled = FALSE /\ first = FALSE /\ badDial = FALSE /\ discRet = FALSE

Stopped == disc \/ (cancelled /\ ~first)

\* DialContext (88)
\* (a dial with an already cancelled context fails at once and is not a dial)
DialOk == /\ pc = "dial" /\ attempts < MaxAttempts /\ ~(cancelled /\ ~first)
          /\ attempts' = attempts + 1 /\ open' = open + 1 /\ pc' = "connect"
          /\ badDial' = (badDial \/ discRet)
          /\ UNCHANGED <<wait, fails, waits, disc, cancelled, first, discRet>>
DialFail == /\ pc = "dial" /\ attempts < MaxAttempts
            /\ attempts' = attempts + 1 /\ pc' = "wait"
            /\ badDial' = (badDial \/ (discRet /\ ~(cancelled /\ ~first)))
            /\ UNCHANGED <<wait, open, fails, waits, disc, cancelled, first, discRet>>
\* there is no check between the back-off select and the dial: an iteration that is past the select
\* when the stop arrives runs to its end (dial, connect) and leaves at the next select
\* SetClient + Connect accepted (89-107): reset the wait, release Connect's caller
ConnectOk == /\ pc = "connect"
             /\ wait' = IF BugNoReset THEN wait ELSE Base
             /\ fails' = 0 /\ first' = TRUE /\ pc' = "up"
             /\ UNCHANGED <<open, attempts, waits, disc, cancelled, badDial, discRet>>
\* Connect failed (refused / no CONNACK within the timeout / cut): close, wait for Done (140-148)
ConnectFail == /\ pc = "connect" /\ pc' = "closing"
               /\ UNCHANGED <<wait, open, attempts, fails, waits, disc, cancelled, first, badDial, discRet>>
CloseAndWaitDone == /\ pc = "closing"
                    /\ open' = IF BugNoCloseOnFail THEN open ELSE open - 1
                    /\ pc' = "wait"
                    /\ UNCHANGED <<wait, attempts, fails, waits, disc, cancelled, first, badDial, discRet>>
\* connected: the select at 125-139
Lost == /\ pc = "up" /\ ~disc               \* Done() closed with an error: the transport is gone
        /\ open' = open - 1 /\ pc' = "wait"
        /\ UNCHANGED <<wait, attempts, fails, waits, disc, cancelled, first, badDial, discRet>>
UpStop == /\ pc = "up" /\ disc               \* c.disconnected closed; the Disconnect task closes the transport
          /\ open' = open - 1 /\ pc' = "exit"
          /\ UNCHANGED <<wait, attempts, fails, waits, disc, cancelled, first, badDial, discRet>>
\* back-off select (152-163)
WaitFire == /\ pc = "wait" /\ ~Stopped
            /\ waits' = Append(waits, [w |-> wait, k |-> fails])
            /\ fails' = fails + 1
            /\ wait' = IF BugNoDouble THEN wait ELSE Min(2 * wait, MaxWait)
            /\ pc' = "dial"
            /\ UNCHANGED <<open, attempts, disc, cancelled, first, badDial, discRet>>
WaitStop == /\ pc = "wait" /\ Stopped /\ ~BugDialAfterStop /\ pc' = "exit"
            /\ UNCHANGED <<wait, open, attempts, fails, waits, disc, cancelled, first, badDial, discRet>>
\* wrong implementation: the stop is ignored by the back-off select
WaitFireRacing == /\ pc = "wait" /\ Stopped /\ BugDialAfterStop
                  /\ waits' = Append(waits, [w |-> wait, k |-> fails]) /\ fails' = fails + 1
                  /\ wait' = Min(2 * wait, MaxWait) /\ pc' = "dial"
                  /\ UNCHANGED <<open, attempts, disc, cancelled, first, badDial, discRet>>
\* connected after the stop arrived: the select at 125-139 returns at once
\* application
Disconnect == /\ ~disc /\ disc' = TRUE
              /\ UNCHANGED <<pc, wait, open, attempts, fails, waits, cancelled, first, badDial, discRet>>
DisconnectReturns == /\ disc /\ (pc = "exit" \/ BugDialAfterStop) /\ ~discRet /\ discRet' = TRUE      \* <-c.done
                     /\ UNCHANGED <<pc, wait, open, attempts, fails, waits, disc, cancelled, first, badDial>>
Cancel == /\ ~cancelled /\ cancelled' = TRUE
          /\ UNCHANGED <<pc, wait, open, attempts, fails, waits, disc, first, badDial, discRet>>

Next == DialOk \/ DialFail \/ ConnectOk \/ ConnectFail \/ CloseAndWaitDone \/ Lost \/ UpStop
        \/ WaitFire \/ WaitStop \/ WaitFireRacing \/ Disconnect \/ DisconnectReturns \/ Cancel
LoopNext == DialOk \/ DialFail \/ ConnectOk \/ ConnectFail \/ CloseAndWaitDone \/ UpStop \/ WaitFire \/ WaitStop \/ DisconnectReturns
Spec == Init /\ [][Next]_vars /\ WF_vars(LoopNext)

\* ---- the clauses of C09 ----
OneTransport == open <= 1
BackoffSequence == \A i \in 1..Len(waits) : waits[i].w = Min(Base * Pow2(waits[i].k), MaxWait)
NoDialAfterStop == ~badDial
\* (attempts = MaxAttempts is the bound of the model, not a behaviour of the loop)
DisconnectEventuallyReturns == disc ~> (discRet \/ (pc = "dial" /\ attempts = MaxAttempts))
\* a lost connection is followed by a new dial unless the client was stopped (bounded by MaxAttempts)
Redials == [](pc = "wait" /\ attempts < MaxAttempts => <>(pc \in {"dial", "exit"}))
=============================================================================
