-------------------------------- MODULE Acks --------------------------------
(***************************************************************************)
(* C07 -- a request completes only on the acknowledgement that belongs to   *)
(* it.  Implementation-shaped model of the waiter maps of BaseClient        *)
(* (client.go:109-186, publish.go:147-221, subscribe.go:79-107,             *)
(* unsubscribe.go:55-77, serve.go:98-176):                                  *)
(*   caller:  register a one-slot channel under sig.mu keyed by (kind, id)  *)
(*            -> write the request -> wait on the channel                   *)
(*            (QoS 2: PUBREC, then register PUBCOMP waiter, write PUBREL,   *)
(*            wait);                                                        *)
(*   reader:  for an acknowledgement (kind, id): look up AND delete the      *)
(*            entry, non-blocking send into its channel.                     *)
(* The broker may send any acknowledgement kind with any identifier at any   *)
(* time (own, foreign, unsolicited, duplicated).                             *)
(* `hist` (the order in which the broker sent acknowledgements) is the       *)
(* script replayed against the real client; behaviours are drawn with        *)
(* `tlc -simulate`.                                                          *)
(***************************************************************************)
EXTENDS Integers, Sequences, FiniteSets, TLC

CONSTANTS Kinds,        \* sequence of request kinds, one per caller: "pub1" | "pub2" | "sub" | "unsub"
          ForeignIds,   \* identifiers no caller uses
          MaxSends,     \* bound on acknowledgements the broker sends
          SendSet,      \* the <<ack kind, id>> pairs the broker may send (all of them in the exhaustive instances)
          BugKindOnly,  \* reader picks any waiter of the acknowledgement's kind (ignores the identifier)
          BugIdOnly,    \* reader ignores the kind
          BugNoDelete,  \* reader does not remove the waiter entry
          AllowAbandon  \* callers may give up (context deadline) while they wait

N == Len(Kinds)
Callers == 1..N
IdOf(c) == c                                  \* callers hold distinct identifiers (property C15)
AckKinds == {"PUBACK", "PUBREC", "PUBCOMP", "SUBACK", "UNSUBACK"}
AllIds == Callers \cup ForeignIds
FirstAck(c) == CASE Kinds[c] = "pub1" -> "PUBACK" [] Kinds[c] = "pub2" -> "PUBREC" [] Kinds[c] = "sub" -> "SUBACK" [] OTHER -> "UNSUBACK"

VARIABLES pc,      \* per caller: "start" | "written" | "relwritten" | "done" | "abandoned"
          w,       \* waiter maps: [ack kind -> [id -> "absent" | "waiting" | "filled"]]
          sent,    \* set of <<ack kind, id, n>> the broker has sent (n: how many sends before it)
          hist,    \* sequence of [k, id] in sending order
          got      \* per caller: set of ack kinds that completed one of its waits
vars == <<pc, w, sent, hist, got>>

Init == /\ pc = [c \in Callers |-> "start"]
        /\ w = [k \in AckKinds |-> [i \in AllIds |-> "absent"]]
        /\ sent = {} /\ hist = << >> /\ got = [c \in Callers |-> {}]

\* register the waiter and write the request (the write is atomic with respect to the reader's dispatch
\* because the acknowledgement cannot arrive before the request was written)
Request(c) ==
  /\ pc[c] = "start"
  /\ w' = [w EXCEPT ![FirstAck(c)][IdOf(c)] = "waiting"]
  /\ pc' = [pc EXCEPT ![c] = "written"]
  /\ UNCHANGED <<sent, hist, got>>

\* the wait on the first acknowledgement is over
Wake1(c) ==
  /\ pc[c] = "written" /\ w[FirstAck(c)][IdOf(c)] = "filled"
  /\ got' = [got EXCEPT ![c] = @ \cup {FirstAck(c)}]
  /\ IF Kinds[c] = "pub2"
     THEN /\ w' = [w EXCEPT !["PUBREC"][IdOf(c)] = "absent", !["PUBCOMP"][IdOf(c)] = "waiting"]
          /\ pc' = [pc EXCEPT ![c] = "relwritten"]
     ELSE /\ w' = [w EXCEPT ![FirstAck(c)][IdOf(c)] = "absent"]
          /\ pc' = [pc EXCEPT ![c] = "done"]
  /\ UNCHANGED <<sent, hist>>
Wake2(c) ==
  /\ pc[c] = "relwritten" /\ w["PUBCOMP"][IdOf(c)] = "filled"
  /\ got' = [got EXCEPT ![c] = @ \cup {"PUBCOMP"}]
  /\ w' = [w EXCEPT !["PUBCOMP"][IdOf(c)] = "absent"]
  /\ pc' = [pc EXCEPT ![c] = "done"]
  /\ UNCHANGED <<sent, hist>>

\* the caller's context ends while it waits: the call returns with that error.  Its waiter entry STAYS in the map
\* (the code does not remove it); an acknowledgement that comes later fills a channel nobody reads.
Abandon(c) ==
  /\ AllowAbandon /\ pc[c] \in {"written", "relwritten"}
  /\ pc' = [pc EXCEPT ![c] = "abandoned"]
  /\ UNCHANGED <<w, sent, hist, got>>

\* the broker sends an acknowledgement and the reader dispatches it (serve.go)
Waiting(k) == {i \in AllIds : w[k][i] = "waiting"}
Target(k, id) ==      \* which waiter entry the reader fills: <<kind, id>> or none
  IF BugKindOnly /\ Waiting(k) # {} THEN <<k, CHOOSE i \in Waiting(k) : TRUE>>
  ELSE IF BugIdOnly /\ (\E k2 \in AckKinds : w[k2][id] = "waiting") THEN <<CHOOSE k2 \in AckKinds : w[k2][id] = "waiting", id>>
  ELSE IF w[k][id] = "waiting" THEN <<k, id>> ELSE <<"none", 0>>
Send(k, id) ==
  /\ Len(hist) < MaxSends
  /\ sent' = sent \cup {<<k, id, Len(hist)>>}
  /\ hist' = Append(hist, [k |-> k, id |-> id])
  /\ LET t == Target(k, id) IN
     w' = IF t[1] = "none" THEN w ELSE [w EXCEPT ![t[1]][t[2]] = "filled"]
  /\ UNCHANGED <<pc, got>>

Next == (\E c \in Callers : Request(c) \/ Wake1(c) \/ Wake2(c) \/ Abandon(c)) \/ (\E p \in SendSet : Send(p[1], p[2]))
AllSends == AckKinds \X AllIds
Spec == Init /\ [][Next]_vars /\ WF_vars(\E c \in Callers : Request(c) \/ Wake1(c) \/ Wake2(c))

\* ---- C07 ----
WasSent(k, id) == \E s \in sent : s[1] = k /\ s[2] = id
\* every completed wait was completed by the acknowledgement of the right kind carrying the caller's own id
ReturnOnlyOnOwnAck == \A c \in Callers : \A k \in got[c] : WasSent(k, IdOf(c))
DoneNeedsAllAcks == \A c \in Callers : pc[c] = "done" =>
                       (WasSent(FirstAck(c), IdOf(c)) /\ (Kinds[c] = "pub2" => WasSent("PUBCOMP", IdOf(c))))
\* acknowledgements for other identifiers / of other kinds never touch a waiter
ForeignHarmless == [][\A k \in AckKinds, i \in AllIds :
                        (w[k][i] = "waiting" /\ w'[k][i] = "filled") => (Len(hist') > Len(hist) /\ hist'[Len(hist')] = [k |-> k, id |-> i])]_vars
\* an acknowledgement that arrives while its waiter is registered completes the call (under fairness), unless the
\* caller has given up
OwnAckCompletes == \A c \in Callers : (w[FirstAck(c)][IdOf(c)] = "filled" /\ pc[c] # "abandoned") ~> (FirstAck(c) \in got[c] \/ pc[c] = "abandoned")
\* a request that was given up stays given up and never reports success afterwards, whatever arrives later
AbandonedIsFinal == [][\A c \in Callers : pc[c] = "abandoned" => (pc'[c] = "abandoned" /\ got'[c] = got[c])]_vars
=============================================================================
