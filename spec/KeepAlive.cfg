SPECIFICATION Spec
CONSTANTS MaxLen = 4
CHECK_DEADLOCK FALSE
INVARIANTS TimeoutOnlyForSilence CancelWins KeepsRunningWhileAnswered OnePingPerTick ClosedForm
PROPERTIES Terminates
