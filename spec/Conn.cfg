SPECIFICATION Spec
CONSTANTS
  WithDisconnect = TRUE
  WithLocalClose = TRUE
  WithKeepAliveErr = TRUE
  WithCtxCancel = TRUE
  WithKeepAlive = FALSE
  BugKaNoCtxCheck = FALSE
  BugKaNoDiscCheck = FALSE
  BugReaderAfterWrite = FALSE
CHECK_DEADLOCK FALSE
INVARIANTS ActiveAtMostOnce ActiveOnlyAfterAccept ClosedAtMostOnce ClosedHasError DisconnectedAtMostOnce
  ClosedExactlyOnceIfNoDisconnect DisconnectedExactlyOnce ClosedErrIsErr ErrNilWhileHealthy ErrNilAfterGraceful DoneIffEnded
