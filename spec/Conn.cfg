SPECIFICATION Spec
CONSTANTS
  WithDisconnect = TRUE
  WithLocalClose = TRUE
  WithKeepAliveErr = TRUE
  WithCtxCancel = TRUE
CHECK_DEADLOCK FALSE
INVARIANTS ActiveAtMostOnce ActiveOnlyAfterAccept ClosedAtMostOnce ClosedHasError DisconnectedAtMostOnce
  ClosedExactlyOnceIfNoDisconnect DisconnectedExactlyOnce ClosedErrIsErr ErrNilWhileHealthy ErrNilAfterGraceful DoneIffEnded
