----------------------------- MODULE TraceFramer -----------------------------
(* C06, binding: results of feeding concrete byte streams to a real connected BaseClient, and of
   calling the real packet parsers on concrete (type, flags, body) triples, are compared with what
   module Framer allows.  No behaviour: TLC evaluates the ASSUME. *)
EXTENDS Framer, Json

Runs == ndJsonDeserialize("framer_runs.ndjson")

\* topics containing non-ASCII bytes are outside what the statement fixes (ill-formed UTF-8 may be
\* replaced by the decoder): such topics are not compared
NormHo(ho) == [i \in 1..Len(ho) |-> IF \E k \in 1..Len(ho[i].t) : ho[i].t[k] >= 128 THEN [ho[i] EXCEPT !.t = << >>] ELSE ho[i]]
StreamBad(r) ==
  \/ ~\E o \in Outcomes(r.bytes, 1, << >>) : o.died = r.died /\ NormHo(o.ho) = NormHo(r.ho)
  \/ (r.died /\ (r.errnil \/ ~r.cbclosed))            \* ended by the client: Err() and the Closed callback report it
  \/ r.maxbuf > MaxPacket                             \* never a buffer beyond the protocol's maximum packet size
ParseBad(r) ==
  LET v == PV(r.t, r.f, r.body).v IN
  \/ r.res = "panic"
  \/ (v = "ok" /\ r.res # "ok")
  \/ (v = "bad" /\ r.res # "err")

Bad == {i \in 1..Len(Runs) : IF Runs[i].mode = "stream" THEN StreamBad(Runs[i]) ELSE ParseBad(Runs[i])}
Expect(i) == IF Runs[i].mode = "stream" THEN [allowed |-> Outcomes(Runs[i].bytes, 1, << >>)] ELSE [allowed |-> PV(Runs[i].t, Runs[i].f, Runs[i].body).v]

ASSUME PrintT(<<"REPORT", ToJson([n |-> Len(Runs), bad |-> {[id |-> Runs[i].id, exp |-> ToJson(Expect(i))] : i \in Bad}])>>)
=============================================================================
