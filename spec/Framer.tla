------------------------------- MODULE Framer -------------------------------
(***************************************************************************)
(* C06 -- what the client has to do with ARBITRARY bytes from the broker.   *)
(*                                                                         *)
(* The reader as a byte-driven machine: fixed header, remaining length of   *)
(* at most four bytes, body, per-type validation, dispatch; a malformed      *)
(* packet kills the connection (absorbing).  `PV` gives, for one complete    *)
(* packet, the verdict the property statement fixes:                         *)
(*   "bad"    the statement lists it as malformed: the connection must end   *)
(*            (packet types a broker never sends / unknown types, illegal    *)
(*            flag bits, QoS 3, a body shorter than its fixed fields, a      *)
(*            string running past the body, U+0000 in a topic)               *)
(*   "ok"     well-formed: must be processed, the connection lives on         *)
(*   "either" the statement is silent (over-long fixed bodies, non-ASCII      *)
(*            topic bytes, empty topic, DUP on QoS 0, identifier 0, wildcard  *)
(*            characters in a topic name, an unexpected second CONNACK,       *)
(*            unknown SUBACK return codes, non-minimal length encodings):     *)
(*            both ending the connection and carrying on are accepted.        *)
(* `Outcomes(bytes)` is the set of allowed observable results of a stream:   *)
(* the sequence of messages handed to the handler and whether the client      *)
(* ended the connection by itself.  TLC evaluates it on the concrete bytes    *)
(* that were fed to the real client (module TraceFramer).                     *)
(***************************************************************************)
EXTENDS Integers, Sequences, FiniteSets, TLC

MaxPacket == 268435455
BrokerTypes == {2, 3, 4, 5, 6, 7, 9, 11, 13}

U16(b, i) == b[i] * 256 + b[i + 1]
Sub(b, i, n) == [k \in 1..n |-> b[i + k - 1]]            \* n bytes of b starting at i

\* verdict and (for PUBLISH) the message of one complete packet with type t, flags f, body
PV(t, f, body) ==
  LET n == Len(body) IN
  IF t \notin BrokerTypes THEN [v |-> "bad"]
  ELSE IF t = 2 THEN (IF f # 0 \/ n < 2 THEN [v |-> "bad"] ELSE [v |-> "either"])
  ELSE IF t \in {4, 5, 7, 11} THEN (IF f # 0 \/ n < 2 THEN [v |-> "bad"] ELSE IF n > 2 THEN [v |-> "either"] ELSE [v |-> "ok"])
  ELSE IF t = 6 THEN (IF f # 2 \/ n < 2 THEN [v |-> "bad"] ELSE IF n > 2 THEN [v |-> "either"] ELSE [v |-> "ok"])
  ELSE IF t = 9 THEN (IF f # 0 \/ n < 2 THEN [v |-> "bad"]
                      ELSE IF \E i \in 3..n : body[i] \notin {0, 1, 2, 128} THEN [v |-> "either"] ELSE [v |-> "ok"])
  ELSE IF t = 13 THEN (IF f # 0 THEN [v |-> "bad"] ELSE IF n > 0 THEN [v |-> "either"] ELSE [v |-> "ok"])
  ELSE \* PUBLISH
    LET qos == (f \div 2) % 4  dup == f \div 8 = 1  retain == f % 2 = 1 IN
    IF qos = 3 \/ n < 2 THEN [v |-> "bad"]
    ELSE LET tl == U16(body, 1) IN
      IF 2 + tl > n THEN [v |-> "bad"]
      ELSE IF qos > 0 /\ n < 2 + tl + 2 THEN [v |-> "bad"]
      ELSE LET topic == Sub(body, 3, tl)
               id == IF qos > 0 THEN U16(body, 3 + tl) ELSE 0
               pstart == 3 + tl + (IF qos > 0 THEN 2 ELSE 0)
               payload == Sub(body, pstart, n - pstart + 1)
               msg == [t |-> topic, p |-> payload, q |-> qos, r |-> retain, d |-> dup, id |-> id]
           IN IF \E i \in 1..tl : topic[i] = 0 THEN [v |-> "bad"]
              ELSE IF tl = 0 \/ (\E i \in 1..tl : topic[i] >= 128 \/ topic[i] \in {35, 43}) \/ (dup /\ qos = 0) \/ (qos > 0 /\ id = 0)
                   THEN [v |-> "either", m |-> msg]
              ELSE [v |-> "ok", m |-> msg]

\* the remaining-length field starting at b[i]: [n, k] (value, number of bytes), k = 0: incomplete,
\* k = 5: a fifth byte would be needed (malformed)
RECURSIVE LenAt(_, _, _, _, _)
LenAt(b, i, k, mult, acc) ==
  IF k = 4 THEN [n |-> acc, k |-> 5]
  ELSE IF i > Len(b) THEN [n |-> 0, k |-> 0]
  ELSE LET v == acc + (b[i] % 128) * mult IN
       IF b[i] < 128 THEN [n |-> v, k |-> k + 1] ELSE LenAt(b, i + 1, k + 1, mult * 128, v)
RECURSIVE Minimal(_, _)
Minimal(n, k) == IF n < 128 THEN k = 1 ELSE Minimal(n \div 128, k - 1)

\* Allowed results of feeding b[i..] to a live client that has handed over `ho` so far and holds the
\* QoS 2 messages `buf` (identifier -> message) waiting for their PUBREL (hand-over rules: property C04):
\* set of [ho |-> sequence of messages, died |-> the client ended the connection by itself]
RECURSIVE Outcomes4(_, _, _, _)
Outcomes4(b, i, ho, buf) ==
  IF i + 1 > Len(b) THEN {[ho |-> ho, died |-> FALSE]}            \* fewer than two bytes left: the reader waits
  ELSE LET t == b[i] \div 16  f == b[i] % 16  L == LenAt(b, i + 1, 0, 1, 0) IN
    IF L.k = 5 THEN {[ho |-> ho, died |-> TRUE]}                   \* over-long length field
    ELSE IF L.k = 0 \/ i + L.k + L.n > Len(b) THEN {[ho |-> ho, died |-> FALSE]}   \* truncated: waits for more
    ELSE LET body == Sub(b, i + 1 + L.k, L.n)
             pv == PV(t, f, body)
             next == i + 1 + L.k + L.n
             isMsg == "m" \in DOMAIN pv
             q2 == isMsg /\ pv.m.q = 2
             relId == IF t = 6 /\ pv.v # "bad" THEN U16(body, 1) ELSE -1
             ho2 == IF isMsg /\ ~q2 THEN Append(ho, pv.m)
                    ELSE IF relId \in DOMAIN buf THEN Append(ho, buf[relId]) ELSE ho
             buf2 == IF q2 THEN [x \in (DOMAIN buf) \cup {pv.m.id} |-> IF x = pv.m.id THEN pv.m ELSE buf[x]]
                     ELSE IF relId \in DOMAIN buf THEN [x \in (DOMAIN buf) \ {relId} |-> buf[x]] ELSE buf
             dead == {[ho |-> ho, died |-> TRUE]}
             live == Outcomes4(b, next, ho2, buf2)
         IN IF pv.v = "bad" THEN dead
            ELSE IF pv.v = "either" \/ ~Minimal(L.n, L.k) THEN dead \cup live
            ELSE live
Outcomes(b, i, ho) == Outcomes4(b, i, ho, [x \in {} |-> 0])

\* largest body buffer a conforming reader ever needs for stream b
MaxBody(b) == MaxPacket

\* ---- design-level sanity, checked by TLC as ASSUMEs ----
B(s) == s
ASSUME Outcomes(<<208, 0>>, 1, << >>) = {[ho |-> << >>, died |-> FALSE]}                       \* PINGRESP
ASSUME Outcomes(<<209, 0>>, 1, << >>) = {[ho |-> << >>, died |-> TRUE]}                        \* PINGRESP with flags
ASSUME Outcomes(<<144, 1, 0>>, 1, << >>) = {[ho |-> << >>, died |-> TRUE]}                     \* SUBACK shorter than its id
ASSUME Outcomes(<<48, 255, 255, 255, 255, 1>>, 1, << >>) = {[ho |-> << >>, died |-> TRUE]}     \* five length bytes
ASSUME Outcomes(<<54, 4, 0, 1, 97, 0>>, 1, << >>) = {[ho |-> << >>, died |-> TRUE]}            \* QoS 3
ASSUME Outcomes(<<48, 4, 0, 1, 0, 66>>, 1, << >>) = {[ho |-> << >>, died |-> TRUE]}            \* U+0000 in topic
ASSUME Outcomes(<<48, 4, 0, 1, 97, 66, 240, 0>>, 1, << >>) =
         {[ho |-> <<[t |-> <<97>>, p |-> <<66>>, q |-> 0, r |-> FALSE, d |-> FALSE, id |-> 0]>>, died |-> TRUE]}   \* good, then unknown type
ASSUME Outcomes(<<48, 10, 0, 1, 97>>, 1, << >>) = {[ho |-> << >>, died |-> FALSE]}              \* truncated body: waits
=============================================================================
