SPECIFICATION FairSpec
CONSTANTS
  Apps = {"a1", "a2"}
  BugChTaskOutsideLock = FALSE
  BugSendOutsideLock = FALSE
CHECK_DEADLOCK FALSE
INVARIANTS NoRace NoSendOnClosed MutexHeldByOne AcceptedRunBeforeExit RefusedAfterStop FifoRun
PROPERTIES TaskGoroutineEnds
