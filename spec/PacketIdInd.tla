---------------------------- MODULE PacketIdInd ----------------------------
(***************************************************************************)
(* C15, stretch goal: the window property of the allocator for SYMBOLIC M  *)
(* (every M >= 3, in particular 65536), as an inductive invariant that     *)
(* Apalache discharges with linear integer arithmetic:                     *)
(*                                                                         *)
(*   apalache-mc check --cinit=CInit --init=Init    --inv=IndInv --length=0 PacketIdInd.tla *)
(*   apalache-mc check --cinit=CInit --init=IndInit --inv=IndInv --length=1 PacketIdInd.tla *)
(*   apalache-mc check --cinit=CInit --init=IndInit --inv=Safety --length=0 PacketIdInd.tla *)
(*                                                                         *)
(* Abstraction of PacketId.tla: because atomic.AddUint32 is ONE step, the  *)
(* sequence of counter values handed to callers does not depend on how the *)
(* callers interleave, so the allocation sequence is that of a sequential  *)
(* machine; the high part of the counter never influences an identifier    *)
(* (PacketId!PairLemma), so only the identifier part `lo` is kept.  One    *)
(* earlier hand-out is remembered at an arbitrary moment (v1) and compared *)
(* with every later one: d counts the adds since then (saturating: `far`). *)
(***************************************************************************)
EXTENDS Integers

CONSTANT
  \* @type: Int;
  M

VARIABLES
  \* @type: Int;
  lo,      \* uint16(c.idLast)
  \* @type: Bool;
  rem,     \* a hand-out has been remembered
  \* @type: Int;
  v1,      \* the remembered identifier
  \* @type: Int;
  d,       \* atomic adds since the remembered hand-out (exact while ~far)
  \* @type: Bool;
  far      \* more than M adds since: outside every window, nothing is claimed

CInit == M \in Int /\ M >= 3

Init ==
  /\ lo \in 0..(M - 1)
  /\ rem = FALSE /\ v1 = 0 /\ d = 0 /\ far = FALSE

\* one atomic add (and the zero test that follows it: the value is handed out iff lo' # 0)
Next ==
  /\ lo' = IF lo = M - 1 THEN 0 ELSE lo + 1
  /\ \/ /\ rem /\ (far \/ d >= M)  /\ far' = TRUE  /\ d' = d     /\ UNCHANGED <<rem, v1>>
     \/ /\ rem /\ ~(far \/ d >= M) /\ far' = FALSE /\ d' = d + 1 /\ UNCHANGED <<rem, v1>>
     \/ /\ ~rem /\ UNCHANGED <<rem, v1, d, far>>
     \/ /\ ~rem /\ lo' # 0                       \* remember this hand-out
        /\ rem' = TRUE /\ v1' = lo' /\ d' = 0 /\ far' = FALSE

\* hand-outs after the remembered one, up to and including the current counter value:
\* the adds minus the one skipped zero (if the identifier part wrapped since)
HandedSince == d - (IF v1 + d >= M THEN 1 ELSE 0)

IndInv ==
  /\ lo \in 0..(M - 1)
  /\ ~rem => (v1 = 0 /\ d = 0 /\ ~far)
  /\ (rem /\ ~far) => /\ v1 \in 1..(M - 1)
                      /\ d \in 0..M
                      /\ lo = IF v1 + d < M THEN v1 + d ELSE v1 + d - M
  /\ (rem /\ far) => v1 \in 1..(M - 1)

IndInit == /\ lo \in Int /\ rem \in BOOLEAN /\ v1 \in Int /\ d \in Int /\ far \in BOOLEAN
           /\ IndInv

\* any two hand-outs fewer than W = M-1 hand-outs apart (i.e. inside one window of W consecutive
\* allocations) carry different identifiers, and no hand-out is 0
Safety ==
  (rem /\ ~far /\ d >= 1 /\ lo # 0 /\ HandedSince < M - 1) => lo # v1

=============================================================================
