-------------------------------- MODULE Mux --------------------------------
(***************************************************************************)
(* C14, third sentence: "ServeMux invokes exactly the registered handlers   *)
(* whose filter matches the message topic, in registration order" -- as a   *)
(* state machine, because two things the harness exercises are about        *)
(* HISTORIES, not single calls (seeded changes c14d, c14e):                 *)
(*   - handlers are registered between dispatches (Handle after Serve);     *)
(*   - dispatches overlap (a mux behind ServeAsync, or a handler that       *)
(*     dispatches itself): Serve(t1) may be half-way through the handler     *)
(*     list when Serve(t2) starts.                                           *)
(* servemux.go:34-54: Handle appends (filter, handler); Serve walks the list *)
(* and calls every handler whose filter matches the topic of ITS message.    *)
(* Matching itself is module TopicFilter; here it is the constant relation   *)
(* Matches (the check instantiates it from TopicFilter's truth table).       *)
(* Bug switches (each must be refuted):                                      *)
(*   BugRouteCache   Serve re-uses the handler list computed for the last    *)
(*                   dispatch of the same topic (c14d)                       *)
(*   BugSharedTopic  the topic being matched is kept in a buffer shared by   *)
(*                   all dispatches in progress (c14e)                       *)
(***************************************************************************)
EXTENDS Integers, Sequences, FiniteSets, TLC

CONSTANTS Filters,        \* filters the application may register (each valid)
          Topics,         \* topics of the messages
          Matches,        \* subset of Filters \X Topics
          MaxRegs, MaxServes,
          Procs,          \* goroutines that may dispatch concurrently
          BugRouteCache, BugSharedTopic

VARIABLES regs,      \* sequence of registered filters (handler i = index i)
          pc,        \* per dispatcher: [t |-> topic, i |-> next index to look at, snap |-> Len(regs) when it started, id |-> dispatch number] or "idle"
          calls,     \* set of <<dispatch number, handler index>> invoked so far
          started,   \* dispatch number -> [t, snap]
          nserve,
          cache,     \* BugRouteCache: [t |-> topic, hs |-> handler indices] of the latest lookup (NoCache: none)
          shared     \* BugSharedTopic: the topic most recently written into the shared buffer
vars == <<regs, pc, calls, started, nserve, cache, shared>>

Idle == [t |-> "-", i |-> 0, snap |-> 0, id |-> 0]
NoCache == [t |-> "-", hs |-> {}]
Init == /\ regs = << >> /\ pc = [p \in Procs |-> Idle] /\ calls = {} /\ started = << >> /\ nserve = 0
        /\ cache = NoCache /\ shared = "-"

M(f, t) == <<f, t>> \in Matches
MatchingUpTo(t, n) == {i \in 1..n : M(regs[i], t)}

\* ServeMux.Handle(filter, handler)
Handle(f) == /\ Len(regs) < MaxRegs /\ regs' = Append(regs, f)
             /\ UNCHANGED <<pc, calls, started, nserve, cache, shared>>

\* ServeMux.Serve(message) begins
Begin(p, t) ==
  /\ pc[p] = Idle /\ nserve < MaxServes
  /\ nserve' = nserve + 1
  /\ started' = Append(started, [t |-> t, snap |-> Len(regs)])
  /\ shared' = t
  /\ IF BugRouteCache /\ cache.t = t
     THEN \* the remembered route is taken as it is
          /\ calls' = calls \cup {<<nserve + 1, h>> : h \in cache.hs}
          /\ pc' = pc /\ UNCHANGED cache
     ELSE /\ pc' = [pc EXCEPT ![p] = [t |-> t, i |-> 1, snap |-> Len(regs), id |-> nserve + 1]]
          /\ cache' = IF BugRouteCache THEN [t |-> t, hs |-> MatchingUpTo(t, Len(regs))] ELSE cache
          /\ UNCHANGED calls
  /\ UNCHANGED regs
\* one step of the loop over the handlers (the list as it was when the dispatch started: Go's range over the slice)
Step(p) ==
  /\ pc[p] # Idle
  /\ LET s == pc[p]
         topic == IF BugSharedTopic THEN shared ELSE s.t IN
     IF s.i > s.snap
     THEN pc' = [pc EXCEPT ![p] = Idle] /\ UNCHANGED calls
     ELSE /\ calls' = IF M(regs[s.i], topic) THEN calls \cup {<<s.id, s.i>>} ELSE calls
          /\ pc' = [pc EXCEPT ![p].i = s.i + 1]
  /\ UNCHANGED <<regs, started, nserve, cache, shared>>

Next == (\E f \in Filters : Handle(f)) \/ (\E p \in Procs, t \in Topics : Begin(p, t)) \/ (\E p \in Procs : Step(p))
Spec == Init /\ [][Next]_vars

Running == {pc[p].id : p \in {q \in Procs : pc[q] # Idle}}
\* a finished dispatch has invoked exactly the handlers registered when it started whose filter matches ITS topic
DispatchExact ==
  \A d \in 1..Len(started) : d \notin Running =>
     {c[2] : c \in {x \in calls : x[1] = d}} = MatchingUpTo(started[d].t, started[d].snap)
\* and never, not even half-way, a handler whose filter does not match its topic
NoForeignHandler == \A c \in calls : M(regs[c[2]], started[c[1]].t)
=============================================================================
