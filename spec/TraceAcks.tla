------------------------------ MODULE TraceAcks ------------------------------
(***************************************************************************)
(* C07, binding: runs of concurrent blocking requests on a real BaseClient  *)
(* against a scripted broker (harness family "acks"; the scripts are the     *)
(* `hist` of behaviours of module Acks drawn by TLC) are checked against the *)
(* statement.  Events of a run, in recorded order:                           *)
(*   [e |-> "W", c, p, id]     caller c's packet written (PUBREL: c = owner)  *)
(*   [e |-> "S", p, id, codes] acknowledgement queued by the broker (recorded  *)
(*                            before its bytes become readable)               *)
(*   [e |-> "R", c, res, granted]  the call of caller c returned               *)
(*   [e |-> "Q"]               no call returned for 30 ms; afterwards the      *)
(*                            transport is closed and the rest return errors   *)
(***************************************************************************)
EXTENDS Integers, Sequences, FiniteSets, TLC, Json

Runs == ndJsonDeserialize("ack_runs.ndjson")

Pos(r, P(_)) == {j \in 1..Len(r.evs) : P(r.evs[j])}
MinOf(S) == CHOOSE x \in S : \A y \in S : x <= y

ReqPkt(k) == CASE k \in {"pub1", "pub2"} -> "PUBLISH" [] k = "sub" -> "SUBSCRIBE" [] OTHER -> "UNSUBSCRIBE"
FirstAck(k) == CASE k = "pub1" -> "PUBACK" [] k = "pub2" -> "PUBREC" [] k = "sub" -> "SUBACK" [] OTHER -> "UNSUBACK"

\* position of caller c's request write, 0 if none
WPos(r, c) == LET S == {j \in 1..Len(r.evs) : r.evs[j].e = "W" /\ r.evs[j].c = c /\ r.evs[j].p = ReqPkt(r.calls[c].kind)}
              IN IF S = {} THEN 0 ELSE MinOf(S)
IdOf(r, c) == r.evs[WPos(r, c)].id
\* first acknowledgement of kind p with identifier id sent after position a; 0 if none
SAfter(r, p, id, a) == LET S == {j \in (a + 1)..Len(r.evs) : r.evs[j].e = "S" /\ r.evs[j].p = p /\ r.evs[j].id = id}
                       IN IF S = {} THEN 0 ELSE MinOf(S)
RelPos(r, c, a) == LET S == {j \in (a + 1)..Len(r.evs) : r.evs[j].e = "W" /\ r.evs[j].p = "PUBREL" /\ r.evs[j].id = IdOf(r, c)}
                   IN IF S = {} THEN 0 ELSE MinOf(S)
RPos(r, c) == LET S == {j \in 1..Len(r.evs) : r.evs[j].e = "R" /\ r.evs[j].c = c} IN IF S = {} THEN 0 ELSE MinOf(S)
QPos(r) == MinOf({j \in 1..Len(r.evs) : r.evs[j].e = "Q"})
\* the script is over, or the connection ended (the client closes it on a SUBACK with a wrong count)
EndPos(r) == MinOf({j \in 1..Len(r.evs) : r.evs[j].e \in {"Q", "X"}})

\* position at which the acknowledgement(s) that belong to caller c were complete; 0 if they never were.
\* lenient = TRUE: the PUBCOMP may have been sent any time after the PUBREC (used for "only on own ack");
\* lenient = FALSE: it must have been sent after the PUBREL was written (used for "own ack completes")
AckedAt(r, c, lenient) ==
  LET w == WPos(r, c)  k == r.calls[c].kind IN
  IF w = 0 THEN 0
  ELSE LET a1 == SAfter(r, FirstAck(k), IdOf(r, c), w) IN
       IF k # "pub2" \/ a1 = 0 THEN a1
       ELSE IF lenient THEN SAfter(r, "PUBCOMP", IdOf(r, c), a1)
       ELSE LET rel == RelPos(r, c, a1) IN IF rel = 0 THEN 0 ELSE SAfter(r, "PUBCOMP", IdOf(r, c), rel)

Callers(r) == 1..Len(r.calls)
NFilters(r, c) == IF r.calls[c].n < 1 THEN 1 ELSE r.calls[c].n

\* (calls the application issued with a deadline -- calls[c].abandon -- may of course return early with that
\* error; whether they return at all is C11's business)
\* a successful return only after the acknowledgement of the right kind with the caller's own identifier
OnlyOnOwnAck(r) == \A c \in Callers(r) :
  LET rp == RPos(r, c) IN
  (rp # 0 /\ r.evs[rp].res = "ok") => (AckedAt(r, c, TRUE) # 0 /\ AckedAt(r, c, TRUE) < rp)
\* no call returns at all (successfully or not) before the run ends unless its own acknowledgement came:
\* foreign / unsolicited acknowledgements do not disturb it
NotDisturbed(r) == \A c \in {x \in Callers(r) : ~r.calls[x].abandon} :
  LET rp == RPos(r, c) IN (rp # 0 /\ rp < EndPos(r)) => (AckedAt(r, c, TRUE) # 0 /\ AckedAt(r, c, TRUE) < rp)
\* its own acknowledgement completes the call, whatever else was sent
OwnAckCompletes(r) == \A c \in {x \in Callers(r) : ~r.calls[x].abandon} :
  (AckedAt(r, c, FALSE) # 0 /\ AckedAt(r, c, FALSE) < EndPos(r)) => (RPos(r, c) # 0 /\ RPos(r, c) < QPos(r))
\* Subscribe: granted QoS per filter in request order; ErrInvalidSubAck iff the count differs
SubResult(r) == \A c \in Callers(r) :
  (r.calls[c].kind = "sub" /\ RPos(r, c) # 0 /\ RPos(r, c) < QPos(r) /\ WPos(r, c) # 0) =>
     LET a == SAfter(r, "SUBACK", IdOf(r, c), WPos(r, c))  ret == r.evs[RPos(r, c)] IN
     (a # 0 /\ a < RPos(r, c)) => IF Len(r.evs[a].codes) = NFilters(r, c)
              THEN ret.res = "ok" /\ ret.granted = r.evs[a].codes
              ELSE ret.res = "invalidsuback"

Checks(r) == [OnlyOnOwnAck |-> OnlyOnOwnAck(r), NotDisturbed |-> NotDisturbed(r), OwnAckCompletes |-> OwnAckCompletes(r), SubResult |-> SubResult(r)]
Failing(r) == {n \in DOMAIN Checks(r) : ~Checks(r)[n]}
ASSUME PrintT(<<"REPORT", ToJson([n |-> Len(Runs), bad |-> {[id |-> Runs[i].id, f |-> Failing(Runs[i])] : i \in {x \in 1..Len(Runs) : (Runs[x].err # "" /\ EndPos(Runs[x]) = QPos(Runs[x])) \/ Failing(Runs[x]) # {}}}])>>)
=============================================================================
