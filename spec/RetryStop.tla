------------------------------ MODULE RetryStop ------------------------------
(***************************************************************************)
(* The life of RetryClient's task goroutine and its wake-up channel          *)
(* (retryclient.go): SetClient starts the goroutine once, pushTask appends   *)
(* an accepted request to taskQueue and wakes the goroutine with a           *)
(* non-blocking send on chTask (capacity 1), Disconnect queues the           *)
(* DISCONNECT task, closes chTask and sets `stopped`; the goroutine pops     *)
(* tasks while there are any and ends when the queue is empty and chTask is  *)
(* closed (a closed Go channel still hands out what is buffered).            *)
(* All of it happens under c.mu -- that is the design this module checks,    *)
(* for any number of submitting goroutines racing with SetClient and         *)
(* Disconnect (C10: no conflicting unsynchronised accesses, no send on a     *)
(* closed channel; C01/C09: what was accepted is run before the goroutine    *)
(* ends, and it does end).                                                   *)
(* Switches (the code as it was / as seeded changes made it; each refuted):  *)
(*   BugChTaskOutsideLock  SetClient tests and assigns chTask after it has    *)
(*                         released c.mu (defect F20)                         *)
(*   BugSendOutsideLock    pushTask sends the wake-up after unlocking (c10g)  *)
(*   BugStopBeforeClose... Disconnect sets stopped without queuing its task   *)
(*                         first is NOT a bug and not modelled.               *)
(* Unsynchronised accesses are modelled as windows (begin/end steps): two     *)
(* goroutines inside windows on chTask, one of them writing, or a window      *)
(* overlapping an access under the lock, is a data race.                      *)
(***************************************************************************)
EXTENDS Integers, Sequences, FiniteSets, TLC

CONSTANTS Apps,                  \* submitting goroutines (each submits one request)
          BugChTaskOutsideLock, BugSendOutsideLock

VARIABLES mu,        \* holder of c.mu: "none" or a goroutine name
          chTask,    \* "nil" | "open" | "closed"
          buf,       \* tokens buffered in chTask (0..1)
          stopped,
          taskQ,     \* sequence of accepted tasks (an app's name, or "D" for the DISCONNECT task)
          apc,       \* per app: "idle" | "locked" | "send" | "done"
          ares,      \* per app: "none" | "nil" | "closed"
          ach,       \* per app (BugSendOutsideLock): the channel state it copied under the lock
          spc,       \* SetClient caller: "idle" | "locked" | "test" | "assign" | "go" | "done"
          dpc,       \* Disconnect caller: "idle" | "pushlocked" | "send" | "pushed" | "stoplocked" | "done"
          dch,
          tpc,       \* task goroutine: "none" | "top" | "locked" | "recv" | "run" | "exit"
          ran,       \* tasks run so far (sequence)
          win,       \* open unsynchronised access windows on chTask: set of <<goroutine, "r"|"w">>
          race, panic
vars == <<mu, chTask, buf, stopped, taskQ, apc, ares, ach, spc, dpc, dch, tpc, ran, win, race, panic>>

Init == /\ mu = "none" /\ chTask = "nil" /\ buf = 0 /\ stopped = FALSE /\ taskQ = << >>
        /\ apc = [a \in Apps |-> "idle"] /\ ares = [a \in Apps |-> "none"] /\ ach = [a \in Apps |-> "nil"]
        /\ spc = "idle" /\ dpc = "idle" /\ dch = "nil" /\ tpc = "none" /\ ran = << >>
        /\ win = {} /\ race = FALSE /\ panic = FALSE

\* an access to chTask under c.mu by goroutine g races with every window another goroutine has open, if either writes
Locked(g, kind) == \E w \in win : w[1] # g /\ (kind = "w" \/ w[2] = "w")
\* opening a window races with the windows already open in the same way; accesses under the lock are instantaneous
\* steps, so only window/window and window/locked-access overlaps exist
Opens(g, kind) == \E w \in win : w[1] # g /\ (kind = "w" \/ w[2] = "w")

\* non-blocking send on channel state ch: a token is buffered if there is room; sending on a closed channel panics
SendOn(ch) == /\ panic' = (panic \/ ch = "closed")
              /\ buf' = IF ch = "open" /\ buf = 0 THEN 1 ELSE buf

\* ---- pushTask (Publish / Subscribe / Unsubscribe of the application) ----
ALock(a) == /\ apc[a] = "idle" /\ mu = "none" /\ mu' = a /\ apc' = [apc EXCEPT ![a] = "locked"]
            /\ UNCHANGED <<chTask, buf, stopped, taskQ, ares, ach, spc, dpc, dch, tpc, ran, win, race, panic>>
ABody(a) == /\ apc[a] = "locked"
            /\ race' = (race \/ (~stopped /\ Locked(a, "r")))
            /\ IF stopped
               THEN /\ ares' = [ares EXCEPT ![a] = "closed"] /\ apc' = [apc EXCEPT ![a] = "done"]
                    /\ UNCHANGED <<taskQ, buf, panic, ach, win>>
               ELSE /\ taskQ' = Append(taskQ, a) /\ ares' = [ares EXCEPT ![a] = "nil"]
                    /\ IF BugSendOutsideLock
                       THEN /\ ach' = [ach EXCEPT ![a] = chTask] /\ apc' = [apc EXCEPT ![a] = "send"]
                            /\ win' = win \cup {<<a, "r">>}          \* the channel operation still to come, with no lock held
                            /\ UNCHANGED <<buf, panic>>
                       ELSE /\ SendOn(chTask) /\ apc' = [apc EXCEPT ![a] = "done"] /\ UNCHANGED <<ach, win>>
            /\ mu' = "none"
            /\ UNCHANGED <<chTask, stopped, spc, dpc, dch, tpc, ran>>
\* the wake-up outside the lock: the channel may have been closed meanwhile (the copy is the same channel object)
ASend(a) == /\ apc[a] = "send"
            /\ SendOn(IF ach[a] = "nil" THEN "nil" ELSE chTask)
            /\ apc' = [apc EXCEPT ![a] = "done"] /\ win' = win \ {<<a, "r">>}
            /\ UNCHANGED <<mu, chTask, stopped, taskQ, ares, ach, spc, dpc, dch, tpc, ran, race>>

\* ---- SetClient (first call; later calls do not touch chTask) ----
SLock == /\ spc = "idle" /\ mu = "none" /\ mu' = "s" /\ spc' = "locked"
         /\ UNCHANGED <<chTask, buf, stopped, taskQ, apc, ares, ach, dpc, dch, tpc, ran, win, race, panic>>
SBody == /\ spc = "locked"
         /\ IF BugChTaskOutsideLock
            THEN /\ spc' = "test" /\ mu' = "none" /\ UNCHANGED <<chTask, race>>
            ELSE /\ race' = (race \/ Locked("s", "w"))
                 /\ chTask' = IF chTask = "nil" THEN "open" ELSE chTask
                 /\ spc' = (IF chTask = "nil" THEN "go" ELSE "done") /\ mu' = "none"
         /\ UNCHANGED <<buf, stopped, taskQ, apc, ares, ach, dpc, dch, tpc, ran, win, panic>>
\* the code before F20: `if c.chTask != nil { return }; c.chTask = make(...)` with no lock held
STest == /\ spc = "test"
         /\ race' = (race \/ Opens("s", "r"))
         /\ spc' = IF chTask = "nil" THEN "assign" ELSE "done"
         /\ win' = IF chTask = "nil" THEN win \cup {<<"s", "w">>} ELSE win
         /\ UNCHANGED <<mu, chTask, buf, stopped, taskQ, apc, ares, ach, dpc, dch, tpc, ran, panic>>
SAssign == /\ spc = "assign"
           /\ chTask' = "open" /\ win' = win \ {<<"s", "w">>} /\ spc' = "go"
           /\ UNCHANGED <<mu, buf, stopped, taskQ, apc, ares, ach, dpc, dch, tpc, ran, race, panic>>
SGo == /\ spc = "go" /\ tpc' = "top" /\ spc' = "done"
       /\ UNCHANGED <<mu, chTask, buf, stopped, taskQ, apc, ares, ach, dpc, dch, ran, win, race, panic>>

\* ---- Disconnect: pushTask(DISCONNECT task), then close(chTask) and stopped = true under the lock ----
DLock1 == /\ dpc = "idle" /\ mu = "none" /\ mu' = "d" /\ dpc' = "pushlocked"
          /\ UNCHANGED <<chTask, buf, stopped, taskQ, apc, ares, ach, spc, dch, tpc, ran, win, race, panic>>
DPush == /\ dpc = "pushlocked"
         /\ race' = (race \/ Locked("d", "r"))
         /\ taskQ' = Append(taskQ, "D")
         /\ IF BugSendOutsideLock
            THEN /\ dch' = chTask /\ dpc' = "send" /\ UNCHANGED <<buf, panic>>
            ELSE /\ SendOn(chTask) /\ dpc' = "pushed" /\ UNCHANGED dch
         /\ mu' = "none"
         /\ UNCHANGED <<chTask, stopped, apc, ares, ach, spc, tpc, ran, win>>
DSend == /\ dpc = "send" /\ SendOn(IF dch = "nil" THEN "nil" ELSE chTask) /\ dpc' = "pushed"
         /\ UNCHANGED <<mu, chTask, stopped, taskQ, apc, ares, ach, spc, dch, tpc, ran, win, race>>
DLock2 == /\ dpc = "pushed" /\ mu = "none" /\ mu' = "d" /\ dpc' = "stoplocked"
          /\ UNCHANGED <<chTask, buf, stopped, taskQ, apc, ares, ach, spc, dch, tpc, ran, win, race, panic>>
DStop == /\ dpc = "stoplocked"
         /\ race' = (race \/ Locked("d", IF chTask = "open" THEN "w" ELSE "r"))      \* close() conflicts with a send outside the lock
         /\ chTask' = IF chTask = "open" THEN "closed" ELSE chTask
         /\ stopped' = TRUE /\ dpc' = "done" /\ mu' = "none"
         /\ UNCHANGED <<buf, taskQ, apc, ares, ach, spc, dch, tpc, ran, win, panic>>

\* ---- the task goroutine (the connection is taken to be up: what a task does with it is module MqttRetry) ----
TLock == /\ tpc = "top" /\ mu = "none" /\ mu' = "t" /\ tpc' = "locked"
         /\ UNCHANGED <<chTask, buf, stopped, taskQ, apc, ares, ach, spc, dpc, dch, ran, win, race, panic>>
TBody == /\ tpc = "locked"
         /\ IF taskQ = << >>
            THEN tpc' = "recv" /\ UNCHANGED <<taskQ, ran>>
            ELSE tpc' = "run" /\ ran' = Append(ran, Head(taskQ)) /\ taskQ' = Tail(taskQ)
         /\ mu' = "none"
         /\ UNCHANGED <<chTask, buf, stopped, apc, ares, ach, spc, dpc, dch, win, race, panic>>
\* `case _, ok := <-c.chTask` with no lock held: the field is read when the select is entered (the goroutine was started
\* after the assignment, so this read is ordered after it), a buffered token is taken first, a closed and empty channel
\* ends the goroutine
TRecv == /\ tpc = "recv"
         /\ \/ /\ buf = 1 /\ buf' = 0 /\ tpc' = "top"
            \/ /\ buf = 0 /\ chTask = "closed" /\ tpc' = "exit" /\ UNCHANGED buf
         /\ UNCHANGED <<mu, chTask, stopped, taskQ, apc, ares, ach, spc, dpc, dch, ran, win, race, panic>>
TRun == /\ tpc = "run" /\ tpc' = "top"
        /\ UNCHANGED <<mu, chTask, buf, stopped, taskQ, apc, ares, ach, spc, dpc, dch, ran, win, race, panic>>

Next == (\E a \in Apps : ALock(a) \/ ABody(a) \/ ASend(a))
        \/ SLock \/ SBody \/ STest \/ SAssign \/ SGo
        \/ DLock1 \/ DPush \/ DSend \/ DLock2 \/ DStop
        \/ TLock \/ TBody \/ TRecv \/ TRun
Spec == Init /\ [][Next]_vars /\ WF_vars(Next)
FairSpec == Init /\ [][Next]_vars
            /\ WF_vars(TLock) /\ WF_vars(TBody) /\ WF_vars(TRecv) /\ WF_vars(TRun)
            /\ WF_vars(DLock2) /\ WF_vars(DStop) /\ WF_vars(DPush) /\ WF_vars(DSend)
            /\ WF_vars(SBody) /\ WF_vars(STest) /\ WF_vars(SAssign) /\ WF_vars(SGo)
            /\ \A a \in Apps : WF_vars(ABody(a)) /\ WF_vars(ASend(a))

\* ---- properties ----
NoRace == ~race
NoSendOnClosed == ~panic
MutexHeldByOne == mu \in {"none", "s", "d", "t"} \cup Apps
\* a request is either refused (ErrClosedClient) or queued; the goroutine ends only when everything accepted has run
AcceptedRunBeforeExit == tpc = "exit" => (taskQ = << >> /\ \A a \in Apps : ares[a] = "nil" => \E i \in 1..Len(ran) : ran[i] = a)
\* nothing is accepted after Disconnect has returned
RefusedAfterStop == \A a \in Apps : (ares[a] = "nil" /\ dpc = "done") => (\E i \in 1..Len(ran) : ran[i] = a) \/ (\E i \in 1..Len(taskQ) : taskQ[i] = a)
\* tasks run in the order they were accepted
FifoRun == \A i, j \in 1..Len(ran) : i < j => ran[i] # ran[j]
\* once Disconnect has closed the channel the goroutine ends (the client leaves nothing running).  A Disconnect that
\* comes BEFORE the first SetClient finds no channel to close: a goroutine started by a later SetClient runs the DISCONNECT
\* task and then waits for ever -- what the code does (observation, DESIGN.md 13.5), hence the premise chTask = "closed"
TaskGoroutineEnds == (dpc = "done" /\ chTask = "closed") ~> (tpc = "exit")
=============================================================================
