-------------------------------- MODULE Pings --------------------------------
(***************************************************************************)
(* C13 / C10 -- concurrent Ping calls on one BaseClient (pingreq.go,        *)
(* client.go, serve.go).  PINGRESP carries no identifier, so the reader can *)
(* only assign responses to outstanding pings in order.  Each caller        *)
(* registers a waiter, writes PINGREQ, and waits; the broker answers every   *)
(* PINGREQ; the reader hands each PINGRESP to a waiter.                      *)
(* BugSingleSlot = TRUE is the code before fix F18: one waiter slot that a   *)
(* later Ping overwrites, never cleared: an earlier Ping (e.g. the one of    *)
(* the keep-alive loop) never gets its response although the broker          *)
(* answered it.                                                              *)
(***************************************************************************)
EXTENDS Integers, Sequences, FiniteSets, TLC

CONSTANTS Callers, BugSingleSlot

VARIABLES pc,       \* per caller: "idle" | "registered" | "waiting" | "done"
          queue,    \* waiters in registration order (FIFO of callers); with the bug only its last element counts
          slot,     \* BugSingleSlot: the caller whose channel is in the single slot (0: none)
          chan,     \* per caller: a response sits in its one-slot channel
          sent,     \* PINGREQs written
          answered, \* PINGRESPs the broker has sent
          dispatched \* PINGRESPs the reader has handed out (or dropped)
vars == <<pc, queue, slot, chan, sent, answered, dispatched>>

Init == /\ pc = [c \in Callers |-> "idle"] /\ queue = << >> /\ slot = 0
        /\ chan = [c \in Callers |-> FALSE] /\ sent = 0 /\ answered = 0 /\ dispatched = 0

Register(c) == /\ pc[c] = "idle" /\ pc' = [pc EXCEPT ![c] = "registered"]
               /\ queue' = Append(queue, c) /\ slot' = c
               /\ UNCHANGED <<chan, sent, answered, dispatched>>
Write(c) == /\ pc[c] = "registered" /\ pc' = [pc EXCEPT ![c] = "waiting"] /\ sent' = sent + 1
            /\ UNCHANGED <<queue, slot, chan, answered, dispatched>>
Answer == /\ answered < sent /\ answered' = answered + 1
          /\ UNCHANGED <<pc, queue, slot, chan, sent, dispatched>>
\* serve(): PINGRESP read; non-blocking send into the chosen waiter's channel
Dispatch ==
  /\ dispatched < answered /\ dispatched' = dispatched + 1
  /\ IF BugSingleSlot
     THEN /\ chan' = IF slot # 0 THEN [chan EXCEPT ![slot] = TRUE] ELSE chan
          /\ UNCHANGED <<queue, slot>>
     ELSE IF queue # << >>
          THEN /\ chan' = [chan EXCEPT ![Head(queue)] = TRUE] /\ queue' = Tail(queue) /\ UNCHANGED slot
          ELSE UNCHANGED <<queue, slot, chan>>
  /\ UNCHANGED <<pc, sent, answered>>
Wake(c) == /\ pc[c] = "waiting" /\ chan[c] /\ pc' = [pc EXCEPT ![c] = "done"]
           /\ chan' = [chan EXCEPT ![c] = FALSE]
           /\ UNCHANGED <<queue, slot, sent, answered, dispatched>>
Next == (\E c \in Callers : Register(c) \/ Write(c) \/ Wake(c)) \/ Answer \/ Dispatch
Spec == Init /\ [][Next]_vars /\ WF_vars(Next)

\* once the broker has answered every PINGREQ and the reader has dispatched every answer, no ping is left waiting
EveryPingAnswered ==
  (sent = Cardinality(Callers) /\ dispatched = sent /\ \A c \in Callers : ~chan[c]) => \A c \in Callers : pc[c] = "done"
AllComplete == <>(\A c \in Callers : pc[c] = "done")
=============================================================================
