SPECIFICATION Spec
CONSTANTS
  Base = 1
  MaxWait = 5
  MaxAttempts = 6
  BugNoReset = FALSE
  BugNoDouble = FALSE
  BugDialAfterStop = FALSE
  BugNoCloseOnFail = FALSE
CHECK_DEADLOCK FALSE
INVARIANTS OneTransport BackoffSequence NoDialAfterStop
PROPERTIES DisconnectEventuallyReturns
