------------------------------- MODULE MqttEnv -------------------------------
(***************************************************************************)
(* Layer 1: the environment of the client -- application, network, MQTT    *)
(* 3.1.1 broker with session state -- and the observers that state the      *)
(* retry-family properties (C01 C02 C03 C08 C12 C17 C18).  The client       *)
(* itself is unconstrained: it may write any packet at any time.            *)
(*                                                                         *)
(* This module is trace-driven: it consumes traces recorded from the real   *)
(* code by harness/cmd/drive (family "retry"); one initial state per trace. *)
(* Every step is deterministic; a step is enabled only if the recorded      *)
(* broker behaviour (onward deliveries, response, session-present flag) is  *)
(* what the broker rules below prescribe -- so a trace that is not accepted  *)
(* to its end means the *harness* broke the environment contract, never     *)
(* that the client is wrong.  The observers are evaluated as monitors in     *)
(* every state (CONSTRAINT Mon) and reported by the POSTCONDITION.           *)
(***************************************************************************)
EXTENDS Integers, Sequences, FiniteSets, TLC, Json

Traces == ndJsonDeserialize("traces.ndjson")

VARIABLES
  tid,        \* index of the trace being replayed
  l,          \* next event of the trace
  fresh,      \* kind of the event consumed last ("" initially)
  reqs,       \* Submit events (API returned), in submission order
  wire,       \* every client->broker packet attempt (Transport.Write call)
  reads,      \* broker->client packets fully consumed by the client's reader
  sends,      \* broker->client packets queued
  conns,      \* per dialled transport g: [open, accepted, sp]
  ever,       \* a CONNECT has been accepted before (a session exists)
  bsubs,      \* broker session: filter -> QoS
  binfl,      \* broker session: QoS 2 ids received and not yet released
  bstored,    \* broker session (method B): id -> tag of the stored message
  delivered,  \* onward-delivery log (message tags)
  closes,     \* Close events
  onerrs,     \* OnError events
  handles,    \* Handle events (call / ret)
  handled,    \* Handled events (hand-over to an application handler)
  idle        \* the last Idle event, or [e |-> "none"]

vars == <<tid, l, fresh, reqs, wire, reads, sends, conns, ever, bsubs, binfl, bstored, delivered,
          closes, onerrs, handles, handled, idle>>

T == Traces[tid].evs
Cfg == Traces[tid].cfg
Ev == T[l]
EmptyFn == [x \in {} |-> 0]

Max(S) == CHOOSE x \in S : \A y \in S : y <= x
Min(S) == CHOOSE x \in S : \A y \in S : x <= y
Range(s) == {s[i] : i \in 1..Len(s)}

Init ==
  /\ tid \in 1..Len(Traces)
  /\ l = 1 /\ fresh = ""
  /\ reqs = << >> /\ wire = << >> /\ reads = << >> /\ sends = << >> /\ conns = << >> /\ ever = FALSE
  /\ bsubs = EmptyFn /\ binfl = {} /\ bstored = EmptyFn /\ delivered = << >>
  /\ closes = << >> /\ onerrs = << >> /\ handles = << >> /\ handled = << >>
  /\ idle = [e |-> "none"]

(***************************************************************************)
(* The broker (MQTT 3.1.1 sections 3.1-3.14, 4.3): what it does with a       *)
(* packet it has processed.  Receiver method A (deliver on PUBLISH) or B     *)
(* (store, deliver on PUBREL) according to the scenario.                     *)
(***************************************************************************)
Processed(o) == o \in {"ok", "cutAfter", "dropAck", "lateAck"}

RECURSIVE SubAll(_, _, _)
SubAll(m, fs, qs) ==
  IF fs = << >> THEN m
  ELSE SubAll([x \in (DOMAIN m) \cup {Head(fs)} |-> IF x = Head(fs) THEN Head(qs) ELSE m[x]], Tail(fs), Tail(qs))
UnsubAll(m, fs) == [x \in (DOMAIN m) \ Range(fs) |-> m[x]]

ExpectedResp(ev) ==
  IF ev.o # "ok" THEN ""
  ELSE CASE ev.p = "CONNECT" -> IF ev.connack = "silent" THEN "" ELSE "CONNACK"
         [] ev.p = "PUBLISH" -> IF ev.qos = 0 THEN "" ELSE IF ev.qos = 1 THEN "PUBACK" ELSE "PUBREC"
         [] ev.p = "PUBREL" -> "PUBCOMP"
         [] ev.p = "SUBSCRIBE" -> "SUBACK"
         [] ev.p = "UNSUBSCRIBE" -> "UNSUBACK"
         [] ev.p = "PINGREQ" -> "PINGRESP"
         [] ev.p = "PUBREC" -> IF Cfg.autoRelease THEN "PUBREL" ELSE ""
         [] OTHER -> ""

Broker(ev) ==
  IF ~Processed(ev.o)
  THEN /\ ev.deliv = << >> /\ ev.resp = ""
       /\ UNCHANGED <<ever, bsubs, binfl, bstored, delivered>>
  ELSE
  /\ ev.resp = ExpectedResp(ev)
  /\ CASE ev.p = "CONNECT" ->
            IF ev.connack = "accepted"
            THEN /\ (ev.sp => (ever /\ ~ev.clean))          \* no session can be presented that does not exist
                 /\ ever' = TRUE
                 /\ bsubs' = IF ev.sp THEN bsubs ELSE EmptyFn
                 /\ binfl' = IF ev.sp THEN binfl ELSE {}
                 /\ bstored' = IF ev.sp THEN bstored ELSE EmptyFn
                 /\ ev.deliv = << >>
                 /\ UNCHANGED delivered
            ELSE /\ ev.deliv = << >> /\ UNCHANGED <<ever, bsubs, binfl, bstored, delivered>>
       [] ev.p = "PUBLISH" /\ ev.qos < 2 ->
            /\ ev.deliv = <<ev.tag>>
            /\ delivered' = Append(delivered, ev.tag)
            /\ UNCHANGED <<ever, bsubs, binfl, bstored>>
       [] ev.p = "PUBLISH" /\ ev.qos = 2 ->
            IF ev.id \in binfl
            THEN /\ ev.deliv = << >> /\ UNCHANGED <<ever, bsubs, binfl, bstored, delivered>>
            ELSE /\ binfl' = binfl \cup {ev.id}
                 /\ IF Cfg.deliverOnRel
                    THEN /\ ev.deliv = << >>
                         /\ bstored' = [x \in (DOMAIN bstored) \cup {ev.id} |-> IF x = ev.id THEN ev.tag ELSE bstored[x]]
                         /\ UNCHANGED delivered
                    ELSE /\ ev.deliv = <<ev.tag>>
                         /\ delivered' = Append(delivered, ev.tag)
                         /\ UNCHANGED bstored
                 /\ UNCHANGED <<ever, bsubs>>
       [] ev.p = "PUBREL" ->
            IF ev.id \in binfl
            THEN /\ binfl' = binfl \ {ev.id}
                 /\ IF ev.id \in DOMAIN bstored
                    THEN /\ ev.deliv = <<bstored[ev.id]>>
                         /\ delivered' = Append(delivered, bstored[ev.id])
                         /\ bstored' = [x \in (DOMAIN bstored) \ {ev.id} |-> bstored[x]]
                    ELSE /\ ev.deliv = << >> /\ UNCHANGED <<delivered, bstored>>
                 /\ UNCHANGED <<ever, bsubs>>
            ELSE /\ ev.deliv = << >> /\ UNCHANGED <<ever, bsubs, binfl, bstored, delivered>>
       [] ev.p = "SUBSCRIBE" ->
            /\ ev.deliv = << >>
            /\ bsubs' = SubAll(bsubs, ev.fs, ev.qs)
            /\ UNCHANGED <<ever, binfl, bstored, delivered>>
       [] ev.p = "UNSUBSCRIBE" ->
            /\ ev.deliv = << >>
            /\ bsubs' = UnsubAll(bsubs, ev.fs)
            /\ UNCHANGED <<ever, binfl, bstored, delivered>>
       [] OTHER ->
            /\ ev.deliv = << >> /\ UNCHANGED <<ever, bsubs, binfl, bstored, delivered>>

(***************************************************************************)
(* Network: a transport is open from its Dial until its Close; a write on   *)
(* a closed transport fails without reaching the broker; a cut closes it.   *)
(***************************************************************************)
ConnOpen(g) == g \in 1..Len(conns) /\ conns[g].open

WriteStep ==
  LET ev == Ev IN
  /\ ev.g \in 1..Len(conns)
  /\ (ev.o = "closed") <=> ~conns[ev.g].open
  /\ ev.ok <=> (ev.o \in {"ok", "cutAfter", "dropReq", "dropAck", "lateAck"})
  /\ wire' = Append(wire, ev)
  /\ IF ev.o = "closed"
     THEN /\ ev.deliv = << >> /\ ev.resp = "" /\ UNCHANGED <<ever, bsubs, binfl, bstored, delivered>>
     ELSE Broker(ev)
  /\ conns' = IF ev.p = "CONNECT" /\ Processed(ev.o) /\ ev.connack = "accepted"
              THEN [conns EXCEPT ![ev.g].accepted = TRUE, ![ev.g].sp = ev.sp]
              ELSE conns
  /\ UNCHANGED <<reqs, reads, sends, closes, onerrs, handles, handled, idle>>

Step ==
  /\ l <= Len(T) /\ l' = l + 1 /\ UNCHANGED tid
  /\ fresh' = Ev.e
  /\ CASE Ev.e = "Write" -> WriteStep
       [] Ev.e = "Dial" ->
            /\ IF Ev.res = "ok"
               THEN /\ Ev.g = Len(conns) + 1
                    /\ conns' = Append(conns, [open |-> TRUE, accepted |-> FALSE, sp |-> FALSE, dial |-> l])
               ELSE UNCHANGED conns
            /\ UNCHANGED <<reqs, wire, reads, sends, ever, bsubs, binfl, bstored, delivered, closes, onerrs, handles, handled, idle>>
       [] Ev.e = "Close" ->
            /\ ConnOpen(Ev.g)
            /\ conns' = [conns EXCEPT ![Ev.g].open = FALSE]
            /\ closes' = Append(closes, Ev)
            /\ UNCHANGED <<reqs, wire, reads, sends, ever, bsubs, binfl, bstored, delivered, onerrs, handles, handled, idle>>
       [] Ev.e = "Send" ->
            /\ ConnOpen(Ev.g)
            /\ sends' = Append(sends, Ev)
            /\ UNCHANGED <<reqs, wire, reads, conns, ever, bsubs, binfl, bstored, delivered, closes, onerrs, handles, handled, idle>>
       [] Ev.e = "Read" ->
            \* only what was sent on this transport, in order, can be consumed
            /\ \E i \in 1..Len(sends) : sends[i].g = Ev.g /\ sends[i].p = Ev.p /\ sends[i].id = Ev.id
            /\ reads' = Append(reads, Ev)
            /\ UNCHANGED <<reqs, wire, sends, conns, ever, bsubs, binfl, bstored, delivered, closes, onerrs, handles, handled, idle>>
       [] Ev.e = "Submit" ->
            /\ Ev.i = Len(reqs) + 1
            /\ reqs' = Append(reqs, Ev)
            /\ UNCHANGED <<wire, reads, sends, conns, ever, bsubs, binfl, bstored, delivered, closes, onerrs, handles, handled, idle>>
       [] Ev.e = "OnError" ->
            /\ onerrs' = Append(onerrs, Ev)
            /\ UNCHANGED <<reqs, wire, reads, sends, conns, ever, bsubs, binfl, bstored, delivered, closes, handles, handled, idle>>
       [] Ev.e = "Handle" ->
            /\ handles' = Append(handles, Ev)
            /\ UNCHANGED <<reqs, wire, reads, sends, conns, ever, bsubs, binfl, bstored, delivered, closes, onerrs, handled, idle>>
       [] Ev.e = "Handled" ->
            /\ handled' = Append(handled, Ev)
            /\ UNCHANGED <<reqs, wire, reads, sends, conns, ever, bsubs, binfl, bstored, delivered, closes, onerrs, handles, idle>>
       [] Ev.e = "Idle" ->
            /\ idle' = Ev
            /\ UNCHANGED <<reqs, wire, reads, sends, conns, ever, bsubs, binfl, bstored, delivered, closes, onerrs, handles, handled>>
       [] OTHER ->   \* SubmitCall, Call, Ret, ConnState, Sample, hook events: not part of this layer
            UNCHANGED <<reqs, wire, reads, sends, conns, ever, bsubs, binfl, bstored, delivered, closes, onerrs, handles, handled, idle>>

Spec == Init /\ [][Step]_vars

(***************************************************************************)
(* Observers.  History variables only grow, and every observer below is      *)
(* "once false, always false", so each one is evaluated only for the         *)
(* element appended last (`fresh`), which keeps validation linear.           *)
(***************************************************************************)
W == 1..Len(wire)
NW == Len(wire)
IsPub(j) == wire[j].p = "PUBLISH" /\ wire[j].tag > 0
Sent(j) == wire[j].ok                       \* Transport.Write returned nil: the packet was sent
Accepted(i) == reqs[i].res = "nil"
R == 1..Len(reqs)
IsPubReq(i) == reqs[i].k = "pub"
Count(s, x) == Cardinality({i \in 1..Len(s) : s[i] = x})

\* tag of the message a PUBREL attempt j belongs to: the latest PUBLISH attempt with that id before it
RelTag(j) == LET S == {i \in 1..(j - 1) : IsPub(i) /\ wire[i].id = wire[j].id}
             IN IF S = {} THEN 0 ELSE wire[Max(S)].tag

\* the final acknowledgement of publish attempt j has been consumed by the client after it was written
PubAcked(j) == \E r \in 1..Len(reads) :
                  /\ reads[r].p = (IF wire[j].qos = 1 THEN "PUBACK" ELSE "PUBCOMP")
                  /\ reads[r].id = wire[j].id /\ reads[r].seq > wire[j].seq
AckedTags == {wire[j].tag : j \in {x \in W : IsPub(x) /\ wire[x].qos > 0 /\ PubAcked(x)}}

PktAcked(j, ackName) == \E r \in 1..Len(reads) :
                           reads[r].p = ackName /\ reads[r].id = wire[j].id /\ reads[r].g = wire[j].g /\ reads[r].seq > wire[j].seq
SubPkts(fs, qs) == {j \in W : wire[j].p = "SUBSCRIBE" /\ wire[j].fs = fs /\ wire[j].qs = qs}
UnsubPkts(fs) == {j \in W : wire[j].p = "UNSUBSCRIBE" /\ wire[j].fs = fs}

Drained == idle.e = "Idle" /\ idle.drained /\ fresh = "Idle"
Feasible == idle.e = "Idle" /\ idle.unreached = 0

\* ---- C01 ---------------------------------------------------------------
\* at quiescence every accepted QoS>=1 publish has its PUBACK / PUBCOMP consumed, and for every
\* accepted subscribe / unsubscribe there are at least as many acknowledged packets carrying exactly
\* its filter list as there are accepted requests with that list (matching by counting: the client
\* is free to repeat packets)
C01_StableDone ==
  Drained =>
    /\ \A i \in R : (Accepted(i) /\ IsPubReq(i) /\ reqs[i].q > 0) => i \in AckedTags
    /\ \A i \in R : (Accepted(i) /\ reqs[i].k = "sub") =>
          Cardinality({j \in SubPkts(reqs[i].fs, reqs[i].qs) : PktAcked(j, "SUBACK")})
            >= Cardinality({x \in R : Accepted(x) /\ reqs[x].k = "sub" /\ reqs[x].fs = reqs[i].fs /\ reqs[x].qs = reqs[i].qs})
    /\ \A i \in R : (Accepted(i) /\ reqs[i].k = "unsub") =>
          Cardinality({j \in UnsubPkts(reqs[i].fs) : PktAcked(j, "UNSUBACK")})
            >= Cardinality({x \in R : Accepted(x) /\ reqs[x].k = "unsub" /\ reqs[x].fs = reqs[i].fs})
\* the run reached quiescence before its deadline (finite stand-in for "eventually")
C01_Progress == (fresh = "Idle" /\ Feasible) => idle.drained

\* ---- C02 ---------------------------------------------------------------
Q2Tags == {i \in R : Accepted(i) /\ IsPubReq(i) /\ reqs[i].q = 2}
\* delivered holds tags of messages whose Submit may not have been recorded yet: quantify over the log
\* the broker kept the session on every re-connection (the premise of C02 and of delivery order)
SessionKept == \A g \in 1..Len(conns) : (conns[g].accepted /\ \E h \in 1..(g - 1) : conns[h].accepted) => conns[g].sp
\* exactly-once across reconnects rests on the session: the client asks the broker to discard it (CleanSession=1 in
\* CONNECT) only if the application configured that -- not on its own, e.g. on re-connections (seeded change c02i)
C02_SessionNotDiscardedByClient ==
  (fresh = "Write" /\ wire[NW].p = "CONNECT" /\ "cleanSession" \in DOMAIN Cfg) => wire[NW].clean = Cfg.cleanSession
C02_NoDupQoS2 == (fresh = "Write" /\ SessionKept) =>
  \A t \in Range(wire[NW].deliv) : (\E j \in W : IsPub(j) /\ wire[j].tag = t /\ wire[j].qos = 2) => Count(delivered, t) <= 1
C02_DeliveredOnce == (Drained /\ SessionKept) => \A t \in Q2Tags : Count(delivered, t) = 1
\* "never zero times": with the broker reachable the exchange of every accepted QoS 2 message completes before the run's
\* deadline (finite stand-in for "eventually", as C01_Progress): a client that keeps reconnecting or waits for ever
\* without finishing the exchange has not delivered exactly once
C02_ExchangeCompletes == (fresh = "Idle" /\ Feasible /\ SessionKept /\ Q2Tags # {}) => idle.drained
\* nothing is transmitted for a message after its PUBCOMP has been consumed
C02_SilentAfterComp == fresh = "Write" =>
  LET j == NW IN
  (wire[j].p \in {"PUBLISH", "PUBREL"} /\ wire[j].id > 0 /\ (wire[j].p = "PUBREL" \/ wire[j].qos = 2)) =>
     ~\E r \in 1..Len(reads) : reads[r].p = "PUBCOMP" /\ reads[r].id = wire[j].id
          /\ \E i \in 1..(j - 1) : IsPub(i) /\ wire[i].id = wire[j].id /\ wire[i].seq < reads[r].seq
                                   /\ wire[i].tag = (IF wire[j].p = "PUBLISH" THEN wire[j].tag ELSE RelTag(j))

\* ---- C03 ---------------------------------------------------------------
\* the statement is about the default (queued) mode: with DirectlyPublishQoS0 the QoS 0 messages bypass the queue
Direct0(j) == Cfg.directQoS0 /\ wire[j].qos = 0
Direct0Req(x) == Cfg.directQoS0 /\ IsPubReq(x) /\ reqs[x].q = 0
C03_OrderPerConn == fresh = "Write" =>
  LET j == NW IN (IsPub(j) /\ Sent(j)) =>
     \A i \in 1..(j - 1) : (IsPub(i) /\ Sent(i) /\ wire[i].g = wire[j].g /\ ~Direct0(i) /\ ~Direct0(j)) => wire[i].tag <= wire[j].tag
\* request classes: a publish is its own class; subscribe / unsubscribe requests with the same filter
\* list are indistinguishable on the wire and form one class
ClassOfReq(i) == IF IsPubReq(i) THEN <<"pub", i, << >>, << >> >>
                 ELSE IF reqs[i].k = "sub" THEN <<"sub", 0, reqs[i].fs, reqs[i].qs>>
                 ELSE <<"unsub", 0, reqs[i].fs, << >> >>
ClassOfPkt(j) == CASE wire[j].p = "PUBLISH" -> <<"pub", wire[j].tag, << >>, << >> >>
                   [] wire[j].p = "SUBSCRIBE" -> <<"sub", 0, wire[j].fs, wire[j].qs>>
                   [] wire[j].p = "UNSUBSCRIBE" -> <<"unsub", 0, wire[j].fs, << >> >>
                   [] OTHER -> <<"none", 0, << >>, << >> >>
FirstWire(c) == LET S == {j \in W : Sent(j) /\ ClassOfPkt(j) = c} IN IF S = {} THEN 0 ELSE Min(S)
FirstReq(c) == Min({i \in R : ClassOfReq(i) = c})
\* a single-filter SUBSCRIBE on or after a connection that required re-subscription may be a
\* re-subscription rather than the first transmission of an application request
\* (only a subscription that was transmitted before can be RE-subscribed: the SUBSCRIBE that puts a filter on the wire
\* for the very first time is the first transmission of the application's request, whatever code path sent it)
MaybeResub(j) == /\ wire[j].p = "SUBSCRIBE" /\ Len(wire[j].fs) = 1
                 /\ \E g \in 1..wire[j].g : conns[g].accepted /\ (\E h \in 1..(g - 1) : conns[h].accepted) /\ (~conns[g].sp \/ Cfg.alwaysResub)
                 /\ \E i \in 1..(j - 1) : wire[i].p = "SUBSCRIBE" /\ Sent(i) /\ \E x \in 1..Len(wire[i].fs) : wire[i].fs[x] = wire[j].fs[1]
FirstWireStrict(c) == LET S == {j \in W : Sent(j) /\ ClassOfPkt(j) = c /\ ~MaybeResub(j)} IN IF S = {} THEN 0 ELSE Min(S)
\* evaluated at quiescence (all Submit events are in): classes are first transmitted in the order of
\* their first submission; a QoS 0 publish that never reached the wire is the allowed exception
C03_FirstTxOrder ==
  (fresh = "Idle") =>
    \A a, b \in {x \in R : Accepted(x) /\ ~Direct0Req(x)} :
      LET ca == ClassOfReq(a)  cb == ClassOfReq(b) IN
      (FirstReq(ca) = a /\ FirstReq(cb) = b /\ a < b /\ FirstWireStrict(cb) # 0) =>
         \/ (FirstWire(ca) # 0 /\ FirstWire(ca) < FirstWireStrict(cb))
         \/ (FirstWire(ca) = 0 /\ IsPubReq(a) /\ reqs[a].q = 0)
OnlyCuts == \A j \in W : wire[j].o \in {"ok", "cutBefore", "cutAfter", "closed"}
FirstDeliv(t) == Min({i \in 1..Len(delivered) : delivered[i] = t})
C03_FirstDeliveryOrder ==
  (fresh = "Idle" /\ OnlyCuts /\ SessionKept) =>
    \A a, b \in {x \in R : Accepted(x) /\ IsPubReq(x) /\ reqs[x].q > 0} :
      (a < b /\ b \in Range(delivered)) => (a \in Range(delivered) /\ FirstDeliv(a) < FirstDeliv(b))

\* ---- C08 ---------------------------------------------------------------
RECURSIVE Net(_)
Net(n) == IF n = 0 THEN EmptyFn
          ELSE LET m == Net(n - 1)  r == reqs[n] IN
               IF ~Accepted(n) THEN m
               ELSE IF r.k = "sub" THEN SubAll(m, r.fs, r.qs)
               ELSE IF r.k = "unsub" THEN UnsubAll(m, r.fs) ELSE m
C08_StableSubs == Drained => bsubs = Net(Len(reqs))
\* g is a connection on which the client has to re-subscribe
ResubDue(g) == conns[g].accepted /\ (\E h \in 1..(g - 1) : conns[h].accepted) /\ (~conns[g].sp \/ Cfg.alwaysResub)
\* As long as no connection so far required re-subscription, every SUBSCRIBE on the wire must belong to
\* an application request that is still outstanding: (#requests with that list called so far) minus
\* (#acknowledged packets with that list so far) >= 1
C08_NoResubUnlessDue == fresh = "Write" =>
  LET j == NW IN
  (wire[j].p = "SUBSCRIBE" /\ Sent(j) /\ ~\E g \in 1..wire[j].g : ResubDue(g)) =>
     Cardinality({e \in 1..(l - 1) : T[e].e = "SubmitCall"
                    /\ \E x \in 1..Len(T) : T[x].e = "Submit" /\ T[x].cseq = e /\ T[x].k = "sub" /\ T[x].fs = wire[j].fs /\ T[x].qs = wire[j].qs})
       - Cardinality({i \in SubPkts(wire[j].fs, wire[j].qs) : i < j /\ PktAcked(i, "SUBACK")}) >= 1

\* ---- C12 ---------------------------------------------------------------
C12_DupFlag == fresh = "Write" =>
  LET j == NW IN IsPub(j) =>
    /\ wire[j].dup => \E i \in 1..(j - 1) : IsPub(i) /\ wire[i].tag = wire[j].tag          \* DUP only on a re-transmission
    /\ ~wire[j].dup => ~\E i \in 1..(j - 1) : IsPub(i) /\ wire[i].tag = wire[j].tag /\ Sent(i)   \* every re-transmission has DUP
C12_SameOnRetx == fresh = "Write" =>
  LET j == NW IN IsPub(j) =>
    \A i \in 1..(j - 1) : (IsPub(i) /\ wire[i].tag = wire[j].tag) =>
       /\ wire[i].id = wire[j].id /\ wire[i].qos = wire[j].qos /\ wire[i].retain = wire[j].retain /\ wire[i].topic = wire[j].topic
C12_NoPubAfterRel == fresh = "Write" =>
  LET j == NW IN IsPub(j) =>
    ~\E i \in 1..(j - 1) : wire[i].p = "PUBREL" /\ Sent(i) /\ wire[i].id = wire[j].id /\ RelTag(i) = wire[j].tag
\* (a QoS 0 message is handed to the transport once: a failed write is not repeated either -- there is no retry handle
\* for QoS 0)
C12_NoQoS0Retx == fresh = "Write" =>
  LET j == NW IN (IsPub(j) /\ wire[j].qos = 0) =>
    ~\E i \in 1..(j - 1) : IsPub(i) /\ wire[i].tag = wire[j].tag
\* a PUBREL carries the identifier of a message whose PUBLISH was transmitted before
C12_RelHasPublish == fresh = "Write" =>
  LET j == NW IN (wire[j].p = "PUBREL") => RelTag(j) # 0

\* every PUBLISH on the wire (first transmissions, also deferred ones sent from the client's queued copy, and
\* retransmissions) carries the QoS, retain flag and topic the application submitted for that message
C12_AsSubmitted == fresh = "Idle" =>
  \A j \in 1..Len(wire) : IsPub(j) =>
    LET n == wire[j].tag IN
    (n \in 1..Len(reqs) /\ reqs[n].k = "pub") =>
       /\ wire[j].qos = reqs[n].q /\ wire[j].retain = reqs[n].retain /\ wire[j].topic = "t"

\* ---- C05 (on the retrying client: also what is sent again is well-formed) ---------------------------------
\* every packet the client writes -- first transmissions, retransmissions (PUBLISH with DUP, PUBREL again), repeated
\* SUBSCRIBE / UNSUBSCRIBE, re-subscriptions, acknowledgements of inbound traffic -- passes the independent decoder of
\* the broker model (fixed-header flags incl. the reserved bits, minimal remaining length, field lengths, non-zero id)
C05_PacketsWellFormed == fresh = "Write" => wire[NW].bad = ""

\* ---- C15 (the clause about caller-supplied identifiers, on the retrying client) -------------------
\* an identifier the application put on a message is the identifier of every PUBLISH / PUBREL of that message, also
\* when the first transmission is deferred (sent from the client's queued copy) or repeated
\* "never 0": every packet of the client that carries a packet identifier -- also a retransmitted PUBREL -- carries a non-zero one
C15_NonZeroId == fresh = "Write" =>
  ((wire[NW].p \in {"PUBREL", "SUBSCRIBE", "UNSUBSCRIBE", "PUBACK", "PUBREC", "PUBCOMP"} \/ (wire[NW].p = "PUBLISH" /\ wire[NW].qos > 0)) => wire[NW].id # 0)
C15_PresetIdKept == fresh = "Idle" =>
  \A j \in 1..Len(wire) : IsPub(j) =>
    LET n == wire[j].tag IN
    (n \in 1..Len(reqs) /\ reqs[n].k = "pub" /\ reqs[n].pid # 0 /\ wire[j].qos > 0) => wire[j].id = reqs[n].pid

\* ---- C19 (the clause about the response timeout, on the retrying client) -------------------------
\* whatever OnError reports because a response timeout expired -- on a first transmission, a deferred one or a
\* retransmission -- is identifiable as RequestTimeoutError (the scenarios use no other deadline)
C19_TimeoutTyped == \A o \in 1..Len(onerrs) : onerrs[o].cls = "deadline" => onerrs[o].timeout

\* "a cancelled caller context's error" stays inspectable: Connect of the reconnecting client gives up only because its
\* context ended, so once the application cancelled that context (event CancelConnect) a failing Connect reports the
\* context's error -- whatever dial or CONNECT failures the loop had met before (seeded change c19g)
C19_ConnectCtxErr ==
  (fresh = "Ret" /\ T[l - 1].kind = "Connect" /\ T[l - 1].res # "nil" /\ \E e \in 1..(l - 2) : T[e].e = "CancelConnect")
     => T[l - 1].res \in {"canceled", "deadline"}

\* ---- C04 (through the retrying / reconnecting client: every connection gets a new base client) --------------
\* "answered by exactly one PUBACK ... written only after the handler returned" / "handed over ... when the matching PUBREL
\* arrives, that PUBREL being answered by PUBCOMP": an acknowledgement the client writes for an application message it
\* read on that connection, a handler registration having completed before the broker queued the message, comes after the
\* hand-over of that message (seeded change c04g: the handler reaches the new base client only after Connect returned)
C04_AckAfterHandover ==
  (fresh = "Write" /\ ~wire[NW].req /\ wire[NW].p \in {"PUBACK", "PUBCOMP"}) =>
    \A i \in 1..Len(sends) :
      (/\ sends[i].p = "PUBLISH" /\ sends[i].tag > 0 /\ sends[i].g = wire[NW].g /\ sends[i].id = wire[NW].id
       /\ sends[i].qos = (IF wire[NW].p = "PUBACK" THEN 1 ELSE 2)
       /\ (\E r \in 1..Len(reads) : reads[r].p = "PUBLISH" /\ reads[r].tag = sends[i].tag /\ reads[r].g = sends[i].g)
       /\ (\E k \in 1..(Len(handles) \div 2) : handles[2 * k].seq < sends[i].seq))
      => \E h \in 1..Len(handled) : handled[h].tag = sends[i].tag

\* "messages the protocol cannot carry (... payload over the configured maximum) are rejected before anything is
\* written" -- also a message that was accepted into the retrying client's queue while no connection existed (c05h)
MaxPayload == IF "maxPayload" \in DOMAIN Cfg THEN Cfg.maxPayload ELSE 0
C05_NoOversizePublish == (fresh = "Write" /\ wire[NW].p = "PUBLISH" /\ MaxPayload > 0) => wire[NW].plen <= MaxPayload

\* ---- C17 ---------------------------------------------------------------
\* Handle calls are made by one goroutine: k-th call = handles[2k-1] (call) and handles[2k] (ret).
NH == Len(handles) \div 2
HCall(k) == handles[2 * k - 1].seq
HRet(k) == handles[2 * k].seq
InSends == {i \in 1..Len(sends) : sends[i].p = "PUBLISH" /\ sends[i].tag > 0}
\* handler k is acceptable for a message queued by the broker at s and handed over at t:
\* its registration had started before the hand-over, and no later registration had completed before s
OkHandler(k, s, t) == /\ k \in 1..NH /\ HCall(k) < t
                      /\ \A k2 \in (k + 1)..NH : ~(2 * k2 <= Len(handles) /\ HRet(k2) < s)
C17_RightHandler == fresh = "Handled" =>
  LET h == handled[Len(handled)] IN
  \E i \in InSends : sends[i].tag = h.tag /\
     \E k \in 1..NH : handles[2 * k - 1].h = h.h /\ OkHandler(k, sends[i].seq, h.seq)
C17_AtMostOnce == fresh = "Handled" =>
  LET h == handled[Len(handled)] IN Cardinality({x \in 1..Len(handled) : handled[x].tag = h.tag}) <= 1
\* "whenever it is replaced": a Handle call -- also one made from inside the handler that is being replaced (a one-shot
\* bootstrap handler installing the steady one) -- has returned by the end of the run (finite stand-in for "returns";
\* a Handle that waits for a lock its own goroutine holds never does, and nothing is delivered afterwards: c17g)
C17_HandleReturns == (fresh = "Idle" /\ Feasible) => Len(handles) % 2 = 0
\* every inbound message that the client's reader consumed while a handler registration had completed
\* before the broker queued it has been handed over by the time the run is quiescent
C17_NoneDropped == Drained =>
  \A i \in InSends :
    ((\E r \in 1..Len(reads) : reads[r].p = "PUBLISH" /\ reads[r].tag = sends[i].tag
           \* QoS 2: consumed means that the PUBREL with its identifier has been read on that connection as well
           /\ (sends[i].qos = 2 => \E r2 \in (r + 1)..Len(reads) : reads[r2].p = "PUBREL" /\ reads[r2].id = sends[i].id /\ reads[r2].g = reads[r].g))
      /\ (\E k \in 1..NH : 2 * k <= Len(handles) /\ HRet(k) < sends[i].seq))
    => \E x \in 1..Len(handled) : handled[x].tag = sends[i].tag

\* ---- C18 ---------------------------------------------------------------
\* a request packet whose acknowledgement the network swallowed on an open connection
Dropped == {j \in W : wire[j].o \in {"dropReq", "dropAck"} /\ wire[j].req /\ wire[j].p \in {"PUBLISH", "PUBREL", "SUBSCRIBE", "UNSUBSCRIBE"}
                      /\ ~(wire[j].p = "PUBLISH" /\ wire[j].qos = 0)}
C18_TimeoutClosesAndReports ==
  (fresh = "Idle" /\ Cfg.respTimeout /\ Feasible) =>
    \A j \in Dropped :
      /\ \E c \in 1..Len(closes) : closes[c].g = wire[j].g /\ closes[c].by = "local" /\ closes[c].seq > wire[j].seq
      /\ \E o \in 1..Len(onerrs) : onerrs[o].timeout /\ onerrs[o].seq > wire[j].seq
C18_NoStall == (fresh = "Idle" /\ Cfg.respTimeout /\ Feasible /\ Dropped # {}) => idle.drained

Obs == [
  C01_StableDone |-> C01_StableDone, C01_Progress |-> C01_Progress,
  C02_NoDupQoS2 |-> C02_NoDupQoS2, C02_DeliveredOnce |-> C02_DeliveredOnce, C02_SilentAfterComp |-> C02_SilentAfterComp, C02_ExchangeCompletes |-> C02_ExchangeCompletes, C02_SessionNotDiscardedByClient |-> C02_SessionNotDiscardedByClient,
  C03_OrderPerConn |-> C03_OrderPerConn, C03_FirstTxOrder |-> C03_FirstTxOrder, C03_FirstDeliveryOrder |-> C03_FirstDeliveryOrder,
  C08_StableSubs |-> C08_StableSubs, C08_NoResubUnlessDue |-> C08_NoResubUnlessDue,
  C12_DupFlag |-> C12_DupFlag, C12_SameOnRetx |-> C12_SameOnRetx, C12_NoPubAfterRel |-> C12_NoPubAfterRel,
  C12_NoQoS0Retx |-> C12_NoQoS0Retx, C12_RelHasPublish |-> C12_RelHasPublish, C12_AsSubmitted |-> C12_AsSubmitted, C15_PresetIdKept |-> C15_PresetIdKept, C15_NonZeroId |-> C15_NonZeroId, C05_PacketsWellFormed |-> C05_PacketsWellFormed, C05_NoOversizePublish |-> C05_NoOversizePublish, C19_TimeoutTyped |-> C19_TimeoutTyped, C19_ConnectCtxErr |-> C19_ConnectCtxErr,
  C04_AckAfterHandover |-> C04_AckAfterHandover, C17_RightHandler |-> C17_RightHandler, C17_AtMostOnce |-> C17_AtMostOnce, C17_NoneDropped |-> C17_NoneDropped, C17_HandleReturns |-> C17_HandleReturns,
  C18_TimeoutClosesAndReports |-> C18_TimeoutClosesAndReports, C18_NoStall |-> C18_NoStall ]

Failing == {n \in DOMAIN Obs : ~Obs[n]}

\* register tid: [hw |-> highest l reached, v |-> {<<observer, index of the event at which it first failed>>}]
Mon == LET cur == TLCGet(tid)
           known == {p[1] : p \in cur.v}
           new == {<<n, l - 1>> : n \in Failing \ known}
       IN TLCSet(tid, [hw |-> IF cur.hw < l THEN l ELSE cur.hw, v |-> cur.v \cup new])

Report ==
  PrintT(<<"REPORT", ToJson([t \in 1..Len(Traces) |->
       [id |-> Traces[t].id, len |-> Len(Traces[t].evs), hw |-> TLCGet(t).hw,
        v |-> {[o |-> p[1], at |-> p[2]] : p \in TLCGet(t).v}]])>>)

ASSUME \A t \in 1..Len(Traces) : TLCSet(t, [hw |-> 0, v |-> {}])
=============================================================================
