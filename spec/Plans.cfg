CONSTANTS
  MaxLen = 3
  MaxFaults = 2
  MaxK = 8
