-------------------------------- MODULE Plans --------------------------------
(***************************************************************************)
(* Scenario components for the retry family, enumerated by TLC and dumped   *)
(* as NDJSON: request alphabets, workloads (sequences of requests), fault   *)
(* plans (sets of (packet index, outcome)), dial / CONNACK plans and submit *)
(* timing patterns.  The check combines them (the full product in the       *)
(* thorough tier where it is small enough, a VERIF_SEED-selected sample      *)
(* otherwise) into the scenarios executed on the real client; the same       *)
(* bounds are used for the exhaustive MqttRetry instances.                   *)
(* No behaviour specification: TLC only evaluates the ASSUMEs.               *)
(***************************************************************************)
EXTENDS Integers, Sequences, FiniteSets, TLC, Json, SequencesExt

CONSTANTS MaxLen,      \* workload length bound
          MaxFaults,   \* faults per plan
          MaxK         \* faults are placed among the first MaxK request packets

Pub(q) == [k |-> "pub", q |-> q, subs |-> << >>, fs |-> << >>]
Sub(s) == [k |-> "sub", q |-> 0, subs |-> s, fs |-> << >>]
Unsub(f) == [k |-> "unsub", q |-> 0, subs |-> << >>, fs |-> f]
FQ(f, q) == [f |-> f, q |-> q]

PubKinds == {Pub(0), Pub(1), Pub(2)}
SubKinds == {Sub(<<FQ("x", 1)>>), Sub(<<FQ("x", 0)>>), Sub(<<FQ("y", 1)>>),
             Sub(<<FQ("x", 1), FQ("y", 0)>>), Sub(<<FQ("x", 0), FQ("x", 1)>>)}
UnsubKinds == {Unsub(<<"x">>), Unsub(<<"y">>), Unsub(<<"x", "y">>), Unsub(<<"x", "x">>), Unsub(<<"z">>)}

SeqsUpTo(A, n) == UNION {[1..k -> A] : k \in 1..n}

\* workload families
WPub == SeqsUpTo(PubKinds, MaxLen)
WSub == {w \in SeqsUpTo(SubKinds \cup UnsubKinds \cup {Pub(1)}, MaxLen) :
            \E i \in 1..Len(w) : w[i].k \in {"sub", "unsub"}}
WMixed == {w \in SeqsUpTo(PubKinds \cup {Sub(<<FQ("x", 1)>>), Unsub(<<"x">>)}, MaxLen) :
            \E i \in 1..Len(w) : w[i].k = "pub" /\ w[i].q > 0}

\* fault plans: at most MaxFaults faults, each on a distinct packet index among the first MaxK
Outcomes == {"cutBefore", "cutAfter"}
Drops == {"dropReq", "dropAck"}
KSets == {S \in SUBSET (1..MaxK) : Cardinality(S) <= MaxFaults}
FaultPlans(O) == UNION {[S -> O] : S \in KSets}          \* a plan is a function: packet index -> outcome
PlanSeq(p) == LET ks == SetToSortSeq(DOMAIN p, <) IN [i \in 1..Len(ks) |-> [k |-> ks[i], o |-> p[ks[i]]]]

\* dial plans: which of the first dials fail; CONNACK plans per successfully dialled transport
DialPlans == {<< >>, <<"fail">>, <<"ok", "fail">>, <<"ok", "fail", "fail">>, <<"fail", "fail", "ok", "fail">>}
CA(sp, code, silent) == [sp |-> sp, code |-> code, silent |-> silent]
ConnAckPlans == {<< >>,
                 <<CA("", 0, FALSE), CA("false", 0, FALSE)>>,                       \* session lost on 2nd
                 <<CA("", 0, FALSE), CA("", 0, FALSE), CA("false", 0, FALSE)>>,     \* session lost on 3rd
                 <<CA("", 0, FALSE), CA("", 5, FALSE)>>,                             \* 2nd refused
                 <<CA("", 3, FALSE)>>,                                               \* 1st refused
                 <<CA("", 0, FALSE), CA("", 0, TRUE)>>}                              \* 2nd never answered

\* submit timing: request i is submitted at location at[i]; "pre" only as a prefix, write gates
\* non-decreasing, so that every pattern is feasible in principle
Locs == {"pre", "conn", "write:2", "write:3", "write:4", "write:5", "dial:2", "dial:3", "idle"}
Rank(a) == CASE a = "pre" -> 0 [] a = "conn" -> 1 [] a = "write:2" -> 2 [] a = "write:3" -> 3
             [] a = "write:4" -> 4 [] a = "write:5" -> 5 [] OTHER -> 9
IsGate(a) == a \notin {"pre", "conn", "idle"}
Timings(n) == {t \in [1..n -> Locs] :
                 /\ \A i \in 1..(n - 1) : (t[i + 1] = "pre" => t[i] = "pre")
                 /\ \A i, j \in 1..n : (i < j /\ Rank(t[i]) < 9 /\ Rank(t[j]) < 9) => Rank(t[i]) <= Rank(t[j])
                 /\ \A i, j \in 1..n : (i < j /\ t[i] = "dial:3") => t[j] \in {"dial:3", "idle"}
                 /\ \A i, j \in 1..n : (i < j /\ t[i] = "idle") => t[j] = "idle"}

Dump(file, S) == ndJsonSerialize(file, SetToSeq(S))

ASSUME Dump("w_pub.ndjson", {[w |-> w] : w \in WPub})
ASSUME Dump("w_sub.ndjson", {[w |-> w] : w \in WSub})
ASSUME Dump("w_mixed.ndjson", {[w |-> w] : w \in WMixed})
ASSUME Dump("f_cuts.ndjson", {[f |-> PlanSeq(S)] : S \in FaultPlans(Outcomes)})
ASSUME Dump("f_drops.ndjson", {[f |-> PlanSeq(S)] : S \in {X \in FaultPlans(Outcomes \cup Drops) : \E a \in DOMAIN X : X[a] \in Drops}})
ASSUME Dump("dials.ndjson", {[d |-> d] : d \in DialPlans})
ASSUME Dump("connacks.ndjson", {[c |-> c] : c \in ConnAckPlans})
ASSUME \A n \in 1..MaxLen : Dump("t_" \o ToString(n) \o ".ndjson", {[t |-> t] : t \in Timings(n)})
ASSUME PrintT(<<"COUNTS", [wpub |-> Cardinality(WPub), wsub |-> Cardinality(WSub), wmixed |-> Cardinality(WMixed),
                           fcuts |-> Cardinality(FaultPlans(Outcomes)), timings |-> [n \in 1..MaxLen |-> Cardinality(Timings(n))]]>>)
=============================================================================
