------------------------------ MODULE KeepAlive ------------------------------
(***************************************************************************)
(* C13 -- the keep-alive loop (keepalive.go) as a function of the sequence  *)
(* of ping outcomes.  Letters:                                              *)
(*   "ok"            the response arrives within the timeout                *)
(*   "slow"          the response arrives within the timeout, but later than *)
(*                   the next tick (interval < latency < timeout): the peer   *)
(*                   is not silent, the loop keeps running                    *)
(*   "fail"          Ping fails at once with an error E, nothing cancelled   *)
(*   "hang"          no response: Ping returns when its context expires      *)
(*   "cancelBefore"  the caller's context is cancelled while the loop waits  *)
(*                   for the next tick                                       *)
(*   "cancelDuring"  the caller's context is cancelled while Ping waits      *)
(* When the script is exhausted the driver cancels the caller's context.     *)
(* State machine: tick -> ping -> classify (caller's context first, then the *)
(* ping timeout, then the ping's own error) -> tick ...                      *)
(***************************************************************************)
EXTENDS Integers, Sequences, FiniteSets, TLC, Json, SequencesExt

CONSTANT MaxLen
Letters == {"ok", "slow", "fail", "hang", "cancelBefore", "cancelDuring"}
Answered == {"ok", "slow"}

VARIABLES pc, script, pos, pings, parentCancelled, pingErr, timedOut, result
vars == <<pc, script, pos, pings, parentCancelled, pingErr, timedOut, result>>

Scripts == UNION {[1..n -> Letters] : n \in 0..MaxLen}

Init == /\ pc = "tick" /\ script \in Scripts /\ pos = 1 /\ pings = 0 /\ parentCancelled = FALSE
        /\ pingErr = "none" /\ timedOut = FALSE /\ result = "running"

Cur == IF pos <= Len(script) THEN script[pos] ELSE "cancelBefore"

\* <-ticker.C ; the environment may cancel the caller's context while the loop waits
Tick == /\ pc = "tick"
        /\ parentCancelled' = (parentCancelled \/ Cur = "cancelBefore")
        /\ pc' = "ping"
        /\ UNCHANGED <<script, pos, pings, pingErr, timedOut, result>>
\* ctxTo := WithTimeout(ctx); err := cli.Ping(ctxTo)
Ping == /\ pc = "ping"
        /\ pings' = pings + 1
        /\ IF parentCancelled
           THEN /\ pingErr' = "ctx" /\ timedOut' = FALSE /\ UNCHANGED parentCancelled
           ELSE CASE Cur \in Answered -> /\ pingErr' = "none" /\ timedOut' = FALSE /\ UNCHANGED parentCancelled
                  [] Cur = "fail" -> /\ pingErr' = "E" /\ timedOut' = FALSE /\ UNCHANGED parentCancelled
                  [] Cur = "hang" -> /\ pingErr' = "ctx" /\ timedOut' = TRUE /\ UNCHANGED parentCancelled
                  [] Cur = "cancelDuring" -> /\ pingErr' = "ctx" /\ timedOut' = FALSE /\ parentCancelled' = TRUE
        /\ pc' = "classify"
        /\ UNCHANGED <<script, pos, result>>
Classify == /\ pc = "classify"
            /\ IF pingErr = "none"
               THEN /\ pc' = "tick" /\ pos' = pos + 1 /\ UNCHANGED result
               ELSE /\ pc' = "done" /\ UNCHANGED pos
                    /\ result' = IF parentCancelled THEN "canceled"
                                 ELSE IF timedOut THEN "pingtimeout" ELSE "E"
            /\ UNCHANGED <<script, pings, parentCancelled, pingErr, timedOut>>
Next == Tick \/ Ping \/ Classify
Spec == Init /\ [][Next]_vars /\ WF_vars(Next)

\* ---- the clauses of C13 as properties of the loop ----
\* a timeout is declared only if a response did not arrive in time and the caller did not cancel
TimeoutOnlyForSilence == (result = "pingtimeout") => (Cur = "hang" /\ ~parentCancelled)
CancelWins == (pc = "done" /\ parentCancelled) => result = "canceled"
KeepsRunningWhileAnswered == (pc = "done") => \A i \in 1..(pos - 1) : script[i] \in Answered
OnePingPerTick == pings <= pos
Terminates == <>(pc = "done")

\* ---- closed form used to generate the test table ----
FirstBad(s) == LET B == {i \in 1..Len(s) : s[i] \notin Answered} IN IF B = {} THEN Len(s) + 1 ELSE CHOOSE i \in B : \A j \in B : i <= j
Expected(s) == LET k == FirstBad(s)
                   c == IF k <= Len(s) THEN s[k] ELSE "cancelBefore"
               IN [pings |-> k, res |-> CASE c = "fail" -> "E" [] c = "hang" -> "pingtimeout" [] OTHER -> "canceled"]
\* the closed form agrees with the state machine
ClosedForm == (pc = "done") => (result = Expected(script).res /\ pings = Expected(script).pings)

ASSUME ndJsonSerialize("keepalive_table.ndjson", SetToSeq({[s |-> s, pings |-> Expected(s).pings, res |-> Expected(s).res] : s \in Scripts}))
=============================================================================
