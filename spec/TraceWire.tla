------------------------------ MODULE TraceWire ------------------------------
(* C10, wire half, binding: the byte stream a chunking transport actually received from the real client
   under concurrent callers must parse (with the length rules of module Framer) into exactly the
   multiset of packets the callers and the acknowledging reader produced. *)
EXTENDS Framer, Json

Runs == ndJsonDeserialize("wire_runs.ndjson")

\* cut the stream into frames <<type, flags, body>>; a frame that does not fit ends the parse with <<-1>>
RECURSIVE Frames(_, _)
Frames(b, i) ==
  IF i > Len(b) THEN << >>
  ELSE IF i + 1 > Len(b) THEN << <<-1, 0, << >> >> >>
  ELSE LET L == LenAt(b, i + 1, 0, 1, 0) IN
       IF L.k \in {0, 5} \/ i + L.k + L.n > Len(b) THEN << <<-1, 0, << >> >> >>
       ELSE << <<b[i] \div 16, b[i] % 16, Sub(b, i + 1 + L.k, L.n)>> >> \o Frames(b, i + 1 + L.k + L.n)

\* key of a frame: what identifies the packet a writer produced
Key(f) == CASE f[1] = 3 -> LET tl == U16(f[3], 1)  q == (f[2] \div 2) % 4 IN <<3, Sub(f[3], 3 + tl + (IF q > 0 THEN 2 ELSE 0), Len(f[3]) - 2 - tl - (IF q > 0 THEN 2 ELSE 0))>>
            [] f[1] \in {4, 5, 6, 7} -> <<f[1], U16(f[3], 1)>>
            [] f[1] = 8 -> <<8, Sub(f[3], 3, Len(f[3]) - 2)>>
            [] f[1] = 10 -> <<10, Sub(f[3], 3, Len(f[3]) - 2)>>
            [] OTHER -> <<f[1], 0>>
WellFormedClient(f) == CASE f[1] = 1 -> f[2] = 0
                         [] f[1] = 3 -> (f[2] \div 2) % 4 < 3 /\ Len(f[3]) >= 2 /\ 2 + U16(f[3], 1) + (IF (f[2] \div 2) % 4 > 0 THEN 2 ELSE 0) <= Len(f[3])
                         [] f[1] \in {4, 5, 7} -> f[2] = 0 /\ Len(f[3]) = 2
                         [] f[1] = 6 -> f[2] = 2 /\ Len(f[3]) = 2
                         [] f[1] \in {8, 10} -> f[2] = 2 /\ Len(f[3]) > 2
                         [] f[1] \in {12, 14} -> f[2] = 0 /\ Len(f[3]) = 0
                         [] OTHER -> FALSE
CountIn(s, x) == Cardinality({i \in 1..Len(s) : s[i] = x})
Bad(r) ==
  LET fr == Frames(r.stream, 1)
      keys == [i \in 1..Len(fr) |-> IF fr[i][1] = -1 \/ ~WellFormedClient(fr[i]) THEN <<-1, 0>> ELSE Key(fr[i])]
  IN \/ \E i \in 1..Len(fr) : fr[i][1] = -1 \/ ~WellFormedClient(fr[i])          \* the stream does not parse into whole packets
     \/ \E i \in 1..Len(r.expected) : CountIn(keys, <<r.expected[i][1], r.expected[i][2]>>) # CountIn(r.expected, r.expected[i])   \* a packet is missing / doubled
     \/ Len(keys) # Len(r.expected) + r.pings

ASSUME PrintT(<<"REPORT", ToJson([n |-> Len(Runs), bad |-> {Runs[i].id : i \in {x \in 1..Len(Runs) : Bad(Runs[x])}}])>>)
=============================================================================
