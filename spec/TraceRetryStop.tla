--------------------------- MODULE TraceRetryStop ---------------------------
(***************************************************************************)
(* Binding of RetryStop.tla to retryclient.go: recorded runs of the real     *)
(* RetryClient (harness/cmd/drive/manual.go, runStopRace: a few goroutines   *)
(* submit one publish each while SetClient / Connect / Disconnect run) must  *)
(* be behaviours of the model.  The library's hooks fire inside the critical *)
(* sections, after the state change: "set" (SetClient), "push" n (pushTask,  *)
(* queue length after the append), "pop" n (task goroutine, queue length     *)
(* after the pop); "ret" a res is what goroutine a's Publish returned and    *)
(* "discret" the return of Disconnect.  A logged event is consumed by the    *)
(* model step that performs that critical section; taking locks, the steps   *)
(* of Disconnect after its own push, receiving from the channel and running  *)
(* a task are silent.  One initial state per trace; register tid keeps the   *)
(* highest position reached (CONSTRAINT Mon); POSTCONDITION prints it.       *)
(***************************************************************************)
EXTENDS RetryStop, Json, TLCExt

Traces == ndJsonDeserialize("stop_traces.ndjson")
VARIABLES tid, l
tvars == <<vars, tid, l>>
T == Traces[tid].evs
Ev == T[l]
Is(e) == l <= Len(T) /\ Ev.e = e
Adv == l' = l + 1 /\ UNCHANGED tid
Stay == UNCHANGED <<tid, l>>
AppOf(n) == CHOOSE a \in Apps : a = "a" \o ToString(n)
ResOf(r) == IF r = "nil" THEN "nil" ELSE IF r = "closedclient" THEN "closed" ELSE "other"

TInit == Init /\ tid \in 1..Len(Traces) /\ l = 1
TSet == Is("set") /\ SBody /\ Adv
TPush == /\ Is("push") /\ Adv
         /\ \/ \E a \in Apps : ABody(a) /\ ~stopped
            \/ DPush
         /\ Len(taskQ') = Ev.n
TPop == Is("pop") /\ TBody /\ taskQ # << >> /\ Len(taskQ') = Ev.n /\ Adv
TRet == Is("ret") /\ apc[AppOf(Ev.n)] = "done" /\ ares[AppOf(Ev.n)] = ResOf(Ev.res) /\ UNCHANGED vars /\ Adv
TDiscRet == Is("discret") /\ dpc = "done" /\ UNCHANGED vars /\ Adv
\* goroutines whose Publish returned are the ones that took part: an app takes the lock only if the trace reports its return
Silent == /\ Stay
          /\ \/ \E a \in Apps : ALock(a)
             \/ \E a \in Apps : ABody(a) /\ stopped
             \/ SLock \/ SGo \/ DLock1 \/ DLock2 \/ DStop \/ TLock \/ TRecv \/ TRun
             \/ TBody /\ taskQ = << >>
TNext == TSet \/ TPush \/ TPop \/ TRet \/ TDiscRet \/ Silent
TSpec == TInit /\ [][TNext]_tvars

Mon == LET cur == TLCGet(tid) IN TLCSet(tid, IF cur < l THEN l ELSE cur)
Report == PrintT(<<"REPORT", ToJson([t \in 1..Len(Traces) |-> [id |-> Traces[t].id, len |-> Len(Traces[t].evs), hw |-> TLCGet(t)]])>>)
ASSUME \A t \in 1..Len(Traces) : TLCSet(t, 0)
=============================================================================
