----------------------------- MODULE CodecSeed -----------------------------
(***************************************************************************)
(* Seeded inputs of CodecGen.tla (property C05).  The check replaces this  *)
(* file in TLC's scratch directory by one generated from VERIF_SEED; the   *)
(* copy in spec/ is the default so that the module parses stand-alone.     *)
(* A row is <<qos, retain (0/1), dup (0/1), packet identifier, topic       *)
(* length, topic phase, payload length, payload start, payload step>>;     *)
(* rows satisfy PublishOK (DUP only with QoS > 0, identifier >= 1 then).   *)
(***************************************************************************)
SeedParams == << <<0, 0, 0, 0, 5, 3, 10, 7, 1>>,
                 <<1, 1, 0, 4660, 17, 0, 200, 250, 3>>,
                 <<2, 0, 1, 43981, 130, 11, 16000, 0, 0>> >>
=============================================================================
