----------------------------- MODULE CloneTrace -----------------------------
(***************************************************************************)
(* Trace validation for property C20: is what harness/cmd/drive (family     *)
(* "clone") recorded on the real ServeMux / ServeAsync / clone a behaviour   *)
(* of Clone.tla with Impl = "Deep"?                                         *)
(*                                                                         *)
(* One initial state per recorded trace (tid); l is the next event.  The     *)
(* dispatching steps of the model are silent and taken eagerly (Reduce);    *)
(* a recorded event is consumed by the visible step of the same kind:       *)
(*   call / ret / cmut / fin  -- the caller's step; the recorded values of   *)
(*        the caller's messages (cv) must be the model's (CallerIntact), at  *)
(*        fin also the messages kept by the handlers (hv, HoldersIntact);    *)
(*   h i  -- some pending invocation of handler i whose model observation    *)
(*        equals the recorded one (NoBadObs).  Two invocations of the same   *)
(*        asynchronous handler (two Serve calls) cannot be told apart by the  *)
(*        harness, so either may take the event.                             *)
(* The *structure* of the schedule (which step can come next) is a           *)
(* precondition: a trace that gets stuck there (hw <= length) is not         *)
(* realisable in the model -- trouble of the machinery, not a verdict.       *)
(* A *value* that differs does not block: the first difference on a path is  *)
(* kept in `mis` and the replay continues, so that the report can say what   *)
(* was seen and what the specification wanted.  A trace is accepted iff      *)
(* some path consumes every event with mis = <<>>.                           *)
(***************************************************************************)
EXTENDS Clone

TraceLog == ndJsonDeserialize("clone_traces.ndjson")

VARIABLES tid, l, mis
tvars == <<vars, tid, l, mis>>

Evs == TraceLog[tid].ev
Ev == Evs[l]

ValidCase(c) ==
  /\ c.top \in Tops /\ c.pay \in PayKinds /\ c.mode \in Modes
  /\ Len(c.hs) \in 1..MaxH
  /\ \A i \in 1..Len(c.hs) : c.hs[i].a \in BOOLEAN /\ c.hs[i].mut \in MutKinds
  /\ c.top \in {"async", "clone"} => Len(c.hs) = 1 /\ ~c.hs[1].a

TInit == \E t \in 1..Len(TraceLog) :
  /\ tid = t /\ l = 1 /\ mis = <<>>
  /\ ValidCase(TraceLog[t].cs)
  /\ InitCase([top |-> TraceLog[t].cs.top, hs |-> TraceLog[t].cs.hs, pay |-> TraceLog[t].cs.pay, mode |-> TraceLog[t].cs.mode])

Note(m) == mis' = IF mis = <<>> THEN <<m>> ELSE mis

\* the caller's messages as recorded with the event, against the model AFTER the step
CallerCheck ==
  IF Len(Ev.cv) = Len(cm) /\ \A k \in 1..Len(cm) : Ev.cv[k] = View(msgs', bufs', cm[k])
  THEN mis' = mis
  ELSE Note([at |-> l, what |-> "caller", saw |-> Ev.cv, want |-> [k \in 1..Len(cm) |-> View(msgs', bufs', cm[k])]])

HoldersCheck ==
  IF Len(Ev.hv) = Len(held) /\ \A k \in 1..Len(held) : Ev.hv[k] = View(msgs, bufs, held[k].m)
  THEN CallerCheck
  ELSE Note([at |-> l, what |-> "holder", saw |-> Ev.hv, want |-> [k \in 1..Len(held) |-> View(msgs, bufs, held[k].m)]])

Cand == {t \in 1..Len(thr) : thr[t] # <<>> /\ Head(thr[t]).op = "h" /\ Head(thr[t]).i = Ev.h}
Match == {t \in Cand : HandlerSaw(t) = Ev.view}

Consume ==
  /\ l <= Len(Evs)
  /\ l' = l + 1
  /\ CASE Ev.e = "call" -> Call /\ Head(thr[1]).r = Ev.r /\ mis' = mis
       [] Ev.e = "ret"  -> Ret /\ Head(thr[1]).r = Ev.r /\ CallerCheck
       [] Ev.e = "cmut" -> CMut /\ CallerCheck
       [] Ev.e = "fin"  -> Fin /\ HoldersCheck
       [] Ev.e = "h"    -> IF Match # {}
                           THEN \E t \in Match : Handler(t) /\ mis' = mis
                           ELSE \E t \in Cand : Handler(t) /\
                                  Note([at |-> l, what |-> "handler", h |-> Ev.h, saw |-> Ev.view,
                                        want |-> {HandlerSaw(u) : u \in Cand}])
       [] OTHER -> FALSE

Silent ==
  LET t == CHOOSE t \in 1..Len(thr) : InternalEnabled(t) /\ \A u \in 1..(t - 1) : ~InternalEnabled(u)
  IN Internal(t) /\ UNCHANGED <<tid, l, mis>>

TNext == IF AnyInternal THEN Silent ELSE Consume /\ UNCHANGED tid

TSpec == TInit /\ [][TNext]_tvars

\* register tid: [hw |-> highest l reached, ok |-> some path consumed everything without a difference,
\*                mis |-> a first difference (of the first path that had one)]
Mon == LET cur == TLCGet(tid) IN
  TLCSet(tid, [hw |-> IF cur.hw < l THEN l ELSE cur.hw,
               ok |-> cur.ok \/ (l = Len(Evs) + 1 /\ mis = <<>> /\ ~AnyInternal),
               mis |-> IF cur.mis = <<>> THEN mis ELSE cur.mis])

Report ==
  PrintT(<<"REPORT", ToJson([t \in 1..Len(TraceLog) |->
     [id |-> TraceLog[t].id, len |-> Len(TraceLog[t].ev), hw |-> TLCGet(t).hw, ok |-> TLCGet(t).ok, mis |-> TLCGet(t).mis]])>>)

ASSUME \A t \in 1..Len(TraceLog) : TLCSet(t, [hw |-> 0, ok |-> FALSE, mis |-> <<>>])
=============================================================================
