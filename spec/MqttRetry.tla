------------------------------ MODULE MqttRetry ------------------------------
(***************************************************************************)
(* Layer 2: implementation-shaped model of the retrying / reconnecting      *)
(* client (retryclient.go, reconnclient.go, the request exchanges of         *)
(* publish.go / subscribe.go / unsubscribe.go) composed with the broker and  *)
(* the faulty network of Layer 1.  One action per critical section or        *)
(* blocking point of the Go code; Go line references are to the tree the      *)
(* checks are run on.                                                         *)
(*                                                                           *)
(* Constants named Bug... switch a piece of the model between what the code   *)
(* did at the pinned commit (TRUE) and what it does after the corresponding   *)
(* "fix:" commit (FALSE).  The TRUE instances are kept: they document each    *)
(* finding with a TLC counterexample and show the invariants are not vacuous. *)
(***************************************************************************)
EXTENDS Integers, Sequences, FiniteSets, TLC

CONSTANTS
  Workload,         \* sequence of requests: [k |-> "pub", q |-> 0..2] | [k |-> "sub", subs |-> Seq([f, q])] | [k |-> "unsub", fs |-> Seq(f)]
  MaxFaults,        \* fault budget (cuts, drops, dial failures, failed connects)
  MaxGen,           \* max number of dialled clients
  DeliverOnRel,     \* broker QoS 2 receiver method: FALSE deliver on PUBLISH, TRUE deliver on PUBREL
  SessionChoices,   \* subset of BOOLEAN: what "session present" may be on re-connections
  AlwaysResub,      \* option AlwaysResubscribe
  RespTimeout,      \* RetryClient.ResponseTimeout configured (enables silent drops)
  BugRequeueAll,    \* F1: Retry re-queues the whole old queue
  BugStaleSwitch,   \* F8: top-of-loop check re-reads the current chConnSwitch
  BugResubBehind,   \* F9: Resubscribe entries are queued behind pending requests
  BugPubrelDemote,  \* F2: a failed PUBREL write retries from PUBLISH
  BugRetryNoTimeout,\* F6: retransmissions wait without ResponseTimeout
  BugSubDup,        \* F10: subscriptions.applyTo appends duplicates
  BugRetryGoesOn,   \* F19: the Retry pass went on after a deferred request had failed and queued its own retry
  DirectQoS0,       \* option DirectlyPublishQoS0: QoS 0 publishes are written by the caller on the current client
  Handlers,         \* C17: handler identities the application registers in turn (sequence; << >> = none)
  MaxInbound,       \* C17: number of inbound messages the broker sends
  BugHandleAfterConnect,  \* C17 non-vacuity: the handler is attached only after Connect returned
  BugHandleNotForwarded   \* C17 non-vacuity: Handle does not reach the current base client

N == Len(Workload)
Req == 1..N
Gen == 1..MaxGen

VARIABLES
  submitted,     \* number of requests submitted (accepted) so far
  taskQ,         \* RetryClient.taskQueue
  tok,           \* chTask token (capacity 1)
  retryQ,        \* RetryClient.retryQueue
  subEst,        \* RetryClient.subEstablished: seq of [f, q]
  nrbe,          \* RetryClient.newRetryByError
  tg,            \* task goroutine
  gen,           \* generation of the client installed by SetClient (0 none)
  connErr,       \* [Gen -> {"open","err","closed"}] state of chConnectErr of generation g
  bc,            \* [Gen -> [sig, connecting, topen, done]] BaseClient state
  rl,            \* reconnect loop
  faults,        \* faults used
  dialled,       \* number of clients dialled
  bsubs,         \* broker: filter -> qos
  binfl,         \* broker: requests whose QoS 2 id is in flight
  bever,         \* broker: a session exists
  \* observer summaries (finite abstractions of the wire / delivery histories of Layer 1)
  dcnt,          \* [Req -> 0..2] onward deliveries (capped)
  txc,           \* [Req -> 0..2] PUBLISH write attempts (capped)
  txok,          \* set of requests with a PUBLISH / SUBSCRIBE / UNSUBSCRIBE write that was sent
  relok,         \* set of requests whose PUBREL was sent (write returned nil)
  lastPub,       \* [Gen -> 0..N] highest publish request sent on the connection
  firstMax,      \* highest request whose first transmission has happened
  doneReq,       \* requests whose final acknowledgement was observed by the client
  lost,          \* accepted requests dropped by the client
  viol,          \* names of violated wire rules
  lastw,         \* last packet written (for binding to recorded traces)
  hreg,          \* C17: number of Handle calls made; the handler RetryClient.handler holds is Handlers[hreg] (0: nil)
  bh,            \* C17: [Gen -> 0..Len(Handlers)] handler installed on base client g
  inb,           \* C17: number of inbound messages sent so far
  hviol          \* C17: an inbound message reached a handler other than the one registered last (or none)

vars == <<submitted, taskQ, tok, retryQ, subEst, nrbe, tg, gen, connErr, bc, rl, faults, dialled,
          bsubs, binfl, bever, dcnt, txc, txok, relok, lastPub, firstMax, doneReq, lost, viol, lastw, hreg, bh, inb, hviol>>
hvars == <<hreg, bh, inb, hviol>>
cvars == <<submitted, taskQ, tok, retryQ, subEst, nrbe, tg, gen, connErr, bc, rl, faults, dialled>>
bvars == <<bsubs, binfl, bever, dcnt>>
ovars == <<txc, txok, relok, lastPub, firstMax, doneReq, lost, viol, lastw, hreg, bh, inb, hviol>>

\* ---------- helpers ----------
IsPub(i) == Workload[i].k = "pub"
Qos(i) == Workload[i].q
EmptyFn == [x \in {} |-> 0]
Range(s) == {s[i] : i \in 1..Len(s)}
Cap2(n) == IF n > 2 THEN 2 ELSE n

RECURSIVE SubAll(_, _)
SubAll(m, subs) ==
  IF subs = << >> THEN m
  ELSE SubAll([x \in (DOMAIN m) \cup {Head(subs).f} |-> IF x = Head(subs).f THEN Head(subs).q ELSE m[x]], Tail(subs))
UnsubAll(m, fs) == [x \in (DOMAIN m) \ Range(fs) |-> m[x]]

\* net effect of the application's first n requests
RECURSIVE NetSubs(_)
NetSubs(n) ==
  IF n = 0 THEN EmptyFn
  ELSE LET prev == NetSubs(n - 1)  r == Workload[n]
       IN IF r.k = "sub" THEN SubAll(prev, r.subs)
          ELSE IF r.k = "unsub" THEN UnsubAll(prev, r.fs) ELSE prev

\* subscriptions.applyTo (subscriptions.go): replace the entry of the same filter, else append
RECURSIVE ApplySubs(_, _)
ApplySubs(s, subs) ==
  IF subs = << >> THEN s
  ELSE LET e == Head(subs)
           idx == {i \in 1..Len(s) : s[i].f = e.f}
           s2 == IF BugSubDup \/ idx = {} THEN Append(s, e)
                 ELSE [s EXCEPT ![CHOOSE i \in idx : \A j \in idx : i <= j] = e]
       IN ApplySubs(s2, Tail(subs))
\* unsubscriptions.applyTo: remove the first live entry of each listed filter
RemoveFirst(s, f) ==
  LET idx == {i \in 1..Len(s) : s[i].f = f} IN
  IF idx = {} THEN s
  ELSE LET k == CHOOSE i \in idx : \A j \in idx : i <= j
       IN [i \in 1..(Len(s) - 1) |-> IF i < k THEN s[i] ELSE s[i + 1]]
RECURSIVE ApplyUnsubs(_, _)
ApplyUnsubs(s, fs) == IF fs = << >> THEN s ELSE ApplyUnsubs(RemoveFirst(s, Head(fs)), Tail(fs))

\* ---------- initial state ----------
NoEntry == [e |-> "none"]
TGInit == [pc |-> "wait", cli |-> 0, sw |-> 0, task |-> [t |-> "none"], all |-> << >>, rest |-> << >>,
           pend |-> << >>, stash |-> << >>, cur |-> NoEntry, st |-> "none"]
RLInit == [pc |-> "dial", g |-> 0, init |-> FALSE, sp |-> FALSE]

Init ==
  /\ submitted = 0 /\ taskQ = << >> /\ tok = FALSE /\ retryQ = << >> /\ subEst = << >>
  /\ nrbe = FALSE /\ tg = TGInit /\ gen = 0
  /\ connErr = [g \in Gen |-> "open"]
  /\ bc = [g \in Gen |-> [sig |-> FALSE, connecting |-> FALSE, topen |-> FALSE, done |-> FALSE]]
  /\ rl = RLInit /\ faults = 0 /\ dialled = 0
  /\ bsubs = EmptyFn /\ binfl = {} /\ bever = FALSE /\ dcnt = [r \in Req |-> 0]
  /\ txc = [r \in Req |-> 0] /\ txok = {} /\ relok = {} /\ lastPub = [g \in Gen |-> 0] /\ firstMax = 0
  /\ doneReq = {} /\ lost = {} /\ viol = {} /\ lastw = [p |-> "none"]
  /\ hreg = 0 /\ bh = [g \in Gen |-> 0] /\ inb = 0 /\ hviol = FALSE

\* ---------- application: RetryClient.Publish / Subscribe / Unsubscribe -> pushTask (retryclient.go:377) ----------
IsDirect(r) == DirectQoS0 /\ IsPub(r) /\ Qos(r) = 0
Submit ==
  /\ submitted < N /\ ~IsDirect(submitted + 1)
  /\ submitted' = submitted + 1
  /\ taskQ' = Append(taskQ, [t |-> "req", r |-> submitted + 1])
  /\ tok' = (tok \/ gen > 0)      \* chTask is nil before the first SetClient: the send falls to default
  /\ UNCHANGED <<retryQ, subEst, nrbe, tg, gen, connErr, bc, rl, faults, dialled>>
  /\ UNCHANGED bvars /\ UNCHANGED ovars

\* ---------- reconnect loop (reconnclient.go:81-165) ----------
RLDialOk ==
  /\ rl.pc = "dial" /\ dialled < MaxGen
  /\ dialled' = dialled + 1
  /\ bc' = [bc EXCEPT ![dialled + 1].topen = TRUE]
  /\ rl' = [rl EXCEPT !.pc = "setclient", !.g = dialled + 1]
  /\ UNCHANGED <<submitted, taskQ, tok, retryQ, subEst, nrbe, tg, gen, connErr, faults>>
  /\ UNCHANGED bvars /\ UNCHANGED ovars

RLDialFail ==
  /\ rl.pc = "dial" /\ faults < MaxFaults
  /\ faults' = faults + 1
  /\ UNCHANGED <<submitted, taskQ, tok, retryQ, subEst, nrbe, tg, gen, connErr, bc, rl, dialled>>
  /\ UNCHANGED bvars /\ UNCHANGED ovars

\* RetryClient.SetClient (retryclient.go:276-291), under c.mu; starts the task goroutine the first time
RLSetClient ==
  /\ rl.pc = "setclient"
  /\ gen' = rl.g
  /\ rl' = [rl EXCEPT !.pc = "connect"]
  /\ UNCHANGED <<submitted, taskQ, tok, retryQ, subEst, nrbe, tg, connErr, bc, faults, dialled>>
  /\ UNCHANGED bvars /\ UNCHANGED ovars

\* BaseClient.Connect, first part (connect.go:109-118): options, init(), muConnecting.Lock
RLConnectInit ==
  /\ rl.pc = "connect"
  /\ bc' = [bc EXCEPT ![rl.g].sig = TRUE, ![rl.g].connecting = TRUE]
  /\ rl' = [rl EXCEPT !.pc = "connack"]
  \* RetryClient.Connect (retryclient.go): cli.Handle(c.handler) under c.mu, before BaseClient.Connect
  /\ bh' = IF BugHandleAfterConnect THEN bh ELSE [bh EXCEPT ![rl.g] = hreg]
  /\ UNCHANGED <<submitted, taskQ, tok, retryQ, subEst, nrbe, tg, gen, connErr, faults, dialled>>
  /\ UNCHANGED bvars /\ UNCHANGED <<txc, txok, relok, lastPub, firstMax, doneReq, lost, viol, lastw, hreg, inb, hviol>>

\* CONNECT written, broker accepts with session present = sp; RetryClient.Connect closes chConnectErr
RLConnectOk(sp) ==
  /\ rl.pc = "connack" /\ bc[rl.g].topen
  /\ (sp => bever) /\ (bever => sp \in SessionChoices)
  /\ bsubs' = IF sp THEN bsubs ELSE EmptyFn
  /\ binfl' = IF sp THEN binfl ELSE {}
  /\ bever' = TRUE
  /\ bc' = [bc EXCEPT ![rl.g].connecting = FALSE]
  /\ connErr' = [connErr EXCEPT ![rl.g] = "closed"]
  /\ rl' = [rl EXCEPT !.pc = "post", !.sp = sp]
  /\ lastw' = [p |-> "CONNECT", g |-> rl.g, r |-> 0, dup |-> FALSE, ok |-> TRUE]
  /\ UNCHANGED <<submitted, taskQ, tok, retryQ, subEst, nrbe, tg, gen, faults, dialled, dcnt>>
  /\ UNCHANGED <<txc, txok, relok, lastPub, firstMax, doneReq, lost, viol>>
  /\ bh' = IF BugHandleAfterConnect THEN [bh EXCEPT ![rl.g] = hreg] ELSE bh
  /\ UNCHANGED <<hreg, inb, hviol>>

\* Connect fails (refused or absent CONNACK, cut): error sent on chConnectErr, channel closed;
\* the loop closes the client and waits for Done (reconnclient.go:140-148)
RLConnectFail ==
  /\ rl.pc = "connack" /\ faults < MaxFaults
  /\ faults' = faults + 1
  /\ bc' = [bc EXCEPT ![rl.g].connecting = FALSE, ![rl.g].topen = FALSE, ![rl.g].done = TRUE]
  /\ connErr' = [connErr EXCEPT ![rl.g] = "err"]
  /\ rl' = [rl EXCEPT !.pc = "dial"]
  /\ lastw' = [p |-> "CONNECT", g |-> rl.g, r |-> 0, dup |-> FALSE, ok |-> FALSE]
  /\ UNCHANGED <<submitted, taskQ, tok, retryQ, subEst, nrbe, tg, gen, dialled>>
  /\ UNCHANGED bvars /\ UNCHANGED <<txc, txok, relok, lastPub, firstMax, doneReq, lost, viol>> /\ UNCHANGED hvars

\* the broker accepted the CONNECT (its session state is updated) but the CONNACK was lost with the
\* connection: for the client this is a failed Connect
RLConnectLost(sp) ==
  /\ rl.pc = "connack" /\ bc[rl.g].topen /\ faults < MaxFaults
  /\ sp = bever        \* assumption A6: a session is lost only on a connection whose CONNACK reaches the client
  /\ faults' = faults + 1
  /\ bsubs' = IF sp THEN bsubs ELSE EmptyFn
  /\ binfl' = IF sp THEN binfl ELSE {}
  /\ bever' = TRUE
  /\ bc' = [bc EXCEPT ![rl.g].connecting = FALSE, ![rl.g].topen = FALSE, ![rl.g].done = TRUE]
  /\ connErr' = [connErr EXCEPT ![rl.g] = "err"]
  /\ rl' = [rl EXCEPT !.pc = "dial"]
  /\ lastw' = [p |-> "CONNECT", g |-> rl.g, r |-> 0, dup |-> FALSE, ok |-> TRUE]
  /\ UNCHANGED <<submitted, taskQ, tok, retryQ, subEst, nrbe, tg, gen, dialled, dcnt>>
  /\ UNCHANGED <<txc, txok, relok, lastPub, firstMax, doneReq, lost, viol>> /\ UNCHANGED hvars

\* after a successful Connect: Resubscribe (if due), Retry (reconnclient.go:103-107)
RLPost ==
  /\ rl.pc = "post"
  /\ LET resub == rl.init /\ (~rl.sp \/ AlwaysResub)
         t1 == IF resub THEN <<[t |-> "resub"]>> ELSE << >>
     IN taskQ' = taskQ \o t1 \o <<[t |-> "retry"]>>
  /\ tok' = TRUE
  /\ rl' = [rl EXCEPT !.pc = "up", !.init = TRUE]
  /\ UNCHANGED <<submitted, retryQ, subEst, nrbe, tg, gen, connErr, bc, faults, dialled>>
  /\ UNCHANGED bvars /\ UNCHANGED ovars

\* the connection went down (Done closed with an error): back to dialling
RLDown ==
  /\ rl.pc = "up" /\ bc[rl.g].done
  /\ rl' = [rl EXCEPT !.pc = "dial"]
  /\ UNCHANGED <<submitted, taskQ, tok, retryQ, subEst, nrbe, tg, gen, connErr, bc, faults, dialled>>
  /\ UNCHANGED bvars /\ UNCHANGED ovars

\* ---------- environment ----------
\* the peer closes an established, idle connection
PeerClose(g) ==
  /\ bc[g].topen /\ ~bc[g].connecting /\ bc[g].sig /\ faults < MaxFaults
  /\ tg.st \notin {"waitpub", "waitrel"}      \* assumption A1: not while an acknowledgement is in flight
  /\ faults' = faults + 1
  /\ bc' = [bc EXCEPT ![g].topen = FALSE]
  /\ UNCHANGED <<submitted, taskQ, tok, retryQ, subEst, nrbe, tg, gen, connErr, rl, dialled>>
  /\ UNCHANGED bvars /\ UNCHANGED ovars

\* the reader goroutine notices the closed transport and finishes: Done() closed (connect.go:120-132)
ServeExit(g) ==
  /\ bc[g].sig /\ ~bc[g].topen /\ ~bc[g].done
  /\ bc' = [bc EXCEPT ![g].done = TRUE]
  /\ UNCHANGED <<submitted, taskQ, tok, retryQ, subEst, nrbe, tg, gen, connErr, rl, faults, dialled>>
  /\ UNCHANGED bvars /\ UNCHANGED ovars

\* ---------- task goroutine (retryclient.go:295-362) ----------
\* wait for Connect of the current client (302-318).  An error value is received first, then the
\* closed channel: the goroutine becomes "connected" also on a client whose Connect failed.
TGWait ==
  /\ tg.pc = "wait" /\ gen > 0
  /\ \/ /\ connErr[gen] = "err"
        /\ connErr' = [connErr EXCEPT ![gen] = "closed"]
        /\ UNCHANGED tg
     \/ /\ connErr[gen] = "closed"
        /\ tg' = [tg EXCEPT !.pc = "top", !.sw = gen]
        /\ UNCHANGED connErr
  /\ UNCHANGED <<submitted, taskQ, tok, retryQ, subEst, nrbe, gen, bc, rl, faults, dialled>>
  /\ UNCHANGED bvars /\ UNCHANGED ovars

\* top of the loop, under c.mu (322-348)
TGTop ==
  /\ tg.pc = "top"
  /\ IF ~BugStaleSwitch /\ tg.sw # gen
     THEN /\ tg' = [tg EXCEPT !.pc = "wait"] /\ UNCHANGED taskQ
     ELSE IF taskQ = << >>
          THEN /\ tg' = [tg EXCEPT !.pc = "idle", !.sw = IF BugStaleSwitch THEN gen ELSE tg.sw]
               /\ UNCHANGED taskQ
          ELSE /\ tg' = [tg EXCEPT !.pc = "run", !.cli = gen, !.task = Head(taskQ), !.st = "start"]
               /\ taskQ' = Tail(taskQ)
  /\ UNCHANGED <<submitted, tok, retryQ, subEst, nrbe, gen, connErr, bc, rl, faults, dialled>>
  /\ UNCHANGED bvars /\ UNCHANGED ovars

\* idle: wait for a task token or for the switch captured at the top (333-343)
TGIdle ==
  /\ tg.pc = "idle"
  /\ \/ /\ tok /\ tok' = FALSE /\ tg' = [tg EXCEPT !.pc = "top"]
     \/ /\ tg.sw # gen /\ tg' = [tg EXCEPT !.pc = "wait"] /\ UNCHANGED tok
  /\ UNCHANGED <<submitted, taskQ, retryQ, subEst, nrbe, gen, connErr, bc, rl, faults, dialled>>
  /\ UNCHANGED bvars /\ UNCHANGED ovars

\* after a task (355-361): newRetryByError => close the client, wait for the next Connect
TGAfter ==
  /\ tg.pc = "after"
  /\ IF nrbe
     THEN /\ bc' = [bc EXCEPT ![tg.cli].topen = FALSE]
          /\ tg' = [tg EXCEPT !.pc = "wait", !.task = [t |-> "none"], !.cur = NoEntry]
          /\ nrbe' = FALSE
     ELSE /\ tg' = [tg EXCEPT !.pc = "top", !.task = [t |-> "none"], !.cur = NoEntry]
          /\ UNCHANGED <<bc, nrbe>>
  /\ UNCHANGED <<submitted, taskQ, tok, retryQ, subEst, gen, connErr, rl, faults, dialled>>
  /\ UNCHANGED bvars /\ UNCHANGED ovars

\* --- request execution.  tg.cur is the retry-queue entry / request being executed, tg.st its stage.
\*   [e |-> "req", r]            the closure of request r (first transmission)
\*   [e |-> "raw", r, stage]     ErrorWithRetry closure of an interrupted exchange ("pub" | "rel" | "sub" | "unsub")
\*   [e |-> "resub", f, q]       re-subscribe closure created by Resubscribe
\*   [e |-> "rawresub", f, q]    its ErrorWithRetry closure
IsResubE(cur) == cur.e \in {"resub", "rawresub"}
PktOf(cur, st) ==
  IF IsResubE(cur) THEN "SUBSCRIBE"
  ELSE IF st = "rel" THEN "PUBREL"
  ELSE IF IsPub(cur.r) THEN "PUBLISH"
  ELSE IF Workload[cur.r].k = "sub" THEN "SUBSCRIBE" ELSE "UNSUBSCRIBE"
StageName(cur, st) ==
  IF st \in {"rel", "waitrel"} THEN "rel"
  ELSE IF IsResubE(cur) THEN "sub"
  ELSE IF IsPub(cur.r) THEN "pub" ELSE Workload[cur.r].k
IsDup(cur, st) == cur.e = "raw" /\ st # "rel" /\ IsPub(cur.r)

\* broker processing of the current packet (Layer 1 rules)
BrokerProcess(cur, st) ==
  IF IsResubE(cur)
  THEN /\ bsubs' = SubAll(bsubs, <<[f |-> cur.f, q |-> cur.q]>>)
       /\ UNCHANGED <<binfl, bever, dcnt>>
  ELSE LET r == cur.r IN
    IF st = "rel"
    THEN /\ binfl' = binfl \ {r}
         /\ dcnt' = IF DeliverOnRel /\ r \in binfl THEN [dcnt EXCEPT ![r] = Cap2(@ + 1)] ELSE dcnt
         /\ UNCHANGED <<bsubs, bever>>
    ELSE IF IsPub(r)
    THEN IF Qos(r) = 2
         THEN /\ binfl' = binfl \cup {r}
              /\ dcnt' = IF ~DeliverOnRel /\ r \notin binfl THEN [dcnt EXCEPT ![r] = Cap2(@ + 1)] ELSE dcnt
              /\ UNCHANGED <<bsubs, bever>>
         ELSE /\ dcnt' = [dcnt EXCEPT ![r] = Cap2(@ + 1)]
              /\ UNCHANGED <<bsubs, binfl, bever>>
    ELSE IF Workload[r].k = "sub"
    THEN /\ bsubs' = SubAll(bsubs, Workload[r].subs) /\ UNCHANGED <<binfl, bever, dcnt>>
    ELSE /\ bsubs' = UnsubAll(bsubs, Workload[r].fs) /\ UNCHANGED <<binfl, bever, dcnt>>

\* observer summaries updated by a write attempt of the current packet (sent = Write returned nil)
Observe(cur, st, g, sent) ==
  LET pk == PktOf(cur, st)
      r == IF IsResubE(cur) THEN 0 ELSE cur.r
      dup == IsDup(cur, st)
      isPubPkt == pk = "PUBLISH"
      firstTx == r > 0 /\ pk # "PUBREL" /\ sent /\ r \notin txok
      v1 == IF isPubPkt /\ (dup /\ txc[r] = 0) THEN {"DupWithoutEarlierTx"} ELSE {}
      v2 == IF isPubPkt /\ ~dup /\ r \in txok THEN {"RetxWithoutDup"} ELSE {}
      v3 == IF isPubPkt /\ r \in relok THEN {"PubAfterRel"} ELSE {}
      v4 == IF r > 0 /\ r \in doneReq THEN {"TxAfterDone"} ELSE {}
      direct == r > 0 /\ IsDirect(r)        \* the order clauses are about the default (queued) mode
      v5 == IF isPubPkt /\ sent /\ ~direct /\ r < lastPub[g] THEN {"OrderPerConn"} ELSE {}
      v6 == IF firstTx /\ ~direct /\ r < firstMax THEN {"FirstTxOrder"} ELSE {}
      v7 == IF isPubPkt /\ Qos(r) = 0 /\ r \in txok THEN {"QoS0Retx"} ELSE {}
  IN /\ viol' = viol \cup v1 \cup v2 \cup v3 \cup v4 \cup v5 \cup v6 \cup v7
     /\ txc' = IF isPubPkt THEN [txc EXCEPT ![r] = Cap2(@ + 1)] ELSE txc
     /\ txok' = IF r > 0 /\ pk # "PUBREL" /\ sent THEN txok \cup {r} ELSE txok
     /\ relok' = IF pk = "PUBREL" /\ sent THEN relok \cup {r} ELSE relok
     /\ lastPub' = IF isPubPkt /\ sent /\ ~direct /\ r > lastPub[g] THEN [lastPub EXCEPT ![g] = r] ELSE lastPub
     /\ firstMax' = IF firstTx /\ ~direct /\ r > firstMax THEN r ELSE firstMax
     /\ lastw' = [p |-> pk, g |-> g, r |-> r, dup |-> dup, ok |-> sent]

\* DirectlyPublishQoS0 (retryclient.go:108-110): the application's goroutine hands a QoS 0 message to the CURRENT
\* base client and returns its error; nothing is queued, nothing is retried.  (Before the first SetClient the code
\* dereferences a nil client: not a step of this model.)
SubmitDirect(o) ==
  /\ submitted < N /\ IsDirect(submitted + 1) /\ gen > 0
  /\ ~bc[gen].connecting                        \* publishImpl takes muConnecting.RLock
  /\ submitted' = submitted + 1
  /\ LET r == submitted + 1
         g == gen
         cur == [e |-> "req", r |-> r] IN
     IF ~bc[g].sig
     THEN /\ o = "ok"                          \* ErrNotConnected goes back to the caller; nothing is written
          /\ UNCHANGED <<bc, faults>> /\ UNCHANGED bvars
          /\ UNCHANGED <<txc, txok, relok, lastPub, firstMax, viol, lastw>>
     ELSE IF ~bc[g].topen
     THEN /\ o = "closed" /\ Observe(cur, "pub", g, FALSE)
          /\ UNCHANGED <<bc, faults>> /\ UNCHANGED bvars
     ELSE \/ /\ o = "ok" /\ Observe(cur, "pub", g, TRUE) /\ BrokerProcess(cur, "pub") /\ UNCHANGED <<bc, faults>>
          \/ /\ o = "cutBefore" /\ faults < MaxFaults /\ faults' = faults + 1
             /\ Observe(cur, "pub", g, FALSE) /\ bc' = [bc EXCEPT ![g].topen = FALSE] /\ UNCHANGED bvars
          \/ /\ o = "cutAfter" /\ faults < MaxFaults /\ faults' = faults + 1
             /\ Observe(cur, "pub", g, TRUE) /\ BrokerProcess(cur, "pub") /\ bc' = [bc EXCEPT ![g].topen = FALSE]
  /\ UNCHANGED <<taskQ, tok, retryQ, subEst, nrbe, tg, gen, connErr, rl, dialled, doneReq, lost>> /\ UNCHANGED hvars

\* how an exchange ends.  "ok": completed.  "retry": ErrorWithRetry with continuation `stage`.
\* "plain": a plain error (ErrNotConnected, failed QoS 0 write): the request is dropped.
Finish(result, stage) ==
  LET cur == tg.cur
      isRaw == cur.e \in {"raw", "rawresub"}
      contTg == IF tg.task.t = "retry" THEN [tg EXCEPT !.st = "next"]
                ELSE IF tg.task.t = "resub" THEN [tg EXCEPT !.st = "rnext"]
                ELSE [tg EXCEPT !.pc = "after", !.st = "none"]
  IN
  CASE result = "ok" ->
         /\ doneReq' = IF IsResubE(cur) THEN doneReq ELSE doneReq \cup {cur.r}
         /\ tg' = contTg
         /\ UNCHANGED <<lost, nrbe, retryQ>>
    [] result = "plain" ->
         /\ lost' = IF ~IsResubE(cur) /\ (~IsPub(cur.r) \/ Qos(cur.r) > 0) THEN lost \cup {cur.r} ELSE lost
         /\ tg' = contTg
         /\ UNCHANGED <<doneReq, nrbe, retryQ>>
    [] result = "retry" ->
         LET cont == IF IsResubE(cur) THEN [e |-> "rawresub", f |-> cur.f, q |-> cur.q]
                     ELSE [e |-> "raw", r |-> cur.r, stage |-> stage] IN
         /\ UNCHANGED <<doneReq, lost>>
         /\ IF tg.task.t = "retry" /\ isRaw
            THEN \* the Retry loop sees ErrorWithRetry: re-queue continuation and the rest, break (retryclient.go:455-463)
                 /\ retryQ' = retryQ \o <<cont>> \o (IF BugRequeueAll THEN tg.all ELSE tg.rest)
                 /\ tg' = [tg EXCEPT !.pc = "after", !.st = "none"]
                 /\ nrbe' = IF BugRetryNoTimeout THEN nrbe ELSE TRUE
            ELSE IF tg.task.t = "retry" /\ ~BugRetryGoesOn
            THEN \* a deferred request of the Retry pass failed and queued its own retry: the following requests stay
                 \* behind it, break (fix F19).  With BugRetryGoesOn the loop went on (the code before the fix): with a
                 \* response timeout the later requests overtook the failed one on the still open connection.
                 /\ retryQ' = retryQ \o <<cont>> \o tg.rest
                 /\ nrbe' = TRUE
                 /\ tg' = [tg EXCEPT !.pc = "after", !.st = "none"]
            ELSE \* the request closure handles it itself: append + newRetryByError
                 /\ retryQ' = Append(retryQ, cont)
                 /\ nrbe' = TRUE
                 /\ tg' = contTg

\* start executing the popped task
TGRunStart ==
  /\ tg.pc = "run" /\ tg.st = "start"
  /\ CASE tg.task.t = "req" ->
            LET r == tg.task.r IN
            IF retryQ # << >>
            THEN \* defer behind pending entries; a QoS 0 publish is dropped (retryclient.go:163-175)
                 /\ retryQ' = IF IsPub(r) /\ Qos(r) = 0 THEN retryQ ELSE Append(retryQ, [e |-> "req", r |-> r])
                 /\ tg' = [tg EXCEPT !.pc = "after", !.st = "none"]
                 /\ UNCHANGED subEst
            ELSE /\ tg' = [tg EXCEPT !.cur = [e |-> "req", r |-> r], !.st = "begin"]
                 /\ UNCHANGED <<retryQ, subEst>>
       [] tg.task.t = "retry" ->
            \* Retry (retryclient.go:447-467): snapshot and clear the queue
            /\ tg' = [tg EXCEPT !.all = retryQ, !.rest = retryQ, !.st = "next"]
            /\ retryQ' = << >>
            /\ UNCHANGED subEst
       [] tg.task.t = "resub" ->
            \* Resubscribe (retryclient.go:427-444): snapshot and clear subEstablished; re-issue each entry
            LET entries == [i \in 1..Len(subEst) |-> [e |-> "resub", f |-> subEst[i].f, q |-> subEst[i].q]] IN
            /\ subEst' = << >>
            /\ IF BugResubBehind
               THEN /\ tg' = [tg EXCEPT !.pend = entries, !.stash = << >>, !.st = "rnext"] /\ UNCHANGED retryQ
               ELSE /\ tg' = [tg EXCEPT !.pend = entries, !.stash = retryQ, !.st = "rnext"] /\ retryQ' = << >>
  /\ UNCHANGED <<submitted, taskQ, tok, nrbe, gen, connErr, bc, rl, faults, dialled>>
  /\ UNCHANGED bvars /\ UNCHANGED ovars

\* Retry pass: next entry
TGRetryNext ==
  /\ tg.pc = "run" /\ tg.task.t = "retry" /\ tg.st = "next"
  /\ IF tg.rest = << >>
     THEN tg' = [tg EXCEPT !.pc = "after", !.st = "none", !.all = << >>]
     ELSE tg' = [tg EXCEPT !.cur = Head(tg.rest), !.rest = Tail(tg.rest), !.st = "begin"]
  /\ UNCHANGED <<submitted, taskQ, tok, retryQ, subEst, nrbe, gen, connErr, bc, rl, faults, dialled>>
  /\ UNCHANGED bvars /\ UNCHANGED ovars

\* Resubscribe loop: next established subscription; deferred if something is queued (retryclient.go:202-207)
TGResubNext ==
  /\ tg.pc = "run" /\ tg.task.t = "resub" /\ tg.st = "rnext"
  /\ IF tg.pend = << >>
     THEN /\ tg' = [tg EXCEPT !.pc = "after", !.st = "none", !.stash = << >>]
          /\ retryQ' = retryQ \o tg.stash
     ELSE IF retryQ # << >>
     THEN /\ retryQ' = Append(retryQ, Head(tg.pend))
          /\ tg' = [tg EXCEPT !.pend = Tail(tg.pend)]
     ELSE /\ tg' = [tg EXCEPT !.cur = Head(tg.pend), !.pend = Tail(tg.pend), !.st = "begin"]
          /\ UNCHANGED retryQ
  /\ UNCHANGED <<submitted, taskQ, tok, subEst, nrbe, gen, connErr, bc, rl, faults, dialled>>
  /\ UNCHANGED bvars /\ UNCHANGED ovars

\* begin an exchange on client tg.cli: applyTo bookkeeping, muConnecting.RLock, signaller check
\* (publish.go:133-146, subscribe.go:69-78, unsubscribe.go:45-54)
TGBegin ==
  /\ tg.pc = "run" /\ tg.st = "begin"
  /\ ~bc[tg.cli].connecting                      \* blocked while Connect holds muConnecting
  /\ LET cur == tg.cur IN
     /\ subEst' = CASE cur.e = "resub" -> ApplySubs(subEst, <<[f |-> cur.f, q |-> cur.q]>>)
                    [] cur.e = "req" /\ Workload[cur.r].k = "sub" -> ApplySubs(subEst, Workload[cur.r].subs)
                    [] cur.e = "req" /\ Workload[cur.r].k = "unsub" -> ApplyUnsubs(subEst, Workload[cur.r].fs)
                    [] OTHER -> subEst
     /\ IF ~bc[tg.cli].sig
        THEN Finish("plain", "none")             \* ErrNotConnected
        ELSE /\ tg' = [tg EXCEPT !.st = IF cur.e = "raw" /\ cur.stage = "rel" THEN "rel" ELSE "pub"]
             /\ UNCHANGED <<retryQ, nrbe, doneReq, lost>>
  /\ UNCHANGED <<submitted, taskQ, tok, gen, connErr, bc, rl, faults, dialled>>
  /\ UNCHANGED bvars /\ UNCHANGED <<txc, txok, relok, lastPub, firstMax, viol, lastw>> /\ UNCHANGED hvars

\* is the wait of the current exchange bounded by ResponseTimeout?
Armed == RespTimeout /\ ~(BugRetryNoTimeout /\ tg.task.t = "retry" /\ tg.cur.e \in {"raw", "rawresub"})

\* write the packet of the current stage; the environment picks the outcome
TGWrite(o) ==
  /\ tg.pc = "run" /\ tg.st \in {"pub", "rel"}
  /\ LET cur == tg.cur
         st == tg.st
         g == tg.cli
         qos0 == ~IsResubE(cur) /\ IsPub(cur.r) /\ Qos(cur.r) = 0
         failStage == IF st = "rel" /\ BugPubrelDemote THEN "pub" ELSE StageName(cur, st)
         isQ2Pub == st = "pub" /\ ~IsResubE(cur) /\ IsPub(cur.r) /\ Qos(cur.r) = 2
     IN
     IF ~bc[g].topen
     THEN /\ o = "closed"
          /\ Observe(cur, st, g, FALSE)
          /\ IF qos0 THEN Finish("plain", "none") ELSE Finish("retry", failStage)
          /\ UNCHANGED <<bc, faults>> /\ UNCHANGED bvars
     ELSE
       \/ /\ o = "ok"                               \* delivered, processed, acknowledgement consumed
          /\ Observe(cur, st, g, TRUE)
          /\ BrokerProcess(cur, st)
          /\ IF isQ2Pub
             THEN /\ tg' = [tg EXCEPT !.st = "rel"] /\ UNCHANGED <<retryQ, nrbe, doneReq, lost>>
             ELSE Finish("ok", "none")
          /\ UNCHANGED <<bc, faults>>
       \/ /\ o = "cutBefore"                        \* connection cut, packet not processed: write error
          /\ faults < MaxFaults /\ faults' = faults + 1
          /\ Observe(cur, st, g, FALSE)
          /\ bc' = [bc EXCEPT ![g].topen = FALSE]
          /\ IF qos0 THEN Finish("plain", "none") ELSE Finish("retry", failStage)
          /\ UNCHANGED bvars
       \/ /\ o = "cutAfter"                         \* processed, acknowledgement lost with the connection
          /\ faults < MaxFaults /\ faults' = faults + 1
          /\ Observe(cur, st, g, TRUE)
          /\ BrokerProcess(cur, st)
          /\ bc' = [bc EXCEPT ![g].topen = FALSE]
          /\ IF qos0 THEN Finish("ok", "none")
             ELSE /\ tg' = [tg EXCEPT !.st = IF st = "rel" THEN "waitrel" ELSE "waitpub"]
                  /\ UNCHANGED <<retryQ, nrbe, doneReq, lost>>
       \/ /\ o = "dropReq" /\ RespTimeout /\ ~qos0   \* swallowed silently, connection stays open
          /\ faults < MaxFaults /\ faults' = faults + 1
          /\ Observe(cur, st, g, TRUE)
          /\ tg' = [tg EXCEPT !.st = IF st = "rel" THEN "waitrel" ELSE "waitpub"]
          /\ UNCHANGED <<retryQ, nrbe, doneReq, lost, bc>> /\ UNCHANGED bvars
       \/ /\ o = "dropAck" /\ RespTimeout /\ ~qos0   \* processed, acknowledgement swallowed
          /\ faults < MaxFaults /\ faults' = faults + 1
          /\ Observe(cur, st, g, TRUE)
          /\ BrokerProcess(cur, st)
          /\ tg' = [tg EXCEPT !.st = IF st = "rel" THEN "waitrel" ELSE "waitpub"]
          /\ UNCHANGED <<retryQ, nrbe, doneReq, lost, bc>>
       \* DirectlyPublishQoS0 only, and fed by trace validation only (not in Outcomes): the packet was processed and its
       \* acknowledgement is still unread when ANOTHER writer's packet -- a QoS 0 message written by the caller's goroutine --
       \* ends the connection.  For the client: cutAfter of this request, then a direct write that fails.
       \/ /\ o = "ackPending" /\ DirectQoS0 /\ ~qos0
          /\ Observe(cur, st, g, TRUE)
          /\ BrokerProcess(cur, st)
          /\ tg' = [tg EXCEPT !.st = IF st = "rel" THEN "waitrel" ELSE "waitpub"]
          /\ UNCHANGED <<retryQ, nrbe, doneReq, lost, bc, faults>>
       \/ /\ o = "dropReq" /\ RespTimeout /\ qos0    \* a QoS 0 message swallowed: nobody waits for anything
          /\ faults < MaxFaults /\ faults' = faults + 1
          /\ Observe(cur, st, g, TRUE)
          /\ Finish("ok", "none")
          /\ UNCHANGED bc /\ UNCHANGED bvars
       \/ /\ o = "dropAck" /\ RespTimeout /\ qos0    \* processed; there is no acknowledgement to swallow
          /\ faults < MaxFaults /\ faults' = faults + 1
          /\ Observe(cur, st, g, TRUE)
          /\ BrokerProcess(cur, st)
          /\ Finish("ok", "none")
          /\ UNCHANGED bc
  /\ UNCHANGED <<submitted, taskQ, tok, subEst, gen, connErr, rl, dialled>> /\ UNCHANGED hvars

\* waiting for an acknowledgement that will not come: woken by Done() ...
TGWaitClosed ==
  /\ tg.pc = "run" /\ tg.st \in {"waitpub", "waitrel"}
  /\ bc[tg.cli].done
  /\ Finish("retry", StageName(tg.cur, tg.st))
  /\ UNCHANGED <<submitted, taskQ, tok, subEst, gen, connErr, bc, rl, faults, dialled>>
  /\ UNCHANGED bvars /\ UNCHANGED <<txc, txok, relok, lastPub, firstMax, viol, lastw>> /\ UNCHANGED hvars

\* ... or by the ResponseTimeout context (retryclient.go:364-370), where it is applied
TGTimeout ==
  /\ tg.pc = "run" /\ tg.st \in {"waitpub", "waitrel"}
  /\ bc[tg.cli].topen /\ Armed
  /\ Finish("retry", StageName(tg.cur, tg.st))
  /\ UNCHANGED <<submitted, taskQ, tok, subEst, gen, connErr, bc, rl, faults, dialled>>
  /\ UNCHANGED bvars /\ UNCHANGED <<txc, txok, relok, lastPub, firstMax, viol, lastw>> /\ UNCHANGED hvars

\* ---------- C17: handler registration and inbound messages ----------
\* RetryClient.Handle (retryclient.go:92-99), under c.mu: remember the handler and forward it to the current client
HandleCall ==
  /\ hreg < Len(Handlers)
  /\ hreg' = hreg + 1
  /\ bh' = IF gen > 0 /\ ~BugHandleNotForwarded THEN [bh EXCEPT ![gen] = hreg + 1] ELSE bh
  /\ UNCHANGED <<inb, hviol>>
  /\ UNCHANGED cvars /\ UNCHANGED bvars /\ UNCHANGED <<txc, txok, relok, lastPub, firstMax, doneReq, lost, viol, lastw>>
\* the broker sends an application message on an established connection (any time after the CONNACK, also
\* directly behind it); the reader hands it to the handler installed on that base client
Inbound(g) ==
  /\ inb < MaxInbound
  /\ bc[g].topen /\ bc[g].sig /\ ~bc[g].done
  /\ (connErr[g] = "closed" \/ (rl.g = g /\ rl.pc = "connack"))      \* CONNACK has been sent (Connect may not have returned yet)
  /\ g = gen
  /\ inb' = inb + 1
  \* the statement: the handler registered last receives it (Handle is atomic under c.mu in this model)
  /\ hviol' = (hviol \/ (hreg > 0 /\ bh[g] # hreg))
  /\ UNCHANGED <<hreg, bh>>
  /\ UNCHANGED cvars /\ UNCHANGED bvars /\ UNCHANGED <<txc, txok, relok, lastPub, firstMax, doneReq, lost, viol, lastw>>

Outcomes == {"ok", "closed", "cutBefore", "cutAfter", "dropReq", "dropAck"}

Next ==
  \/ Submit \/ (\E o \in {"ok", "closed", "cutBefore", "cutAfter"} : SubmitDirect(o))
  \/ RLDialOk \/ RLDialFail \/ RLSetClient \/ RLConnectInit
  \/ (\E sp \in BOOLEAN : RLConnectOk(sp) \/ RLConnectLost(sp)) \/ RLConnectFail \/ RLPost \/ RLDown
  \/ (\E g \in Gen : PeerClose(g) \/ ServeExit(g))
  \/ TGWait \/ TGTop \/ TGIdle \/ TGAfter \/ TGRunStart \/ TGRetryNext \/ TGResubNext \/ TGBegin
  \/ (\E o \in Outcomes : TGWrite(o)) \/ TGWaitClosed \/ TGTimeout
  \/ HandleCall \/ (\E g \in Gen : Inbound(g))

\* fairness: everything the client, the loop and the reader do; the environment's faults are not fair
ClientNext ==
  \/ Submit \/ SubmitDirect("ok") \/ SubmitDirect("closed") \/ RLSetClient \/ RLConnectInit \/ RLPost \/ RLDown
  \/ (\E g \in Gen : ServeExit(g))
  \/ TGWait \/ TGTop \/ TGIdle \/ TGAfter \/ TGRunStart \/ TGRetryNext \/ TGResubNext \/ TGBegin
  \/ TGWrite("ok") \/ TGWrite("closed") \/ TGWaitClosed \/ TGTimeout
Spec == Init /\ [][Next]_vars /\ WF_vars(ClientNext) /\ WF_vars(RLDialOk) /\ WF_vars(\E sp \in BOOLEAN : RLConnectOk(sp))

\* ---------- properties ----------
\* C02: never more than one onward delivery of a QoS 2 message (session kept)
NoDupQoS2 == \A r \in Req : (IsPub(r) /\ Qos(r) = 2) => dcnt[r] <= 1
\* C01 (safety half): no accepted QoS>0 publish / subscribe / unsubscribe is dropped
NoLoss == lost = {}
\* C12 / C02 / C03 wire rules, recorded by Observe
DupFlag == viol \cap {"DupWithoutEarlierTx", "RetxWithoutDup"} = {}
NoPubAfterRel == "PubAfterRel" \notin viol
NoTxAfterDone == "TxAfterDone" \notin viol
OrderPerConn == "OrderPerConn" \notin viol
FirstTxOrder == "FirstTxOrder" \notin viol
NoQoS0Retx == "QoS0Retx" \notin viol
\* quiescence: everything submitted, nothing queued or running, connection up
Stable == /\ submitted = N /\ taskQ = << >> /\ tg.pc = "idle" /\ ~tok /\ tg.sw = gen
          /\ rl.pc = "up" /\ bc[rl.g].topen
NeedsAck(r) == ~(IsPub(r) /\ Qos(r) = 0)
StableDone == Stable => (retryQ = << >> /\ \A r \in Req : NeedsAck(r) => r \in doneReq)
DeliveredOnce == Stable => \A r \in Req : (IsPub(r) /\ Qos(r) = 2) => dcnt[r] = 1
StableSubs == Stable => bsubs = NetSubs(N)
\* C18: every wait on an open connection is bounded when ResponseTimeout is configured
WaitArmed == (RespTimeout /\ tg.pc = "run" /\ tg.st \in {"waitpub", "waitrel"}) => Armed
\* C17: every inbound message reaches the handler registered last, on every connection
HandlerFollows == ~hviol
\* liveness (C01, C18): with finitely many faults the client becomes and stays stable
EventuallyStable == <>[]Stable

\* bound for the exhaustive instances: connections
TypeOK == /\ submitted \in 0..N /\ gen \in 0..MaxGen /\ faults \in 0..MaxFaults /\ dialled \in 0..MaxGen
=============================================================================
