SPECIFICATION Spec
CONSTANTS
  Writers = {"a", "b", "r"}
  Chunks = 3
  PacketsPerWriter = 2
  BugNoMutex = FALSE
CHECK_DEADLOCK FALSE
INVARIANTS WholePackets NoInterleaving
