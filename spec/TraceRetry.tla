----------------------------- MODULE TraceRetry -----------------------------
(***************************************************************************)
(* Layer-2 conformance: is a trace recorded from the real reconnecting      *)
(* client a behaviour of the implementation-shaped model MqttRetry?         *)
(* Logged events drive the corresponding model actions (application submit, *)
(* dial result, CONNECT outcome, every packet write with its outcome, peer  *)
(* close); everything the trace does not show (task goroutine bookkeeping,  *)
(* SetClient, the reader noticing a closed transport, ...) is a silent      *)
(* step.  Acceptance by a per-trace high-water mark.  A trace that is not   *)
(* accepted is DRIFT (the model no longer describes the code), never a       *)
(* property violation: the verdicts come from Layer 1 (MqttEnv).             *)
(* All traces of one TLC run share the workload (CONSTANT of MqttRetry).     *)
(***************************************************************************)
EXTENDS MqttRetry, Json, TLCExt

TraceLog == ndJsonDeserialize("l2traces.ndjson")

VARIABLES tid, l
tvars == <<vars, tid, l>>
TL == TraceLog[tid].evs
Ev == TL[l]
Is(e) == l <= Len(TL) /\ TL[l].e = e
Adv == l' = l + 1 /\ UNCHANGED tid

FiltersOf(r) == IF Workload[r].k = "sub" THEN [i \in 1..Len(Workload[r].subs) |-> Workload[r].subs[i].f] ELSE Workload[r].fs

\* the request exists from the moment the API is called (the Submit event is recorded after the call
\* returned, by which time the task goroutine may already have written the packet)
TSubmit == Is("SubmitCall") /\ Submit /\ Adv
\* DirectlyPublishQoS0: the call itself writes the packet (or fails without writing); the request is counted when its
\* PUBLISH is seen, or when the call is seen to return without one
DirectNext == submitted < N /\ IsDirect(submitted + 1)
TDirectCall == Is("SubmitCall") /\ DirectNext /\ Ev.i = submitted + 1 /\ Adv /\ UNCHANGED vars
TDirectWrite ==
  /\ Is("Write") /\ Ev.p = "PUBLISH" /\ DirectNext /\ Ev.tag = submitted + 1 /\ Adv
  /\ SubmitDirect(Ev.o)
  /\ lastw'.p = "PUBLISH" /\ lastw'.g = Ev.g /\ lastw'.ok = Ev.ok /\ lastw'.r = Ev.tag
TDirectRet ==
  /\ Is("Submit") /\ DirectNext /\ Ev.i = submitted + 1 /\ Adv
  /\ IF Ev.res = "not-submitted"
     THEN submitted' = submitted + 1 /\ UNCHANGED <<taskQ, tok, retryQ, subEst, nrbe, tg, gen, connErr, bc, rl, faults, dialled>>
          /\ UNCHANGED bvars /\ UNCHANGED ovars
     ELSE SubmitDirect("ok") /\ ~bc[gen].sig      \* returned without a write: ErrNotConnected
TDialOk == Is("Dial") /\ Ev.res = "ok" /\ RLDialOk /\ Adv
TDialFail == Is("Dial") /\ Ev.res = "fail" /\ RLDialFail /\ Adv
TConnect ==
  /\ Is("Write") /\ Ev.p = "CONNECT" /\ Adv
  /\ IF Ev.connack = "accepted" /\ Ev.o = "ok" THEN RLConnectOk(Ev.sp)
     ELSE IF Ev.connack = "accepted" /\ Ev.o \in {"cutAfter", "dropAck"} THEN RLConnectLost(Ev.sp)
     ELSE RLConnectFail
TWrite ==
  /\ Is("Write") /\ Ev.p \in {"PUBLISH", "PUBREL", "SUBSCRIBE", "UNSUBSCRIBE"} /\ Adv
  /\ ~(Ev.p = "PUBLISH" /\ IsDirect(Ev.tag))
  /\ TGWrite(Ev.o)
  /\ lastw'.p = Ev.p /\ lastw'.g = Ev.g /\ lastw'.ok = Ev.ok
  /\ (Ev.p = "PUBLISH" => (lastw'.r = Ev.tag /\ lastw'.dup = Ev.dup))
  /\ (Ev.p = "PUBREL" => lastw'.r = Ev.rtag)
  /\ (Ev.p \in {"SUBSCRIBE", "UNSUBSCRIBE"} =>
        IF lastw'.r > 0 THEN FiltersOf(lastw'.r) = Ev.fs ELSE <<tg.cur.f>> = Ev.fs)
\* C17: Handle calls and the broker's application messages
THandle == Is("Handle") /\ Ev.phase = "call" /\ HandleCall /\ Adv
TInbound == Is("Send") /\ Ev.p = "PUBLISH" /\ MaxInbound > 0 /\ Inbound(Ev.g) /\ Adv
TPeerClose == Is("Close") /\ Ev.by = "peer" /\ PeerClose(Ev.g) /\ Adv
\* closes by the plan (inside a write) and by the client itself are part of the write / TGAfter actions
TSkip == /\ l <= Len(TL)
         /\ \/ TL[l].e \in {"Call", "Ret", "ConnOpt", "ConnState", "OnError", "Read", "Idle", "Sample", "Handled"}
            \/ (TL[l].e = "Send" /\ ~(TL[l].p = "PUBLISH" /\ MaxInbound > 0))
            \/ (TL[l].e = "Handle" /\ TL[l].phase = "ret")
            \/ (TL[l].e = "Submit" /\ ~(DirectNext /\ TL[l].i = submitted + 1))
            \/ (TL[l].e = "Close" /\ TL[l].by # "peer")
            \/ (TL[l].e = "Dial" /\ TL[l].res = "ctx")
         /\ Adv /\ UNCHANGED vars
Silent == /\ UNCHANGED <<tid, l>> /\ l <= Len(TL)
          /\ \/ RLSetClient \/ RLConnectInit \/ RLPost \/ RLDown
             \/ (\E g \in Gen : ServeExit(g))
             \/ TGWait \/ TGTop \/ TGIdle \/ TGAfter \/ TGRunStart \/ TGRetryNext \/ TGResubNext \/ TGBegin
             \/ TGWaitClosed \/ TGTimeout
TNext == TSubmit \/ THandle \/ TInbound \/ TDirectCall \/ TDirectWrite \/ TDirectRet \/ TDialOk \/ TDialFail \/ TConnect \/ TWrite \/ TPeerClose \/ TSkip \/ Silent
TInit == Init /\ tid \in 1..Len(TraceLog) /\ l = 1
TSpec == TInit /\ [][TNext]_tvars

HW == TLCSet(tid, IF TLCGet(tid) < l THEN l ELSE TLCGet(tid))
Report == PrintT(<<"REPORT", ToJson([t \in 1..Len(TraceLog) |-> [id |-> TraceLog[t].id, len |-> Len(TraceLog[t].evs), hw |-> TLCGet(t)]])>>)
ASSUME \A t \in 1..Len(TraceLog) : TLCSet(t, 0)
=============================================================================
