----------------------------- MODULE TraceServe -----------------------------
(* C04, binding: timelines recorded from the real BaseClient (harness family "serve") are checked
   against the reference receiver `Conforms` of module Serve.  No behaviour: TLC evaluates the ASSUME. *)
EXTENDS Serve, Json

Runs == ndJsonDeserialize("serve_traces.ndjson")

Bad == {i \in 1..Len(Runs) : Runs[i].err # "" \/ ~Conforms(Runs[i].tl, Runs[i].handler)}

ASSUME PrintT(<<"REPORT", ToJson([n |-> Len(Runs), bad |-> {Runs[i].id : i \in Bad}])>>)
=============================================================================
