----------------------------- MODULE TraceServe -----------------------------
(* C04, binding: timelines recorded from the real BaseClient (harness family "serve") are checked
   against the reference receiver `Conforms` of module Serve.  No behaviour: TLC evaluates the ASSUME. *)
EXTENDS Serve, Json

Runs == ndJsonDeserialize("serve_traces.ndjson")

\* runs with a scripted write failure (field faulty): the timeline ends with the connection closing; what was consumed
\* before must have been handed over (HandedOver), and up to the failing write the acknowledgements are the usual ones
Bad == {i \in 1..Len(Runs) :
          IF Runs[i].faulty THEN ~HandedOver(Runs[i].tl, Runs[i].handler)
          ELSE Runs[i].err # "" \/ ~Conforms(Runs[i].tl, Runs[i].handler)}

ASSUME PrintT(<<"REPORT", ToJson([n |-> Len(Runs), bad |-> {Runs[i].id : i \in Bad}])>>)
=============================================================================
