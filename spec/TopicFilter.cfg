CONSTANTS
 Phases = {"lemmas", "table", "mux"}
 Depth = 4
 LemmaDepth = 4
 MuxLen = 3
 MuxTopicDepth = 3
