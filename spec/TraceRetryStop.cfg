SPECIFICATION TSpec
CONSTANTS
  Apps = {"a1", "a2", "a3"}
  BugChTaskOutsideLock = FALSE
  BugSendOutsideLock = FALSE
CHECK_DEADLOCK FALSE
CONSTRAINT Mon
INVARIANTS NoRace NoSendOnClosed AcceptedRunBeforeExit FifoRun
POSTCONDITION Report
