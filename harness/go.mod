module verifharness

go 1.18

require github.com/at-wat/mqtt-go v0.0.0

require golang.org/x/net v0.33.0

replace github.com/at-wat/mqtt-go => /repo
