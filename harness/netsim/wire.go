// Package netsim is the simulated world of the verification harness: an in-memory transport
// with fault injection, an MQTT 3.1.1 broker model (the executable twin of spec/MqttEnv.tla),
// a scripted dialer and an event recorder.  It deliberately shares no code with the library
// under test: packets are framed and decoded here independently.
package netsim

import (
	"fmt"
)

// Packet type names (high nibble of the first byte).
var typeNames = map[byte]string{
	0x10: "CONNECT", 0x20: "CONNACK", 0x30: "PUBLISH", 0x40: "PUBACK", 0x50: "PUBREC",
	0x60: "PUBREL", 0x70: "PUBCOMP", 0x80: "SUBSCRIBE", 0x90: "SUBACK", 0xA0: "UNSUBSCRIBE",
	0xB0: "UNSUBACK", 0xC0: "PINGREQ", 0xD0: "PINGRESP", 0xE0: "DISCONNECT",
}

// TypeName returns the MQTT name of a packet type nibble.
func TypeName(t byte) string {
	if s, ok := typeNames[t&0xF0]; ok {
		return s
	}
	return fmt.Sprintf("TYPE%X", t>>4)
}

// Pkt is a decoded control packet.
type Pkt struct {
	Type   byte // high nibble (0x30 ...)
	Flags  byte // low nibble
	Body   []byte
	Raw    []byte
	LenLen int // number of remaining-length bytes used

	// decoded fields (as far as applicable)
	ID      int
	Topic   string
	Payload []byte
	QoS     int
	Dup     bool
	Retain  bool
	Filters []string
	QoSs    []int
	Connect *ConnectFields
	Bad     string // non-empty: the packet is not well-formed MQTT 3.1.1 (reason)
}

// ConnectFields are the decoded fields of a CONNECT packet.
type ConnectFields struct {
	ProtoName    string
	Level        int
	Flags        int
	KeepAlive    int
	ClientID     string
	WillTopic    string
	WillPayload  []byte
	HasWill      bool
	WillQoS      int
	WillRetain   bool
	UserName     string
	HasUser      bool
	Password     string
	HasPass      bool
	CleanSession bool
}

// Name is the packet type name.
func (p *Pkt) Name() string { return TypeName(p.Type) }

// EncodeRemLen encodes n as an MQTT remaining length (MQTT 3.1.1 section 2.2.3).
func EncodeRemLen(n int) []byte {
	var out []byte
	for {
		d := byte(n % 128)
		n /= 128
		if n > 0 {
			d |= 0x80
		}
		out = append(out, d)
		if n == 0 {
			return out
		}
	}
}

// Frame tries to cut one complete packet from the front of buf.
// It returns the packet and the number of bytes consumed, or nil, 0 if more bytes are needed.
// A length field longer than 4 bytes yields a packet with Bad set and consumes everything.
func Frame(buf []byte) (*Pkt, int) {
	if len(buf) < 2 {
		return nil, 0
	}
	l, mult, n := 0, 1, 1
	for {
		if n >= len(buf) {
			return nil, 0
		}
		b := buf[n]
		n++
		l += int(b&0x7F) * mult
		mult *= 128
		if b&0x80 == 0 {
			break
		}
		if n-1 >= 4 {
			return &Pkt{Type: buf[0] & 0xF0, Flags: buf[0] & 0x0F, Raw: append([]byte{}, buf...), Bad: "remaining length longer than 4 bytes"}, len(buf)
		}
	}
	if len(buf) < n+l {
		return nil, 0
	}
	p := &Pkt{Type: buf[0] & 0xF0, Flags: buf[0] & 0x0F, Body: append([]byte{}, buf[n:n+l]...), Raw: append([]byte{}, buf[:n+l]...), LenLen: n - 1}
	p.decode()
	return p, n + l
}

func u16(b []byte) int { return int(b[0])<<8 | int(b[1]) }

func str(b []byte) (string, []byte, bool) {
	if len(b) < 2 {
		return "", nil, false
	}
	n := u16(b)
	if len(b) < 2+n {
		return "", nil, false
	}
	return string(b[2 : 2+n]), b[2+n:], true
}

func (p *Pkt) bad(f string, a ...interface{}) {
	if p.Bad == "" {
		p.Bad = fmt.Sprintf(f, a...)
	}
}

func (p *Pkt) decode() {
	if string(EncodeRemLen(len(p.Body))) != string(p.Raw[1:1+p.LenLen]) {
		p.bad("remaining length not minimally encoded")
	}
	b := p.Body
	switch p.Type {
	case 0x10:
		c := &ConnectFields{}
		p.Connect = c
		if p.Flags != 0 {
			p.bad("CONNECT reserved flags %x", p.Flags)
		}
		var ok bool
		c.ProtoName, b, ok = str(b)
		if !ok || len(b) < 4 {
			p.bad("CONNECT short header")
			return
		}
		c.Level = int(b[0])
		c.Flags = int(b[1])
		c.KeepAlive = u16(b[2:])
		b = b[4:]
		if c.Flags&1 != 0 {
			p.bad("CONNECT reserved flag bit 0 set")
		}
		c.CleanSession = c.Flags&0x02 != 0
		c.HasWill = c.Flags&0x04 != 0
		c.WillQoS = (c.Flags >> 3) & 3
		c.WillRetain = c.Flags&0x20 != 0
		c.HasPass = c.Flags&0x40 != 0
		c.HasUser = c.Flags&0x80 != 0
		if !c.HasWill && (c.WillQoS != 0 || c.WillRetain) {
			p.bad("CONNECT will qos/retain without will flag")
		}
		if c.WillQoS == 3 {
			p.bad("CONNECT will qos 3")
		}
		if c.HasPass && !c.HasUser {
			p.bad("CONNECT password without user name")
		}
		if c.ClientID, b, ok = str(b); !ok {
			p.bad("CONNECT short client id")
			return
		}
		if c.HasWill {
			if c.WillTopic, b, ok = str(b); !ok {
				p.bad("CONNECT short will topic")
				return
			}
			var s string
			if s, b, ok = str(b); !ok {
				p.bad("CONNECT short will payload")
				return
			}
			c.WillPayload = []byte(s)
		}
		if c.HasUser {
			if c.UserName, b, ok = str(b); !ok {
				p.bad("CONNECT short user name")
				return
			}
		}
		if c.HasPass {
			if c.Password, b, ok = str(b); !ok {
				p.bad("CONNECT short password")
				return
			}
		}
		if len(b) != 0 {
			p.bad("CONNECT trailing bytes")
		}
	case 0x30:
		p.Dup = p.Flags&0x08 != 0
		p.QoS = int(p.Flags>>1) & 3
		p.Retain = p.Flags&1 != 0
		if p.QoS == 3 {
			p.bad("PUBLISH qos 3")
			return
		}
		var ok bool
		if p.Topic, b, ok = str(b); !ok {
			p.bad("PUBLISH short topic")
			return
		}
		if p.QoS > 0 {
			if len(b) < 2 {
				p.bad("PUBLISH short id")
				return
			}
			p.ID = u16(b)
			b = b[2:]
			if p.ID == 0 {
				p.bad("PUBLISH id 0")
			}
		} else if p.Dup {
			p.bad("PUBLISH qos0 with DUP")
		}
		p.Payload = b
	case 0x40, 0x50, 0x70, 0xB0:
		if p.Flags != 0 {
			p.bad("%s reserved flags %x", p.Name(), p.Flags)
		}
		if len(b) != 2 {
			p.bad("%s body length %d", p.Name(), len(b))
			return
		}
		p.ID = u16(b)
	case 0x60:
		if p.Flags != 0x02 {
			p.bad("PUBREL flags %x", p.Flags)
		}
		if len(b) != 2 {
			p.bad("PUBREL body length %d", len(b))
			return
		}
		p.ID = u16(b)
	case 0x80:
		if p.Flags != 0x02 {
			p.bad("SUBSCRIBE flags %x", p.Flags)
		}
		if len(b) < 2 {
			p.bad("SUBSCRIBE short")
			return
		}
		p.ID = u16(b)
		b = b[2:]
		if p.ID == 0 {
			p.bad("SUBSCRIBE id 0")
		}
		p.Filters = []string{}
		p.QoSs = []int{}
		for len(b) > 0 {
			var f string
			var ok bool
			if f, b, ok = str(b); !ok || len(b) < 1 {
				p.bad("SUBSCRIBE short filter")
				return
			}
			if b[0] > 2 {
				p.bad("SUBSCRIBE requested qos %d", b[0])
			}
			p.Filters = append(p.Filters, f)
			p.QoSs = append(p.QoSs, int(b[0]))
			b = b[1:]
		}
		if len(p.Filters) == 0 {
			p.bad("SUBSCRIBE without filters")
		}
	case 0xA0:
		if p.Flags != 0x02 {
			p.bad("UNSUBSCRIBE flags %x", p.Flags)
		}
		if len(b) < 2 {
			p.bad("UNSUBSCRIBE short")
			return
		}
		p.ID = u16(b)
		b = b[2:]
		if p.ID == 0 {
			p.bad("UNSUBSCRIBE id 0")
		}
		p.Filters = []string{}
		for len(b) > 0 {
			var f string
			var ok bool
			if f, b, ok = str(b); !ok {
				p.bad("UNSUBSCRIBE short filter")
				return
			}
			p.Filters = append(p.Filters, f)
		}
		if len(p.Filters) == 0 {
			p.bad("UNSUBSCRIBE without filters")
		}
	case 0xC0, 0xE0:
		if p.Flags != 0 || len(b) != 0 {
			p.bad("%s flags/body", p.Name())
		}
	default:
		p.bad("packet type %s is not sent by clients", p.Name())
	}
}

// Packet builders used by the broker side.

func mk(first byte, body ...byte) []byte {
	out := []byte{first}
	out = append(out, EncodeRemLen(len(body))...)
	return append(out, body...)
}

// ConnAck builds a CONNACK.
func ConnAck(sp bool, code byte) []byte {
	var f byte
	if sp {
		f = 1
	}
	return mk(0x20, f, code)
}

// Ack builds PUBACK/PUBREC/PUBCOMP/UNSUBACK (first = 0x40, 0x50, 0x70, 0xB0) or PUBREL (0x62).
func Ack(first byte, id int) []byte { return mk(first, byte(id>>8), byte(id)) }

// SubAck builds a SUBACK.
func SubAck(id int, codes []byte) []byte {
	return mk(0x90, append([]byte{byte(id >> 8), byte(id)}, codes...)...)
}

// PingResp builds a PINGRESP.
func PingResp() []byte { return mk(0xD0) }

// Publish builds a PUBLISH.
func Publish(topic string, payload []byte, qos int, id int, dup, retain bool) []byte {
	first := byte(0x30 | qos<<1)
	if dup {
		first |= 0x08
	}
	if retain {
		first |= 0x01
	}
	body := []byte{byte(len(topic) >> 8), byte(len(topic))}
	body = append(body, topic...)
	if qos > 0 {
		body = append(body, byte(id>>8), byte(id))
	}
	body = append(body, payload...)
	return mk(first, body...)
}
