package netsim

import (
	"context"
	"errors"
	"fmt"
	"io"
	"strconv"
	"strings"
	"sync"
	"time"

	mqtt "github.com/at-wat/mqtt-go"
)

// Event is one trace record.  Keys: "e" (kind), "seq" (global order) plus kind-specific fields.
type Event map[string]interface{}

// Recorder collects events under one mutex with one global sequence number.
type Recorder struct {
	mu     sync.Mutex
	evs    []Event
	last   time.Time
	t0     time.Time
	frozen bool
}

// Freeze stops recording: the trace ends here (a prefix of a run is still a run).
func (r *Recorder) Freeze() {
	r.mu.Lock()
	r.frozen = true
	r.mu.Unlock()
}

// NewRecorder creates a recorder.
func NewRecorder() *Recorder { return &Recorder{last: time.Now(), t0: time.Now()} }

// Emit appends an event and returns its sequence number (1-based).
func (r *Recorder) Emit(e Event) int {
	r.mu.Lock()
	defer r.mu.Unlock()
	if r.frozen {
		return len(r.evs)
	}
	e["seq"] = len(r.evs) + 1
	if _, ok := e["t_us"]; !ok {
		e["t_us"] = time.Since(r.t0).Microseconds()
	}
	r.evs = append(r.evs, e)
	r.last = time.Now()
	return len(r.evs)
}

// Snapshot returns a copy of the events so far.
func (r *Recorder) Snapshot() []Event {
	r.mu.Lock()
	defer r.mu.Unlock()
	return append([]Event{}, r.evs...)
}

// Len returns the number of events.
func (r *Recorder) Len() int {
	r.mu.Lock()
	defer r.mu.Unlock()
	return len(r.evs)
}

// Quiet returns how long no event has been recorded.
func (r *Recorder) Quiet() time.Duration {
	r.mu.Lock()
	defer r.mu.Unlock()
	return time.Since(r.last)
}

// Us returns microseconds since the recorder was created.
func (r *Recorder) Us() int64 { return time.Since(r.t0).Microseconds() }

// FaultRule selects a client->broker request packet and gives the outcome the environment applies.
// Either K (global 1-based index over request packets) or P+N (N-th packet of type P) selects.
type FaultRule struct {
	K int    `json:"k,omitempty"`
	P string `json:"p,omitempty"`
	N int    `json:"n,omitempty"`
	O string `json:"o"` // cutBefore | cutAfter | dropReq | dropAck
	// used marks a rule that has fired.
	used bool
}

// ConnAckPlan is the broker's answer to the CONNECT of the i-th successfully dialled transport.
type ConnAckPlan struct {
	SP     string `json:"sp,omitempty"` // "true" | "false" | "" (auto: session kept after the first accepted connection)
	Code   int    `json:"code,omitempty"`
	Silent bool   `json:"silent,omitempty"`
}

// Inbound is a broker->client application message the broker sends on connection G
// right after the accepting CONNACK (After == 0) or after the client's After-th request packet on G.
type Inbound struct {
	G     int `json:"g"`
	After int `json:"after,omitempty"`
	QoS   int `json:"q"`
	Tag   int `json:"tag"`
	// Dup: the broker marks the message as a re-delivery (as after a session was resumed)
	Dup bool `json:"dup,omitempty"`
}

// Plan is the environment's script.
type Plan struct {
	Writes   []FaultRule   `json:"writes,omitempty"`
	Dials    []string      `json:"dials,omitempty"`    // "ok" | "fail"; default ok
	ConnAcks []ConnAckPlan `json:"connacks,omitempty"` // default accept, auto session
	Inbound  []Inbound     `json:"inbound,omitempty"`
}

// Gate blocks a library goroutine inside netsim code until released by the driver.
type Gate struct {
	reached chan struct{}
	release chan struct{}
	once    sync.Once
	ronce   sync.Once
}

func newGate() *Gate { return &Gate{reached: make(chan struct{}), release: make(chan struct{})} }

// Reached is closed when a goroutine arrived at the gate.
func (g *Gate) Reached() <-chan struct{} { return g.reached }

// Release lets the blocked goroutine continue (idempotent).
func (g *Gate) Release() { g.ronce.Do(func() { close(g.release) }) }

func (g *Gate) arrive() {
	g.once.Do(func() { close(g.reached) })
	<-g.release
}

// World is the environment of one scenario run.
type World struct {
	Rec  *Recorder
	Plan Plan

	DeliverOnRel bool // QoS 2 receiver method B
	AutoRelease  bool // answer the client's PUBREC for inbound QoS 2 messages with PUBREL
	InboundTopic string
	ChunkWrites  bool // C10: observe chunked writes (set per transport)
	NoPingResp   bool // the broker does not answer PINGREQ
	ManualAcks   bool // the broker does not answer PUBLISH / PUBREL / SUBSCRIBE / UNSUBSCRIBE by itself (C07 scripts)
	// GrantCap >= 0: the broker grants at most this QoS in SUBACK (MQTT 3.8.4 allows a lower QoS than requested);
	// its subscription table still records what the client asked for, which is what the observers compare
	GrantCap int
	// GrantCode >= 0: every SUBACK return code is this byte (0x80 = refused; 3, 0x55, ... = bytes no broker should send)
	GrantCode int
	// MaxPayloadLen is set on every BaseClient the world dials (the option of the same name)
	MaxPayloadLen int
	// PromptAcks: Write returns only after the client's reader has consumed the broker's answer to the packet
	// (a very fast broker / a Write that returns late): the acknowledgement is dispatched before the caller goes on
	PromptAcks bool

	mu        sync.Mutex
	conns     []*Transport
	dialN     int
	wcount    int
	typeCount map[string]int
	gates     map[string]*Gate

	// broker session state
	everAccepted bool
	loseNext     bool // the broker has lost the session: the next accepted CONNECT starts a fresh one
	subs         map[string]int
	inflight2    map[int]bool
	stored       map[int]int
	delivered    []int
	nextInID     int

	// OnClientPacket, when set, is called (under the world lock) for every framed client packet
	// after the standard processing; used by special drivers.
	OnClientPacket func(t *Transport, p *Pkt, outcome string)
	// AfterPrompt, when set (with PromptAcks), is called inside Transport.Write after the client's reader has consumed
	// and dispatched the broker's answer to request p, before Write returns
	AfterPrompt func(t *Transport, p *Pkt)
	// OnActive, when set, is called inside the client's ConnState callback when connection g reports Active (i.e. inside
	// BaseClient.Connect, after the CONNACK was accepted and before Connect returns)
	OnActive func(g int)
}

// NewWorld creates a world with the given plan.
func NewWorld(plan Plan) *World {
	return &World{
		Rec: NewRecorder(), Plan: plan, typeCount: map[string]int{}, gates: map[string]*Gate{},
		subs: map[string]int{}, inflight2: map[int]bool{}, stored: map[int]int{}, InboundTopic: "in", nextInID: 100,
		GrantCap: -1, GrantCode: -1,
	}
}

// GateAt registers (or returns) the gate with the given name ("write:K", "dial:N").
func (w *World) GateAt(name string) *Gate {
	w.mu.Lock()
	defer w.mu.Unlock()
	g, ok := w.gates[name]
	if !ok {
		g = newGate()
		w.gates[name] = g
	}
	return g
}

// GateAtNextWrite registers a gate at the next request packet the client writes (whatever its number is).
func (w *World) GateAtNextWrite() *Gate {
	w.mu.Lock()
	k := w.wcount + 1
	w.mu.Unlock()
	return w.GateAt("write:" + strconv.Itoa(k))
}

// ReleaseAllGates releases every gate (end of run / deadline).
func (w *World) ReleaseAllGates() {
	w.mu.Lock()
	gs := make([]*Gate, 0, len(w.gates))
	for _, g := range w.gates {
		gs = append(gs, g)
	}
	w.mu.Unlock()
	for _, g := range gs {
		g.Release()
	}
}

// ArriveAt blocks at the named gate if the driver registered it.
func (w *World) ArriveAt(name string) {
	if g := w.gate(name); g != nil {
		g.arrive()
	}
}

func (w *World) gate(name string) *Gate {
	w.mu.Lock()
	defer w.mu.Unlock()
	return w.gates[name]
}

// PlanExhausted reports whether every write rule has fired and every scripted dial was used.
func (w *World) PlanExhausted() bool {
	w.mu.Lock()
	defer w.mu.Unlock()
	for i := range w.Plan.Writes {
		if !w.Plan.Writes[i].used {
			return false
		}
	}
	return w.dialN >= len(w.Plan.Dials)
}

// UnusedRules returns the number of write rules that never fired.
func (w *World) UnusedRules() int {
	w.mu.Lock()
	defer w.mu.Unlock()
	n := 0
	for i := range w.Plan.Writes {
		if !w.Plan.Writes[i].used {
			n++
		}
	}
	return n
}

// Current returns the most recently dialled transport (nil if none).
func (w *World) Current() *Transport {
	w.mu.Lock()
	defer w.mu.Unlock()
	if len(w.conns) == 0 {
		return nil
	}
	return w.conns[len(w.conns)-1]
}

// Conn returns transport g (1-based) or nil.
func (w *World) Conn(g int) *Transport {
	w.mu.Lock()
	defer w.mu.Unlock()
	if g < 1 || g > len(w.conns) {
		return nil
	}
	return w.conns[g-1]
}

// NumConns is the number of transports dialled so far.
func (w *World) NumConns() int {
	w.mu.Lock()
	defer w.mu.Unlock()
	return len(w.conns)
}

// OpenConns counts transports not yet closed.
func (w *World) OpenConns() int {
	w.mu.Lock()
	defer w.mu.Unlock()
	return w.openLocked()
}

func (w *World) openLocked() int {
	n := 0
	for _, c := range w.conns {
		if !c.isClosed() {
			n++
		}
	}
	return n
}

// Healthy reports whether the current transport is open and its CONNECT was accepted.
func (w *World) Healthy() bool {
	w.mu.Lock()
	defer w.mu.Unlock()
	if len(w.conns) == 0 {
		return false
	}
	c := w.conns[len(w.conns)-1]
	return !c.isClosed() && c.accepted
}

// Subs returns a copy of the broker's subscription table.
func (w *World) Subs() map[string]int {
	w.mu.Lock()
	defer w.mu.Unlock()
	m := map[string]int{}
	for k, v := range w.subs {
		m[k] = v
	}
	return m
}

// LoseSessionNext makes the broker forget the session at the next accepted CONNECT (a broker restart).
func (w *World) LoseSessionNext() {
	w.mu.Lock()
	w.loseNext = true
	w.mu.Unlock()
}

// ErrDial is returned by scripted dial failures.
var ErrDial = errors.New("netsim: scripted dial failure")

// Dialer returns the mqtt.Dialer of this world.  connState, when non-nil, is installed as
// extra ConnState observer on every client (called after the event has been recorded).
func (w *World) Dialer() mqtt.Dialer {
	return mqtt.DialerFunc(func(ctx context.Context) (*mqtt.BaseClient, error) {
		return w.Dial(ctx)
	})
}

// Dial is the scripted dial.
func (w *World) Dial(ctx context.Context) (*mqtt.BaseClient, error) {
	w.mu.Lock()
	w.dialN++
	n := w.dialN
	w.mu.Unlock()
	if g := w.gate("dial:" + strconv.Itoa(n)); g != nil {
		g.arrive()
	}
	w.mu.Lock()
	res := "ok"
	if n <= len(w.Plan.Dials) && w.Plan.Dials[n-1] == "fail" {
		res = "fail"
	}
	open := w.openLocked()
	if ctx.Err() != nil {
		// a dial with an already cancelled context is not a dial
		w.Rec.Emit(Event{"e": "Dial", "n": n, "res": "ctx", "g": 0, "open": open})
		w.mu.Unlock()
		return nil, ctx.Err()
	}
	if res == "fail" {
		w.Rec.Emit(Event{"e": "Dial", "n": n, "res": "fail", "g": 0, "open": open})
		w.mu.Unlock()
		return nil, ErrDial
	}
	t := newTransport(w, len(w.conns)+1)
	cli := &mqtt.BaseClient{Transport: t, MaxPayloadLen: w.MaxPayloadLen}
	t.Client = cli
	g := t.G
	cli.ConnState = func(s mqtt.ConnState, err error) {
		es := ""
		if err != nil {
			es = err.Error()
		}
		w.Rec.Emit(Event{"e": "ConnState", "g": g, "s": s.String(), "err": es, "cls": ErrClass(err)})
		if s == mqtt.StateActive && w.OnActive != nil {
			w.OnActive(g)
		}
	}
	w.conns = append(w.conns, t)
	w.Rec.Emit(Event{"e": "Dial", "n": n, "res": "ok", "g": t.G, "open": open})
	w.mu.Unlock()
	return cli, nil
}

// ErrClass maps an error to a small vocabulary used by the trace specifications.
func ErrClass(err error) string {
	switch {
	case err == nil:
		return "nil"
	case errors.Is(err, mqtt.ErrPingTimeout):
		return "pingtimeout"
	case errors.Is(err, context.Canceled):
		return "canceled"
	case errors.Is(err, context.DeadlineExceeded):
		return "deadline"
	case errors.Is(err, mqtt.ErrInvalidPacket):
		return "invalidpacket"
	case errors.Is(err, mqtt.ErrInvalidPacketLength):
		return "invalidlength"
	case errors.Is(err, mqtt.ErrInvalidRune):
		return "invalidrune"
	case errors.Is(err, mqtt.ErrClosedTransport):
		return "closedtransport"
	case errors.Is(err, mqtt.ErrConnectionFailed):
		return "refused"
	case errors.Is(err, io.EOF), errors.Is(err, io.ErrUnexpectedEOF), errors.Is(err, io.ErrClosedPipe), errors.Is(err, ErrTransportClosed):
		return "eof"
	case errors.Is(err, mqtt.ErrNotConnected):
		return "notconnected"
	case errors.Is(err, mqtt.ErrClosedClient):
		return "closedclient"
	}
	return "other"
}

// TagOf extracts the message tag from a payload of the form "m<tag>[:...]"; 0 if none.
func TagOf(payload []byte) int {
	s := string(payload)
	if !strings.HasPrefix(s, "m") {
		return 0
	}
	s = s[1:]
	if i := strings.IndexByte(s, ':'); i >= 0 {
		s = s[:i]
	}
	n, err := strconv.Atoi(s)
	if err != nil {
		return 0
	}
	return n
}

// PayloadOf builds the payload carrying a tag.
func PayloadOf(tag int) []byte { return []byte(fmt.Sprintf("m%d", tag)) }

func isRequest(t byte) bool {
	switch t {
	case 0x10, 0x30, 0x60, 0x80, 0xA0, 0xC0, 0xE0:
		return true
	}
	return false
}

// outcomeFor looks up (and consumes) the fault rule for request packet number k of type name p
// whose per-type count is n.  Caller holds w.mu.
func (w *World) outcomeFor(k int, p string, n int) string {
	for i := range w.Plan.Writes {
		r := &w.Plan.Writes[i]
		if r.used {
			continue
		}
		if (r.K != 0 && r.K == k) || (r.K == 0 && r.P == p && r.N == n) {
			r.used = true
			return r.O
		}
	}
	return "ok"
}

// clientPacket is called by a transport for every framed packet the client wrote.
// It returns the error Write has to return (nil = accepted by the transport).
func (w *World) clientPacket(t *Transport, p *Pkt) error {
	name := p.Name()
	req := isRequest(p.Type)
	k := 0
	if req {
		w.mu.Lock()
		w.wcount++
		k = w.wcount
		w.mu.Unlock()
		if g := w.gate("write:" + strconv.Itoa(k)); g != nil {
			g.arrive()
		}
	}
	w.mu.Lock()
	defer w.mu.Unlock()
	ev := Event{"e": "Write", "g": t.G, "k": k, "p": name, "id": p.ID, "req": req, "bad": p.Bad,
		"tag": 0, "qos": 0, "dup": false, "retain": false, "topic": "", "fs": []string{}, "qs": []int{}, "len": len(p.Raw),
		"deliv": []int{}, "resp": "", "sp": false, "connack": "", "clean": false, "plen": 0}
	ev["cid"] = ""
	ev["cflags"] = 0
	ev["keepalive"] = 0
	if p.Connect != nil {
		ev["clean"] = p.Connect.CleanSession
		ev["cid"] = p.Connect.ClientID
		ev["cflags"] = p.Connect.Flags
		ev["keepalive"] = p.Connect.KeepAlive
	}
	switch p.Type {
	case 0x30:
		ev["tag"] = TagOf(p.Payload)
		ev["qos"] = p.QoS
		ev["dup"] = p.Dup
		ev["retain"] = p.Retain
		ev["topic"] = p.Topic
		ev["plen"] = len(p.Payload)
	case 0x80:
		ev["fs"] = p.Filters
		ev["qs"] = p.QoSs
	case 0xA0:
		ev["fs"] = p.Filters
	}
	if t.isClosed() {
		ev["o"] = "closed"
		ev["ok"] = false
		w.Rec.Emit(ev)
		return ErrTransportClosed
	}
	o := "ok"
	if req {
		w.typeCount[name]++
		o = w.outcomeFor(k, name, w.typeCount[name])
		t.reqCount++
	} else {
		// acknowledgements the client writes for inbound traffic: addressable by type and count only
		w.typeCount[name]++
		o = w.outcomeFor(-1, name, w.typeCount[name])
	}
	ev["o"] = o
	switch o {
	case "cutBefore":
		ev["ok"] = false
		w.Rec.Emit(ev)
		t.closeBy("plan")
		return ErrTransportClosed
	case "dropReq":
		ev["ok"] = true
		w.Rec.Emit(ev)
		return nil
	case "writeErr":
		// the write fails (e.g. an expired write deadline) but the connection stays open; nothing reaches the broker
		ev["ok"] = false
		w.Rec.Emit(ev)
		if w.OnClientPacket != nil {
			w.OnClientPacket(t, p, o)
		}
		return ErrWriteFailed
	}
	// processed by the broker
	resp, deliv := w.process(t, p, ev)
	if w.NoPingResp && p.Type == 0xC0 {
		resp = nil
	}
	if w.ManualAcks && (p.Type == 0x30 || p.Type == 0x60 || p.Type == 0x80 || p.Type == 0xA0) {
		resp = nil
	}
	ev["deliv"] = deliv
	ev["ok"] = true
	respName := ""
	if resp != nil {
		respName = TypeName(resp[0])
	}
	switch o {
	case "cutAfter":
		ev["resp"] = ""
		w.Rec.Emit(ev)
		t.closeBy("plan")
	case "lateAck":
		// processed; the response reaches the client only after a delay (a slow broker)
		ev["resp"] = ""
		w.Rec.Emit(ev)
		if resp != nil {
			late := resp
			time.AfterFunc(25*time.Millisecond, func() {
				w.mu.Lock()
				defer w.mu.Unlock()
				t.send(late)
			})
		}
	case "dropAck":
		ev["resp"] = ""
		w.Rec.Emit(ev)
	default:
		ev["resp"] = respName
		w.Rec.Emit(ev)
		if resp != nil {
			t.send(resp)
		}
		if p.Type == 0x10 && t.accepted {
			w.sendInbound(t, 0)
		} else if req {
			w.sendInbound(t, t.reqCount-1)
		}
		if p.Type == 0xE0 {
			t.closeBy("peer")
		}
	}
	if w.OnClientPacket != nil {
		w.OnClientPacket(t, p, o)
	}
	return nil
}

// sendInbound sends the scripted inbound messages due on t after its `after`-th request
// (CONNECT not counted).  Caller holds w.mu.
func (w *World) sendInbound(t *Transport, after int) {
	for _, in := range w.Plan.Inbound {
		if in.G == t.G && in.After == after {
			id := 0
			if in.QoS > 0 {
				w.nextInID++
				id = w.nextInID
			}
			w.SendLocked(t, Publish(w.InboundTopic, PayloadOf(in.Tag), in.QoS, id, in.Dup && in.QoS > 0, false))
		}
	}
}

// SendLocked queues a broker->client packet on t and records it.  Caller holds w.mu.
func (w *World) SendLocked(t *Transport, raw []byte) {
	t.send(raw)
}

// Send queues a broker->client packet.
func (w *World) Send(t *Transport, raw []byte) {
	w.mu.Lock()
	defer w.mu.Unlock()
	t.send(raw)
}

// process is the broker: it updates the session state for packet p and returns the response
// bytes (nil if none) and the list of tags delivered onward.  Caller holds w.mu.
func (w *World) process(t *Transport, p *Pkt, ev Event) ([]byte, []int) {
	deliv := []int{}
	switch p.Type {
	case 0x10:
		plan := ConnAckPlan{}
		if t.G-1 < len(w.Plan.ConnAcks) {
			plan = w.Plan.ConnAcks[t.G-1]
		}
		if plan.Silent {
			ev["connack"] = "silent"
			return nil, deliv
		}
		if plan.Code != 0 {
			ev["connack"] = "refused"
			t.mu.Lock()
			t.closeWhenDrained = true
			t.mu.Unlock()
			return ConnAck(false, byte(plan.Code)), deliv
		}
		sp := w.everAccepted
		// assumption A6: the broker loses a session only on a connection whose CONNACK reaches the client
		// (a reset the client cannot observe makes "subscriptions converge" unachievable for any client)
		observable := ev["o"] == "ok"
		switch plan.SP {
		case "true":
			sp = w.everAccepted // a broker cannot present a session it never had
		case "false":
			if observable {
				sp = false
			}
		}
		if p.Connect != nil && p.Connect.CleanSession {
			sp = false
		}
		if w.loseNext && observable {
			sp = false
			w.loseNext = false
		}
		if !sp {
			w.subs = map[string]int{}
			w.inflight2 = map[int]bool{}
			w.stored = map[int]int{}
		}
		w.everAccepted = true
		t.accepted = true
		t.sp = sp
		ev["sp"] = sp
		ev["connack"] = "accepted"
		return ConnAck(sp, 0), deliv
	case 0x30:
		tag := TagOf(p.Payload)
		switch p.QoS {
		case 0:
			deliv = append(deliv, tag)
			w.delivered = append(w.delivered, tag)
			return nil, deliv
		case 1:
			deliv = append(deliv, tag)
			w.delivered = append(w.delivered, tag)
			return Ack(0x40, p.ID), deliv
		default:
			if !w.inflight2[p.ID] {
				w.inflight2[p.ID] = true
				if w.DeliverOnRel {
					w.stored[p.ID] = tag
				} else {
					deliv = append(deliv, tag)
					w.delivered = append(w.delivered, tag)
				}
			}
			return Ack(0x50, p.ID), deliv
		}
	case 0x60:
		if w.inflight2[p.ID] {
			if tag, ok := w.stored[p.ID]; ok {
				deliv = append(deliv, tag)
				w.delivered = append(w.delivered, tag)
				delete(w.stored, p.ID)
			}
			delete(w.inflight2, p.ID)
		}
		return Ack(0x70, p.ID), deliv
	case 0x80:
		codes := make([]byte, len(p.Filters))
		for i, f := range p.Filters {
			w.subs[f] = p.QoSs[i]
			codes[i] = byte(p.QoSs[i])
			if w.GrantCap >= 0 && p.QoSs[i] > w.GrantCap {
				codes[i] = byte(w.GrantCap)
			}
			if w.GrantCode >= 0 {
				codes[i] = byte(w.GrantCode)
			}
		}
		return SubAck(p.ID, codes), deliv
	case 0xA0:
		for _, f := range p.Filters {
			delete(w.subs, f)
		}
		return Ack(0xB0, p.ID), deliv
	case 0xC0:
		return PingResp(), deliv
	case 0x50: // client's PUBREC for an inbound QoS 2 message
		if w.AutoRelease {
			return Ack(0x62, p.ID), deliv
		}
	}
	return nil, deliv
}

// ErrWriteFailed is returned by Write for the outcome "writeErr" (the transport stays open).
var ErrWriteFailed = errors.New("netsim: write failed")

// ErrTransportClosed is returned by Read/Write on a closed transport.
var ErrTransportClosed = errors.New("netsim: transport closed")

// Transport is one simulated connection (generation G, 1-based).
type Transport struct {
	W      *World
	G      int
	Client *mqtt.BaseClient

	wmu  sync.Mutex // serialises Write calls for framing
	wbuf []byte

	mu       sync.Mutex
	cond     *sync.Cond
	closed   bool
	closedBy string
	in       []inPkt // broker->client packets not yet fully consumed
	accepted bool
	sp       bool
	reqCount int
	// closeWhenDrained: the broker closes the connection once the client has consumed what was sent
	// (MQTT-3.2.2-5: after a CONNACK with a non-zero return code the server closes the network connection)
	closeWhenDrained bool

	// MaxReadBuf is the largest buffer the client ever asked Read to fill (C06).
	MaxReadBuf int
	// ReadGate, when set, blocks Read before handing out the first byte of a packet of that type name.
	chunks [][]byte
}

type inPkt struct {
	meta Event
	rest []byte
}

func newTransport(w *World, g int) *Transport {
	t := &Transport{W: w, G: g}
	t.cond = sync.NewCond(&t.mu)
	return t
}

func (t *Transport) isClosed() bool {
	t.mu.Lock()
	defer t.mu.Unlock()
	return t.closed
}

// IsClosed reports whether the transport has been closed by anyone.
func (t *Transport) IsClosed() bool { return t.isClosed() }

// Accepted reports whether the broker accepted the CONNECT on this transport.
func (t *Transport) Accepted() bool {
	t.W.mu.Lock()
	defer t.W.mu.Unlock()
	return t.accepted
}

// Drained reports whether every broker->client packet has been fully consumed.
func (t *Transport) Drained() bool {
	t.mu.Lock()
	defer t.mu.Unlock()
	return len(t.in) == 0
}

func (t *Transport) closeBy(by string) {
	t.mu.Lock()
	if t.closed {
		t.mu.Unlock()
		return
	}
	t.closed = true
	t.closedBy = by
	t.in = nil
	t.W.Rec.Emit(Event{"e": "Close", "g": t.G, "by": by})
	t.cond.Broadcast()
	t.mu.Unlock()
}

// Close is the client's (local) close.
func (t *Transport) Close() error {
	t.closeBy("local")
	return nil
}

// ClosedBy tells who closed the transport ("" while open).
func (t *Transport) ClosedBy() string {
	t.mu.Lock()
	defer t.mu.Unlock()
	return t.closedBy
}

// PeerClose closes the transport from the broker side.
func (t *Transport) PeerClose() { t.closeBy("peer") }

// send queues a broker->client packet and records it (before its bytes become readable).
func (t *Transport) send(raw []byte) {
	t.mu.Lock()
	defer t.mu.Unlock()
	if t.closed {
		return
	}
	meta := Event{"g": t.G, "p": TypeName(raw[0]), "id": 0, "tag": 0, "qos": 0}
	if p, _ := Frame(raw); p != nil {
		switch p.Type {
		case 0x30:
			meta["id"] = p.ID
			meta["tag"] = TagOf(p.Payload)
			meta["qos"] = p.QoS
		case 0x40, 0x50, 0x60, 0x70, 0x90, 0xB0:
			if len(p.Body) >= 2 {
				meta["id"] = u16(p.Body)
			}
			if p.Type == 0x90 && len(p.Body) >= 2 {
				codes := []int{}
				for _, c := range p.Body[2:] {
					codes = append(codes, int(c))
				}
				meta["codes"] = codes
			}
		}
	}
	se := Event{"e": "Send"}
	for k, v := range meta {
		se[k] = v
	}
	t.W.Rec.Emit(se)
	t.in = append(t.in, inPkt{meta: meta, rest: append([]byte{}, raw...)})
	t.cond.Broadcast()
}

// SendRaw queues arbitrary bytes (possibly malformed) as one unit.
func (t *Transport) SendRaw(raw []byte, label string) {
	t.mu.Lock()
	defer t.mu.Unlock()
	if t.closed || len(raw) == 0 {
		return
	}
	meta := Event{"g": t.G, "p": label, "id": 0, "tag": 0, "qos": 0}
	t.in = append(t.in, inPkt{meta: meta, rest: append([]byte{}, raw...)})
	t.cond.Broadcast()
}

// Read hands out broker->client bytes; it records a Read event when the last byte of a packet
// has been handed to the client.
func (t *Transport) Read(p []byte) (int, error) {
	t.mu.Lock()
	defer t.mu.Unlock()
	if len(p) > t.MaxReadBuf {
		t.MaxReadBuf = len(p)
	}
	for len(t.in) == 0 && !t.closed {
		t.cond.Wait()
	}
	if t.closed {
		return 0, io.EOF
	}
	if len(p) == 0 {
		return 0, nil
	}
	n := 0
	for n < len(p) && len(t.in) > 0 {
		c := copy(p[n:], t.in[0].rest)
		n += c
		t.in[0].rest = t.in[0].rest[c:]
		if len(t.in[0].rest) == 0 {
			re := Event{"e": "Read"}
			for k, v := range t.in[0].meta {
				re[k] = v
			}
			t.W.Rec.Emit(re)
			t.in = t.in[1:]
			if len(t.in) == 0 && t.closeWhenDrained && !t.closed {
				t.closed = true
				t.closedBy = "peer"
				t.W.Rec.Emit(Event{"e": "Close", "g": t.G, "by": "peer"})
				t.cond.Broadcast()
			}
		} else {
			break
		}
		// hand out at most one packet per Read call so that Read events are exact
		break
	}
	return n, nil
}

// Write frames the client's bytes into packets and lets the world process each of them.
func (t *Transport) Write(p []byte) (int, error) {
	t.wmu.Lock()
	defer t.wmu.Unlock()
	t.wbuf = append(t.wbuf, p...)
	done := 0
	for {
		pkt, n := Frame(t.wbuf)
		if pkt == nil {
			if done == 0 && t.isClosed() {
				// bytes that do not complete a packet, handed to a closed transport
				return 0, ErrTransportClosed
			}
			return len(p), nil
		}
		t.wbuf = t.wbuf[n:]
		if err := t.W.clientPacket(t, pkt); err != nil {
			t.wbuf = nil
			return 0, err
		}
		if t.W.PromptAcks && isRequest(pkt.Type) {
			// wait (bounded) until everything queued for the client has been read
			for dl := time.Now().Add(20 * time.Millisecond); time.Now().Before(dl) && !t.Drained(); {
				time.Sleep(20 * time.Microsecond)
			}
			time.Sleep(50 * time.Microsecond) // ... and dispatched
			if t.W.AfterPrompt != nil {
				t.W.AfterPrompt(t, pkt)
			}
		}
		done++
	}
}

// MaxRead returns the largest read buffer requested so far.
func (t *Transport) MaxRead() int {
	t.mu.Lock()
	defer t.mu.Unlock()
	return t.MaxReadBuf
}
