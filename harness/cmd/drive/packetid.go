package main

// Family "packetid" (property C15: packet identifiers are non-zero and unique among outstanding
// requests).  One scenario per call; kinds:
//
//	alloc     K goroutines draw identifiers with (*BaseClient).VerifNewID from a counter preset with
//	          VerifSetIDLast.  The goroutines run in lock-step epochs (a barrier between epochs, free
//	          racing inside an epoch): every goroutine draws `per` ids per epoch; an id stays
//	          "outstanding" until the end of the hold-th epoch after the one it was drawn in.
//	          (hold+1)*K*per <= 65535 keeps the allocations made during the life of one request within
//	          one identifier cycle, which is the bound under which the property promises uniqueness.
//	api       real concurrent Subscribe / Unsubscribe / Publish(QoS1,2) calls over netsim; the broker
//	          side withholds the acknowledgements (netsim outcome "dropAck") of all but every
//	          ackEvery-th request, so that the requests stay outstanding; ids are the ones the broker
//	          side framed out of the SUBSCRIBE / UNSUBSCRIBE / PUBLISH packets.
//	script    sequential requests over netsim, some Publish calls carrying a caller-supplied
//	          Message.ID; records the ids on the wire (PUBLISH / SUBSCRIBE and PUBREL).
//	churn     documented limit of a plain counter: one withheld Subscribe, a full cycle of other
//	          allocations, one more Subscribe.
//
// The result carries `ids` (identifiers in allocation order) and `ev` (+id acquire / -id release /
// 0 = acquired identifier 0, in real-time order) for spec/TracePacketId.tla.

import (
	"context"
	"encoding/json"
	"errors"
	"fmt"
	"runtime"
	"sort"
	"sync"
	"sync/atomic"
	"time"

	mqtt "github.com/at-wat/mqtt-go"

	"verifharness/netsim"
)

func init() { register("packetid", runPacketID) }

type pidScenario struct {
	ID       string   `json:"id"`
	Kind     string   `json:"kind"`
	Hi       uint32   `json:"hi"` // counter preset = hi*65536 + lo
	Lo       uint32   `json:"lo"`
	Callers  int      `json:"callers"`
	Per      int      `json:"per"`
	Epochs   int      `json:"epochs"`
	Hold     int      `json:"hold"`
	Via      string   `json:"via"` // alloc: "base" (bare &BaseClient{}) | "conn" (connected over netsim)
	N        int      `json:"n"`
	AckEvery int      `json:"ackEvery"`
	Mix      []string `json:"mix"`    // api: "sub" | "unsub" | "pub1" | "pub2", cycled
	Script   []pidReq `json:"script"` // script
}

type pidReq struct {
	Sup int `json:"sup"` // 0: Subscribe (library-chosen id); else Publish with Message.ID = sup
	QoS int `json:"qos"`
}

type pidResult struct {
	ID      string   `json:"id"`
	Kind    string   `json:"kind"`
	Hi      int      `json:"hi"`
	Lo      int      `json:"lo"`
	Callers int      `json:"callers"`
	Ids     []int    `json:"ids"`
	Ev      []int    `json:"ev"`
	Reqs    [][3]int `json:"reqs"`
	After   []int    `json:"after,omitempty"` // script: Message.ID after the call returned
	First   [][3]int `json:"first"`           // samples: (goroutine, sequence, id)
	MaxOut  int      `json:"maxOut"`          // largest number of simultaneously outstanding ids
	A       int      `json:"a,omitempty"`     // churn: id of the withheld Subscribe
	B       int      `json:"b,omitempty"`     // churn: id of the Subscribe after a full cycle
	Infra   string   `json:"infra,omitempty"`
	WallMs  int64    `json:"wall_ms"`
}

func runPacketID(raw json.RawMessage) interface{} {
	var sc pidScenario
	if err := json.Unmarshal(raw, &sc); err != nil {
		return map[string]string{"id": "?", "infra": "bad scenario: " + err.Error()}
	}
	t0 := time.Now()
	res := &pidResult{ID: sc.ID, Kind: sc.Kind, Hi: int(sc.Hi), Lo: int(sc.Lo), Callers: sc.Callers,
		Ids: []int{}, Ev: []int{}, Reqs: [][3]int{}, First: [][3]int{}}
	switch sc.Kind {
	case "alloc":
		pidAlloc(&sc, res)
	case "api":
		pidAPI(&sc, res)
	case "script":
		pidScript(&sc, res)
	case "churn":
		pidChurn(&sc, res)
	case "resup":
		pidResup(&sc, res)
	case "wfail":
		pidWriteFail(&sc, res)
	case "retx":
		pidRetx(&sc, res)
	default:
		res.Infra = "unknown kind " + sc.Kind
	}
	res.WallMs = time.Since(t0).Milliseconds()
	return res
}

func (sc *pidScenario) start() uint32 { return sc.Hi<<16 | (sc.Lo & 0xFFFF) }

// pidConnect dials a netsim world, connects and presets the identifier counter.
func pidConnect(ctx context.Context, w *netsim.World, start uint32) (*mqtt.BaseClient, error) {
	cli, err := w.Dial(ctx)
	if err != nil {
		return nil, err
	}
	if _, err := cli.Connect(ctx, "verif-c15"); err != nil {
		return nil, err
	}
	cli.VerifSetIDLast(start) // Connect calls initID (random start): preset afterwards
	return cli, nil
}

// offset of identifier id after counter value prev (as offset from the preset): the smallest d > prevOff
// with uint16(start+d) == id.  This is how the allocation order is reconstructed: a goroutine draws
// its ids from increasing counter values, and fewer than 65536 allocations happen between two of its draws.
func pidOffset(start uint32, prevOff uint64, prevID uint16, first bool, id uint16) uint64 {
	var d uint16
	if first {
		d = id - uint16(start)
	} else {
		d = id - prevID
	}
	if d == 0 {
		return prevOff + 65536
	}
	return prevOff + uint64(d)
}

type pidDraw struct {
	id uint16
	t  int64 // ticket: global real-time order of the log entries
}

func pidAlloc(sc *pidScenario, res *pidResult) {
	K, per, epochs, hold := sc.Callers, sc.Per, sc.Epochs, sc.Hold
	if K < 1 || per < 1 || epochs < 1 || hold < 0 || (hold+1)*K*per > 65535 {
		res.Infra = fmt.Sprintf("bad alloc parameters: callers=%d per=%d epochs=%d hold=%d", K, per, epochs, hold)
		return
	}
	var cli *mqtt.BaseClient
	if sc.Via == "conn" {
		ctx, cancel := context.WithTimeout(context.Background(), 30*time.Second)
		defer cancel()
		w := netsim.NewWorld(netsim.Plan{})
		c, err := pidConnect(ctx, w, sc.start())
		if err != nil {
			res.Infra = "connect: " + err.Error()
			return
		}
		defer c.Close()
		cli = c
	} else {
		cli = &mqtt.BaseClient{}
		cli.VerifSetIDLast(sc.start())
	}
	draws := make([][]pidDraw, K)
	rels := make([][]pidDraw, K)
	for g := range draws {
		draws[g] = make([]pidDraw, 0, per*epochs)
		rels[g] = make([]pidDraw, 0, per*epochs)
	}
	var ticket int64
	// Barrier at the start of every epoch: the goroutines spin until all K have arrived, so that they
	// enter the epoch within nanoseconds of each other and really contend for the counter.
	arrived := make([]int32, epochs)
	var wg sync.WaitGroup
	body := func(g int) {
		defer wg.Done()
		for e := 0; e < epochs; e++ {
			if K > 1 {
				atomic.AddInt32(&arrived[e], 1)
				for spin := 0; atomic.LoadInt32(&arrived[e]) < int32(K); spin++ {
					if spin%256 == 255 {
						runtime.Gosched()
					}
				}
			}
			for i := 0; i < per; i++ {
				id := cli.VerifNewID()
				// the request carrying id is outstanding from here ...
				draws[g] = append(draws[g], pidDraw{id, atomic.AddInt64(&ticket, 1)})
			}
			if r := e - hold; r >= 0 {
				for _, d := range draws[g][r*per : (r+1)*per] {
					// ... to here (logged before the next barrier: nobody draws in epoch e+1 before
					// every release of epoch e has its ticket)
					rels[g] = append(rels[g], pidDraw{d.id, atomic.AddInt64(&ticket, 1)})
				}
			}
		}
	}
	wg.Add(K)
	for g := 1; g < K; g++ {
		go body(g)
	}
	body(0)
	wg.Wait()
	// allocation order
	type al struct {
		off uint64
		id  uint16
		g   int
	}
	all := make([]al, 0, K*per*epochs)
	start := sc.start()
	for g := 0; g < K; g++ {
		var off uint64
		var prev uint16
		for i, d := range draws[g] {
			off = pidOffset(start, off, prev, i == 0, d.id)
			prev = d.id
			all = append(all, al{off, d.id, g})
			if i < 3 {
				res.First = append(res.First, [3]int{g, i, int(d.id)})
			}
		}
	}
	sort.SliceStable(all, func(i, j int) bool { return all[i].off < all[j].off })
	res.Ids = make([]int, len(all))
	for i, a := range all {
		res.Ids[i] = int(a.id)
	}
	// acquire / release log in ticket order
	type lg struct {
		t int64
		v int
	}
	log := make([]lg, 0, 2*len(all))
	for g := 0; g < K; g++ {
		for _, d := range draws[g] {
			log = append(log, lg{d.t, int(d.id)})
		}
		for _, d := range rels[g] {
			if d.id != 0 {
				log = append(log, lg{d.t, -int(d.id)})
			}
		}
	}
	sort.Slice(log, func(i, j int) bool { return log[i].t < log[j].t })
	res.Ev = make([]int, len(log))
	out := 0
	for i, l := range log {
		res.Ev[i] = l.v
		if l.v > 0 {
			out++
			if out > res.MaxOut {
				res.MaxOut = out
			}
		} else if l.v < 0 {
			out--
		}
	}
}

// pidObserver collects, in the order the broker side frames them, the identifiers of the client's
// requests and the moments their acknowledgement is handed to the transport.
type pidObserver struct {
	mu   sync.Mutex
	ev   []int
	wire []pidWire
	nreq int
	out  int
	max  int
}

type pidWire struct {
	typ byte
	id  int
	qos int
}

func (o *pidObserver) hook(t *netsim.Transport, p *netsim.Pkt, outcome string) {
	o.mu.Lock()
	defer o.mu.Unlock()
	switch p.Type {
	case 0x30:
		if p.QoS == 0 {
			return
		}
		fallthrough
	case 0x80, 0xA0:
		o.wire = append(o.wire, pidWire{p.Type, p.ID, p.QoS})
		o.nreq++
		o.ev = append(o.ev, p.ID)
		o.out++
		if o.out > o.max {
			o.max = o.out
		}
		// acknowledged at once (SUBACK / UNSUBACK / PUBACK): the identifier is free again as soon as the
		// client has processed the acknowledgement, which cannot be before it was sent
		// (a request whose write failed is over as well: its caller got the error)
		if (outcome == "ok" && !(p.Type == 0x30 && p.QoS == 2) || outcome == "writeErr") && p.ID != 0 {
			o.ev = append(o.ev, -p.ID)
			o.out--
		}
	case 0x60:
		o.wire = append(o.wire, pidWire{p.Type, p.ID, 0})
		if outcome == "ok" && p.ID != 0 { // PUBCOMP sent: the QoS 2 exchange is over
			o.ev = append(o.ev, -p.ID)
			o.out--
		}
	}
}

func (o *pidObserver) requests() int {
	o.mu.Lock()
	defer o.mu.Unlock()
	return o.nreq
}

func pidAPI(sc *pidScenario, res *pidResult) {
	n, K := sc.N, sc.Callers
	if n < 1 || n > 60000 || K < 1 || len(sc.Mix) == 0 {
		res.Infra = "bad api parameters"
		return
	}
	// fault plan: withhold the acknowledgement of every request of each type except each ackEvery-th
	count := map[string]int{}
	kindOf := func(i int) string { return sc.Mix[i%len(sc.Mix)] }
	for i := 0; i < n; i++ {
		switch kindOf(i) {
		case "sub":
			count["SUBSCRIBE"]++
		case "unsub":
			count["UNSUBSCRIBE"]++
		case "pub1", "pub2":
			count["PUBLISH"]++
		default:
			res.Infra = "bad mix entry " + kindOf(i)
			return
		}
	}
	plan := netsim.Plan{}
	for _, p := range []string{"SUBSCRIBE", "UNSUBSCRIBE", "PUBLISH"} {
		for k := 1; k <= count[p]; k++ {
			if sc.AckEvery == 0 || k%sc.AckEvery != 0 {
				plan.Writes = append(plan.Writes, netsim.FaultRule{P: p, N: k, O: "dropAck"})
			}
		}
	}
	w := netsim.NewWorld(plan)
	obs := &pidObserver{}
	w.OnClientPacket = obs.hook
	ctx, cancel := context.WithTimeout(context.Background(), 50*time.Second)
	defer cancel()
	cli, err := pidConnect(ctx, w, sc.start())
	if err != nil {
		res.Infra = "connect: " + err.Error()
		return
	}
	var wg sync.WaitGroup
	issue := func(i int) {
		defer wg.Done()
		switch kindOf(i) {
		case "sub":
			cli.Subscribe(ctx, mqtt.Subscription{Topic: fmt.Sprintf("t/%d", i), QoS: mqtt.QoS1})
		case "unsub":
			cli.Unsubscribe(ctx, fmt.Sprintf("t/%d", i))
		case "pub1":
			cli.Publish(ctx, &mqtt.Message{Topic: "p", QoS: mqtt.QoS1, Payload: netsim.PayloadOf(i + 1)})
		case "pub2":
			cli.Publish(ctx, &mqtt.Message{Topic: "p", QoS: mqtt.QoS2, Payload: netsim.PayloadOf(i + 1)})
		}
	}
	// waves of K simultaneously released callers; the next wave starts when the broker side has seen
	// the requests of this one
	deadline := time.Now().Add(40 * time.Second)
	for lo := 0; lo < n; lo += K {
		hi := lo + K
		if hi > n {
			hi = n
		}
		gate := make(chan struct{})
		for i := lo; i < hi; i++ {
			wg.Add(1)
			go func(i int) {
				<-gate
				issue(i)
			}(i)
		}
		close(gate)
		for obs.requests() < hi {
			if time.Now().After(deadline) {
				res.Infra = fmt.Sprintf("only %d of %d requests reached the broker side", obs.requests(), hi)
				cancel()
				cli.Close()
				return
			}
			time.Sleep(50 * time.Microsecond)
		}
	}
	// let acknowledged QoS 2 exchanges finish (PUBREL), then take the snapshot while the withheld
	// requests are still outstanding
	time.Sleep(20 * time.Millisecond)
	obs.mu.Lock()
	res.Ev = append([]int{}, obs.ev...)
	res.MaxOut = obs.max
	wire := append([]pidWire{}, obs.wire...)
	obs.mu.Unlock()
	cancel() // release the withheld requests
	cli.Close()
	doneCh := make(chan struct{})
	go func() { wg.Wait(); close(doneCh) }()
	select {
	case <-doneCh:
	case <-time.After(10 * time.Second):
		res.Infra = "callers did not return after cancel/close"
		return
	}
	// allocation order: fewer than 65535 requests, so the offset from the preset is id - uint16(start)
	type al struct {
		off uint64
		id  int
	}
	var all []al
	for i, x := range wire {
		if x.typ == 0x60 {
			continue
		}
		all = append(all, al{pidOffset(sc.start(), 0, 0, true, uint16(x.id)), x.id})
		if len(res.First) < 6 {
			res.First = append(res.First, [3]int{int(x.typ), i, x.id})
		}
	}
	sort.SliceStable(all, func(i, j int) bool { return all[i].off < all[j].off })
	for _, a := range all {
		res.Ids = append(res.Ids, a.id)
	}
}

func pidScript(sc *pidScenario, res *pidResult) {
	w := netsim.NewWorld(netsim.Plan{})
	obs := &pidObserver{}
	w.OnClientPacket = obs.hook
	ctx, cancel := context.WithTimeout(context.Background(), 20*time.Second)
	defer cancel()
	cli, err := pidConnect(ctx, w, sc.start())
	if err != nil {
		res.Infra = "connect: " + err.Error()
		return
	}
	defer cli.Close()
	for i, r := range sc.Script {
		obs.mu.Lock()
		from := len(obs.wire)
		obs.mu.Unlock()
		after := 0
		if r.Sup == 0 {
			_, err = cli.Subscribe(ctx, mqtt.Subscription{Topic: fmt.Sprintf("s/%d", i), QoS: mqtt.QoS1})
		} else {
			m := &mqtt.Message{Topic: "p", QoS: mqtt.QoS(r.QoS), Payload: netsim.PayloadOf(i + 1), ID: uint16(r.Sup)}
			err = cli.Publish(ctx, m)
			after = int(m.ID)
		}
		if err != nil {
			res.Infra = fmt.Sprintf("request %d failed: %v", i+1, err)
			return
		}
		obs.mu.Lock()
		seen := append([]pidWire{}, obs.wire[from:]...)
		obs.mu.Unlock()
		row := [3]int{r.Sup, -1, 0}
		for _, x := range seen {
			if x.typ == 0x60 {
				row[2] = x.id
			} else if row[1] == -1 {
				row[1] = x.id
			}
		}
		if row[1] == -1 {
			res.Infra = fmt.Sprintf("request %d: no packet seen on the wire", i+1)
			return
		}
		if r.Sup != 0 && r.QoS == 2 && row[2] == 0 {
			// PUBREL with identifier 0 (or none at all): report as a changed identifier, not as "no PUBREL"
			row[2] = -1
		}
		res.Reqs = append(res.Reqs, row)
		res.After = append(res.After, after)
	}
}

// pidResup: Hold requests with library-chosen identifiers stay outstanding (their SUBACKs are withheld); then a
// Publish whose Message.ID the caller preset to an identifier N below them (what the retransmission of an older
// message carries); then Per further requests, which must not meet the identifiers still outstanding.
func pidResup(sc *pidScenario, res *pidResult) {
	plan := netsim.Plan{}
	for k := 1; k <= sc.Hold; k++ {
		plan.Writes = append(plan.Writes, netsim.FaultRule{P: "SUBSCRIBE", N: k, O: "dropAck"})
	}
	w := netsim.NewWorld(plan)
	obs := &pidObserver{}
	w.OnClientPacket = obs.hook
	ctx, cancel := context.WithTimeout(context.Background(), 20*time.Second)
	defer cancel()
	cli, err := pidConnect(ctx, w, sc.start())
	if err != nil {
		res.Infra = "connect: " + err.Error()
		return
	}
	var wg sync.WaitGroup
	for k := 1; k <= sc.Hold; k++ {
		k := k
		wg.Add(1)
		go func() {
			defer wg.Done()
			cli.Subscribe(ctx, mqtt.Subscription{Topic: fmt.Sprintf("held/%d", k), QoS: mqtt.QoS1})
		}()
		for t0 := time.Now(); obs.requests() < k; {
			if time.Since(t0) > 5*time.Second {
				res.Infra = "held SUBSCRIBE not seen"
				return
			}
			time.Sleep(100 * time.Microsecond)
		}
	}
	sup := uint16(sc.start()) - uint16(sc.N)
	if sup == 0 {
		sup = 65535
	}
	m := &mqtt.Message{Topic: "p", QoS: mqtt.QoS(sc.AckEvery), Payload: netsim.PayloadOf(1), ID: sup}
	if err := cli.Publish(ctx, m); err != nil {
		res.Infra = "publish with preset id failed: " + err.Error()
		return
	}
	for k := 0; k < sc.Per; k++ {
		if k%2 == 0 {
			_, err = cli.Subscribe(ctx, mqtt.Subscription{Topic: fmt.Sprintf("later/%d", k), QoS: mqtt.QoS1})
		} else {
			err = cli.Publish(ctx, &mqtt.Message{Topic: "q", QoS: mqtt.QoS1, Payload: netsim.PayloadOf(2 + k)})
		}
		if err != nil {
			res.Infra = "later request failed: " + err.Error()
			return
		}
	}
	obs.mu.Lock()
	res.Ev = append([]int{}, obs.ev...)
	res.MaxOut = obs.max
	obs.mu.Unlock()
	cancel()
	cli.Close()
	wg.Wait()
}

// pidWriteFail: the write of a SUBSCRIBE / UNSUBSCRIBE fails while the connection stays open (write deadline), after a
// concurrent Publish has already drawn the next identifier; that Publish stays outstanding; further requests follow.
func pidWriteFail(sc *pidScenario, res *pidResult) {
	first := "SUBSCRIBE"
	if sc.Via == "unsub" {
		first = "UNSUBSCRIBE"
	}
	plan := netsim.Plan{Writes: []netsim.FaultRule{{P: first, N: 1, O: "writeErr"}, {P: "PUBLISH", N: 1, O: "dropAck"}}}
	w := netsim.NewWorld(plan)
	obs := &pidObserver{}
	w.OnClientPacket = obs.hook
	gate := w.GateAt("write:2") // CONNECT is request 1
	ctx, cancel := context.WithTimeout(context.Background(), 20*time.Second)
	defer cancel()
	cli, err := pidConnect(ctx, w, sc.start())
	if err != nil {
		res.Infra = "connect: " + err.Error()
		return
	}
	var wg sync.WaitGroup
	wg.Add(1)
	go func() {
		defer wg.Done()
		if first == "SUBSCRIBE" {
			cli.Subscribe(ctx, mqtt.Subscription{Topic: "s", QoS: mqtt.QoS1})
		} else {
			cli.Unsubscribe(ctx, "s")
		}
	}()
	select {
	case <-gate.Reached():
	case <-time.After(5 * time.Second):
		res.Infra = "first request did not reach its write"
		return
	}
	// a Publish draws the next identifier and queues behind the write that is being held
	wg.Add(1)
	go func() {
		defer wg.Done()
		cli.Publish(ctx, &mqtt.Message{Topic: "p", QoS: mqtt.QoS(sc.AckEvery), Payload: netsim.PayloadOf(1)})
	}()
	time.Sleep(5 * time.Millisecond)
	gate.Release()
	for t0 := time.Now(); obs.requests() < 2; {
		if time.Since(t0) > 5*time.Second {
			res.Infra = "PUBLISH not seen"
			return
		}
		time.Sleep(100 * time.Microsecond)
	}
	for k := 0; k < sc.Per; k++ {
		if k%2 == 0 {
			err = cli.Publish(ctx, &mqtt.Message{Topic: "q", QoS: mqtt.QoS1, Payload: netsim.PayloadOf(2 + k)})
		} else {
			_, err = cli.Subscribe(ctx, mqtt.Subscription{Topic: fmt.Sprintf("later/%d", k), QoS: mqtt.QoS1})
		}
		if err != nil {
			res.Infra = "later request failed: " + err.Error()
			return
		}
	}
	obs.mu.Lock()
	res.Ev = append([]int{}, obs.ev...)
	res.MaxOut = obs.max
	obs.mu.Unlock()
	cancel()
	cli.Close()
	wg.Wait()
}

// pidRetx: a Publish (identifier preset by the caller: Script[0].Sup, or chosen by the library: 0) whose acknowledgement
// does not come before its context expires, on a connection that stays open; then the same message is sent again ON
// THE SAME CLIENT -- through the retry handle of the error (Via "handle") or by publishing the message, which now
// carries its identifier, once more (Via "republish").  The identifier is the caller's from then on: rows of Reqs are
// <<identifier the message carried before the call, identifier on the PUBLISH, identifier on the PUBREL>>.
func pidRetx(sc *pidScenario, res *pidResult) {
	w := netsim.NewWorld(netsim.Plan{Writes: []netsim.FaultRule{{P: "PUBLISH", N: 1, O: "dropAck"}}})
	obs := &pidObserver{}
	w.OnClientPacket = obs.hook
	ctx, cancel := context.WithTimeout(context.Background(), 20*time.Second)
	defer cancel()
	cli, err := pidConnect(ctx, w, sc.start())
	if err != nil {
		res.Infra = "connect: " + err.Error()
		return
	}
	defer cli.Close()
	sup := 0
	if len(sc.Script) > 0 {
		sup = sc.Script[0].Sup
	}
	m := &mqtt.Message{Topic: "p", QoS: mqtt.QoS(sc.AckEvery), Payload: netsim.PayloadOf(1), ID: uint16(sup)}
	c1, cancel1 := context.WithTimeout(ctx, 30*time.Millisecond)
	err = cli.Publish(c1, m)
	cancel1()
	if err == nil {
		res.Infra = "the first transmission was acknowledged although its acknowledgement is withheld"
		return
	}
	row := func(before int, from int) [3]int {
		obs.mu.Lock()
		defer obs.mu.Unlock()
		r := [3]int{before, -1, 0}
		for _, x := range obs.wire[from:] {
			if x.typ == 0x60 {
				r[2] = x.id
			} else if r[1] == -1 {
				r[1] = x.id
			}
		}
		return r
	}
	r1 := row(sup, 0)
	if r1[1] == -1 {
		res.Infra = "first PUBLISH not seen"
		return
	}
	res.Reqs = append(res.Reqs, r1)
	res.After = append(res.After, int(m.ID))
	before := int(m.ID)
	obs.mu.Lock()
	from := len(obs.wire)
	obs.mu.Unlock()
	if sc.Via == "republish" {
		err = cli.Publish(ctx, m)
	} else {
		var er mqtt.ErrorWithRetry
		if !errors.As(err, &er) {
			res.Infra = "no retry handle: " + err.Error()
			return
		}
		err = er.Retry(ctx, cli)
	}
	if err != nil {
		res.Infra = "second transmission failed: " + err.Error()
		return
	}
	r2 := row(before, from)
	if r2[1] == -1 {
		res.Infra = "second PUBLISH not seen"
		return
	}
	if sc.AckEvery == 2 && r2[2] == 0 {
		r2[2] = -1
	}
	res.Reqs = append(res.Reqs, r2)
	res.After = append(res.After, int(m.ID))
}

func pidChurn(sc *pidScenario, res *pidResult) {
	plan := netsim.Plan{Writes: []netsim.FaultRule{{P: "SUBSCRIBE", N: 1, O: "dropAck"}, {P: "SUBSCRIBE", N: 2, O: "dropAck"}}}
	w := netsim.NewWorld(plan)
	obs := &pidObserver{}
	w.OnClientPacket = obs.hook
	ctx, cancel := context.WithTimeout(context.Background(), 20*time.Second)
	defer cancel()
	cli, err := pidConnect(ctx, w, sc.start())
	if err != nil {
		res.Infra = "connect: " + err.Error()
		return
	}
	var wg sync.WaitGroup
	sub := func(topic string, want int) bool {
		wg.Add(1)
		go func() {
			defer wg.Done()
			cli.Subscribe(ctx, mqtt.Subscription{Topic: topic, QoS: mqtt.QoS1})
		}()
		for t0 := time.Now(); obs.requests() < want; {
			if time.Since(t0) > 5*time.Second {
				return false
			}
			time.Sleep(100 * time.Microsecond)
		}
		return true
	}
	if !sub("a", 1) {
		res.Infra = "first SUBSCRIBE not seen"
		return
	}
	// 65534 further allocations that come and go (each stands for a request that completed)
	for i := 0; i < 65534; i++ {
		cli.VerifNewID()
	}
	if !sub("b", 2) {
		res.Infra = "second SUBSCRIBE not seen"
		return
	}
	obs.mu.Lock()
	res.A, res.B = obs.wire[0].id, obs.wire[1].id
	res.Ev = append([]int{}, obs.ev...)
	obs.mu.Unlock()
	cancel()
	cli.Close()
	wg.Wait()
}
