package main

import (
	"context"
	"crypto/ecdsa"
	"crypto/elliptic"
	"crypto/rand"
	"crypto/tls"
	"crypto/x509"
	"crypto/x509/pkix"
	"encoding/json"
	"errors"
	"fmt"
	"io"
	"math/big"
	"net"
	"net/http"
	"sync"
	"time"

	mqtt "github.com/at-wat/mqtt-go"
	"golang.org/x/net/websocket"

	"verifharness/netsim"
)

// Family "dialer": the library's own URL dialer (DialContext / URLDialer / BaseClientStoreDialer and the DialOptions
// WithMaxPayloadLen, WithConnStateHandler) against a loop-back TCP listener that plays a minimal broker.
// It adds the path "options given to the dialer reach the BaseClient" to what C05 (payload maximum), C16 (state
// callback), C19 (ErrUnsupportedProtocol) and C09 (same CONNECT on every connection) observe elsewhere through
// hand-made BaseClients.
type DialerScenario struct {
	ID         string `json:"id"`
	Max        int    `json:"max"`        // WithMaxPayloadLen
	Payload    int    `json:"payload"`    // payload length of the Publish under test
	QoS        int    `json:"qos"`        // its QoS
	Reconnects int    `json:"reconnects"` // >0: through NewReconnectClient; the listener closes that many connections after CONNACK
	Scheme     string `json:"scheme"`     // "" = mqtt; anything else is dialled as is (expected to be refused)
	// Unconnected: no listener at all -- every request on a BaseClient whose Connect was never called must fail with
	// an error in which errors.Is finds ErrNotConnected
	Unconnected bool `json:"unconnected,omitempty"`
	// Transport: "" plain TCP (mqtt://); "tls" (mqtts://, self-signed certificate made at run time, handed to the client
	// through WithTLSConfig); "ws" / "wss" (WebSocket, golang.org/x/net/websocket on the listener's side)
	Transport string `json:"transport,omitempty"`
}

type DialerResult struct {
	ID        string   `json:"id"`
	Skipped   string   `json:"skipped,omitempty"` // loop-back not available
	DialErr   string   `json:"dialErr"`
	Unsupp    bool     `json:"unsupported"` // errors.Is(dial error, ErrUnsupportedProtocol)
	PubErr    string   `json:"pubErr"`
	PubExceed bool     `json:"pubExceeded"` // errors.Is(publish error, ErrPayloadLenExceeded)
	States    []string `json:"states"`
	Packets   []string `json:"packets"`  // per connection: packet names the listener saw, e.g. "CONNECT PUBLISH DISCONNECT"
	Connects  []string `json:"connects"` // hex of every CONNECT packet
	Stored    bool     `json:"stored"`   // BaseClientStoreDialer.BaseClient() returned the dialled client
	Infra     string   `json:"infra,omitempty"`
	// WebSocket transports: every frame the listener received was a binary frame / the sub-protocol offered was "mqtt"
	// (MQTT 3.1.1 section 6; recorded, no listed property speaks about it)
	WSBinary   *bool `json:"wsBinary,omitempty"`
	WSProtocol *bool `json:"wsProtocol,omitempty"`
	// Unconnected: per call, whether errors.Is(err, ErrNotConnected)
	NotConn map[string]bool `json:"notConnected,omitempty"`
}

func init() { register("dialer", runDialerRaw) }

func runDialerRaw(raw json.RawMessage) interface{} {
	var sc DialerScenario
	if err := json.Unmarshal(raw, &sc); err != nil {
		return map[string]string{"id": "?", "infra": err.Error()}
	}
	return runDialer(&sc)
}

func runDialer(sc *DialerScenario) *DialerResult {
	res := &DialerResult{ID: sc.ID, States: []string{}, Packets: []string{}, Connects: []string{}}
	if sc.Unconnected {
		c1, c2 := net.Pipe()
		defer c1.Close()
		defer c2.Close()
		cli := &mqtt.BaseClient{Transport: c1}
		ctx, cancel := context.WithTimeout(context.Background(), time.Second)
		defer cancel()
		res.NotConn = map[string]bool{}
		res.NotConn["publish1"] = errors.Is(cli.Publish(ctx, &mqtt.Message{Topic: "t", QoS: mqtt.QoS1}), mqtt.ErrNotConnected)
		res.NotConn["publish2"] = errors.Is(cli.Publish(ctx, &mqtt.Message{Topic: "t", QoS: mqtt.QoS2}), mqtt.ErrNotConnected)
		_, e := cli.Subscribe(ctx, mqtt.Subscription{Topic: "t"})
		res.NotConn["subscribe"] = errors.Is(e, mqtt.ErrNotConnected)
		res.NotConn["unsubscribe"] = errors.Is(cli.Unsubscribe(ctx, "t"), mqtt.ErrNotConnected)
		res.NotConn["ping"] = errors.Is(cli.Ping(ctx), mqtt.ErrNotConnected)
		return res
	}
	ln, err := net.Listen("tcp", "127.0.0.1:0")
	if err != nil {
		res.Skipped = "no loop-back listener: " + err.Error()
		return res
	}
	defer ln.Close()
	var mu sync.Mutex
	closeFirst := sc.Reconnects
	handle := func(c io.ReadWriteCloser, setDeadline func(time.Time) error) {
		mu.Lock()
		idx := len(res.Packets)
		res.Packets = append(res.Packets, "")
		dropAfterConnack := closeFirst > 0
		if dropAfterConnack {
			closeFirst--
		}
		mu.Unlock()
		defer c.Close()
		buf := []byte{}
		tmp := make([]byte, 4096)
		for {
			setDeadline(time.Now().Add(3 * time.Second))
			n, err := c.Read(tmp)
			buf = append(buf, tmp[:n]...)
			for {
				p, k := netsim.Frame(buf)
				if p == nil || k == 0 {
					break
				}
				mu.Lock()
				if res.Packets[idx] != "" {
					res.Packets[idx] += " "
				}
				res.Packets[idx] += p.Name()
				if p.Type == 0x10 {
					res.Connects = append(res.Connects, fmt.Sprintf("%x", buf[:k]))
				}
				mu.Unlock()
				buf = buf[k:]
				switch p.Type {
				case 0x10:
					c.Write(netsim.ConnAck(false, 0))
					if dropAfterConnack {
						time.Sleep(5 * time.Millisecond)
						return
					}
				case 0x30:
					if p.QoS == 1 {
						c.Write(netsim.Ack(0x40, p.ID))
					} else if p.QoS == 2 {
						c.Write(netsim.Ack(0x50, p.ID))
					}
				case 0x60:
					c.Write(netsim.Ack(0x70, p.ID))
				case 0xE0:
					return
				}
			}
			if err != nil {
				return
			}
		}
	}
	var tlsClient *tls.Config
	if sc.Transport == "tls" || sc.Transport == "wss" {
		cert, pool, err := selfSigned()
		if err != nil {
			res.Infra = "certificate: " + err.Error()
			return res
		}
		ln = tls.NewListener(ln, &tls.Config{Certificates: []tls.Certificate{cert}})
		tlsClient = &tls.Config{RootCAs: pool, ServerName: "127.0.0.1"}
	}
	if sc.Transport == "ws" || sc.Transport == "wss" {
		allBinary, protoOK := true, true
		res.WSBinary, res.WSProtocol = &allBinary, &protoOK
		srv := &http.Server{Handler: websocket.Server{
			Handshake: func(cfg *websocket.Config, _ *http.Request) error {
				ok := false
				for _, p := range cfg.Protocol {
					if p == "mqtt" {
						ok = true
					}
				}
				mu.Lock()
				protoOK = protoOK && ok
				mu.Unlock()
				if ok {
					cfg.Protocol = []string{"mqtt"}
				}
				return nil
			},
			Handler: func(ws *websocket.Conn) {
				ws.PayloadType = websocket.BinaryFrame
				handle(&wsFrames{ws: ws, onType: func(t byte) {
					if t != websocket.BinaryFrame {
						mu.Lock()
						allBinary = false
						mu.Unlock()
					}
				}}, ws.SetReadDeadline)
			},
		}}
		go srv.Serve(ln)
		defer srv.Close()
	} else {
		go func() {
			for {
				conn, err := ln.Accept()
				if err != nil {
					return
				}
				go handle(conn, conn.SetReadDeadline)
			}
		}()
	}

	scheme := sc.Scheme
	if scheme == "" {
		scheme = map[string]string{"": "mqtt", "tls": "mqtts", "ws": "ws", "wss": "wss"}[sc.Transport]
	}
	url := fmt.Sprintf("%s://%s", scheme, ln.Addr().String())
	ctx, cancel := context.WithTimeout(context.Background(), 5*time.Second)
	defer cancel()
	var smu sync.Mutex
	opts := []mqtt.DialOption{
		mqtt.WithMaxPayloadLen(sc.Max),
		mqtt.WithConnStateHandler(func(s mqtt.ConnState, err error) {
			smu.Lock()
			res.States = append(res.States, fmt.Sprintf("%s(%s)", s, netsim.ErrClass(err)))
			smu.Unlock()
		}),
	}
	if tlsClient != nil {
		opts = append(opts, mqtt.WithTLSConfig(tlsClient))
	}
	store := &mqtt.BaseClientStoreDialer{Dialer: &mqtt.URLDialer{URL: url, Options: opts}}
	payload := make([]byte, sc.Payload)
	msg := &mqtt.Message{Topic: "d", QoS: mqtt.QoS(sc.QoS), Payload: payload}

	if sc.Reconnects > 0 {
		cli, err := mqtt.NewReconnectClient(store, mqtt.WithReconnectWait(2*time.Millisecond, 5*time.Millisecond))
		if err != nil {
			res.Infra = err.Error()
			return res
		}
		if _, err := cli.Connect(ctx, "dialer-client", mqtt.WithKeepAlive(30), mqtt.WithUserNamePassword("u", "p")); err != nil {
			res.DialErr = err.Error()
			return res
		}
		// wait until the listener has seen Reconnects+1 connections
		waitFor(func() bool { mu.Lock(); defer mu.Unlock(); return len(res.Connects) >= sc.Reconnects+1 }, 3*time.Second)
		err = cli.Publish(ctx, msg)
		if err != nil {
			res.PubErr = err.Error()
			res.PubExceed = errors.Is(err, mqtt.ErrPayloadLenExceeded)
		}
		time.Sleep(20 * time.Millisecond)
		dctx, dcancel := context.WithTimeout(ctx, time.Second)
		cli.Disconnect(dctx)
		dcancel()
		res.Stored = store.BaseClient() != nil
	} else {
		cli, err := store.DialContext(ctx)
		if err != nil {
			res.DialErr = err.Error()
			res.Unsupp = errors.Is(err, mqtt.ErrUnsupportedProtocol)
			return res
		}
		res.Stored = store.BaseClient() == cli
		if _, err := cli.Connect(ctx, "dialer-client"); err != nil {
			res.Infra = "connect: " + err.Error()
			return res
		}
		if err := cli.Publish(ctx, msg); err != nil {
			res.PubErr = err.Error()
			res.PubExceed = errors.Is(err, mqtt.ErrPayloadLenExceeded)
		}
		dctx, dcancel := context.WithTimeout(ctx, time.Second)
		cli.Disconnect(dctx)
		dcancel()
		select {
		case <-cli.Done():
		case <-time.After(2 * time.Second):
		}
	}
	time.Sleep(10 * time.Millisecond)
	mu.Lock()
	defer mu.Unlock()
	smu.Lock()
	defer smu.Unlock()
	res.Packets = append([]string{}, res.Packets...)
	res.States = append([]string{}, res.States...)
	return res
}

// wsFrames reads a WebSocket connection frame by frame (to see each frame's type) and presents it as a byte stream.
type wsFrames struct {
	ws      *websocket.Conn
	onType  func(byte)
	pending []byte
}

func (w *wsFrames) Read(b []byte) (int, error) {
	if len(w.pending) == 0 {
		var data []byte
		codec := websocket.Codec{
			Marshal: func(v interface{}) ([]byte, byte, error) { return v.([]byte), websocket.BinaryFrame, nil },
			Unmarshal: func(d []byte, t byte, v interface{}) error {
				w.onType(t)
				*(v.(*[]byte)) = append([]byte{}, d...)
				return nil
			},
		}
		if err := codec.Receive(w.ws, &data); err != nil {
			return 0, err
		}
		w.pending = data
	}
	n := copy(b, w.pending)
	w.pending = w.pending[n:]
	return n, nil
}
func (w *wsFrames) Write(b []byte) (int, error) { return w.ws.Write(b) }
func (w *wsFrames) Close() error                { return w.ws.Close() }

// selfSigned makes a certificate for 127.0.0.1 and a pool that trusts it.
func selfSigned() (tls.Certificate, *x509.CertPool, error) {
	key, err := ecdsa.GenerateKey(elliptic.P256(), rand.Reader)
	if err != nil {
		return tls.Certificate{}, nil, err
	}
	tmpl := &x509.Certificate{
		SerialNumber: big.NewInt(1), Subject: pkix.Name{CommonName: "verif loop-back"},
		NotBefore: time.Now().Add(-time.Hour), NotAfter: time.Now().Add(24 * time.Hour),
		KeyUsage: x509.KeyUsageDigitalSignature | x509.KeyUsageCertSign, ExtKeyUsage: []x509.ExtKeyUsage{x509.ExtKeyUsageServerAuth},
		IsCA: true, BasicConstraintsValid: true, IPAddresses: []net.IP{net.ParseIP("127.0.0.1")},
	}
	der, err := x509.CreateCertificate(rand.Reader, tmpl, tmpl, &key.PublicKey, key)
	if err != nil {
		return tls.Certificate{}, nil, err
	}
	leaf, err := x509.ParseCertificate(der)
	if err != nil {
		return tls.Certificate{}, nil, err
	}
	pool := x509.NewCertPool()
	pool.AddCert(leaf)
	return tls.Certificate{Certificate: [][]byte{der}, PrivateKey: key, Leaf: leaf}, pool, nil
}
