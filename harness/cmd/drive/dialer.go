package main

import (
	"context"
	"encoding/json"
	"errors"
	"fmt"
	"net"
	"sync"
	"time"

	mqtt "github.com/at-wat/mqtt-go"

	"verifharness/netsim"
)

// Family "dialer": the library's own URL dialer (DialContext / URLDialer / BaseClientStoreDialer and the DialOptions
// WithMaxPayloadLen, WithConnStateHandler) against a loop-back TCP listener that plays a minimal broker.
// It adds the path "options given to the dialer reach the BaseClient" to what C05 (payload maximum), C16 (state
// callback), C19 (ErrUnsupportedProtocol) and C09 (same CONNECT on every connection) observe elsewhere through
// hand-made BaseClients.
type DialerScenario struct {
	ID         string `json:"id"`
	Max        int    `json:"max"`        // WithMaxPayloadLen
	Payload    int    `json:"payload"`    // payload length of the Publish under test
	QoS        int    `json:"qos"`        // its QoS
	Reconnects int    `json:"reconnects"` // >0: through NewReconnectClient; the listener closes that many connections after CONNACK
	Scheme     string `json:"scheme"`     // "" = mqtt; anything else is dialled as is (expected to be refused)
	// Unconnected: no listener at all -- every request on a BaseClient whose Connect was never called must fail with
	// an error in which errors.Is finds ErrNotConnected
	Unconnected bool `json:"unconnected,omitempty"`
}

type DialerResult struct {
	ID        string   `json:"id"`
	Skipped   string   `json:"skipped,omitempty"` // loop-back not available
	DialErr   string   `json:"dialErr"`
	Unsupp    bool     `json:"unsupported"` // errors.Is(dial error, ErrUnsupportedProtocol)
	PubErr    string   `json:"pubErr"`
	PubExceed bool     `json:"pubExceeded"` // errors.Is(publish error, ErrPayloadLenExceeded)
	States    []string `json:"states"`
	Packets   []string `json:"packets"`  // per connection: packet names the listener saw, e.g. "CONNECT PUBLISH DISCONNECT"
	Connects  []string `json:"connects"` // hex of every CONNECT packet
	Stored    bool     `json:"stored"`   // BaseClientStoreDialer.BaseClient() returned the dialled client
	Infra     string   `json:"infra,omitempty"`
	// Unconnected: per call, whether errors.Is(err, ErrNotConnected)
	NotConn map[string]bool `json:"notConnected,omitempty"`
}

func init() { register("dialer", runDialerRaw) }

func runDialerRaw(raw json.RawMessage) interface{} {
	var sc DialerScenario
	if err := json.Unmarshal(raw, &sc); err != nil {
		return map[string]string{"id": "?", "infra": err.Error()}
	}
	return runDialer(&sc)
}

func runDialer(sc *DialerScenario) *DialerResult {
	res := &DialerResult{ID: sc.ID, States: []string{}, Packets: []string{}, Connects: []string{}}
	if sc.Unconnected {
		c1, c2 := net.Pipe()
		defer c1.Close()
		defer c2.Close()
		cli := &mqtt.BaseClient{Transport: c1}
		ctx, cancel := context.WithTimeout(context.Background(), time.Second)
		defer cancel()
		res.NotConn = map[string]bool{}
		res.NotConn["publish1"] = errors.Is(cli.Publish(ctx, &mqtt.Message{Topic: "t", QoS: mqtt.QoS1}), mqtt.ErrNotConnected)
		res.NotConn["publish2"] = errors.Is(cli.Publish(ctx, &mqtt.Message{Topic: "t", QoS: mqtt.QoS2}), mqtt.ErrNotConnected)
		_, e := cli.Subscribe(ctx, mqtt.Subscription{Topic: "t"})
		res.NotConn["subscribe"] = errors.Is(e, mqtt.ErrNotConnected)
		res.NotConn["unsubscribe"] = errors.Is(cli.Unsubscribe(ctx, "t"), mqtt.ErrNotConnected)
		res.NotConn["ping"] = errors.Is(cli.Ping(ctx), mqtt.ErrNotConnected)
		return res
	}
	ln, err := net.Listen("tcp", "127.0.0.1:0")
	if err != nil {
		res.Skipped = "no loop-back listener: " + err.Error()
		return res
	}
	defer ln.Close()
	var mu sync.Mutex
	closeFirst := sc.Reconnects
	go func() {
		for {
			conn, err := ln.Accept()
			if err != nil {
				return
			}
			mu.Lock()
			idx := len(res.Packets)
			res.Packets = append(res.Packets, "")
			dropAfterConnack := closeFirst > 0
			if dropAfterConnack {
				closeFirst--
			}
			mu.Unlock()
			go func(c net.Conn) {
				defer c.Close()
				buf := []byte{}
				tmp := make([]byte, 4096)
				for {
					c.SetReadDeadline(time.Now().Add(3 * time.Second))
					n, err := c.Read(tmp)
					buf = append(buf, tmp[:n]...)
					for {
						p, k := netsim.Frame(buf)
						if p == nil || k == 0 {
							break
						}
						mu.Lock()
						if res.Packets[idx] != "" {
							res.Packets[idx] += " "
						}
						res.Packets[idx] += p.Name()
						if p.Type == 0x10 {
							res.Connects = append(res.Connects, fmt.Sprintf("%x", buf[:k]))
						}
						mu.Unlock()
						buf = buf[k:]
						switch p.Type {
						case 0x10:
							c.Write(netsim.ConnAck(false, 0))
							if dropAfterConnack {
								time.Sleep(5 * time.Millisecond)
								return
							}
						case 0x30:
							if p.QoS == 1 {
								c.Write(netsim.Ack(0x40, p.ID))
							} else if p.QoS == 2 {
								c.Write(netsim.Ack(0x50, p.ID))
							}
						case 0x60:
							c.Write(netsim.Ack(0x70, p.ID))
						case 0xE0:
							return
						}
					}
					if err != nil {
						return
					}
				}
			}(conn)
		}
	}()

	scheme := sc.Scheme
	if scheme == "" {
		scheme = "mqtt"
	}
	url := fmt.Sprintf("%s://%s", scheme, ln.Addr().String())
	ctx, cancel := context.WithTimeout(context.Background(), 5*time.Second)
	defer cancel()
	var smu sync.Mutex
	opts := []mqtt.DialOption{
		mqtt.WithMaxPayloadLen(sc.Max),
		mqtt.WithConnStateHandler(func(s mqtt.ConnState, err error) {
			smu.Lock()
			res.States = append(res.States, fmt.Sprintf("%s(%s)", s, netsim.ErrClass(err)))
			smu.Unlock()
		}),
	}
	store := &mqtt.BaseClientStoreDialer{Dialer: &mqtt.URLDialer{URL: url, Options: opts}}
	payload := make([]byte, sc.Payload)
	msg := &mqtt.Message{Topic: "d", QoS: mqtt.QoS(sc.QoS), Payload: payload}

	if sc.Reconnects > 0 {
		cli, err := mqtt.NewReconnectClient(store, mqtt.WithReconnectWait(2*time.Millisecond, 5*time.Millisecond))
		if err != nil {
			res.Infra = err.Error()
			return res
		}
		if _, err := cli.Connect(ctx, "dialer-client", mqtt.WithKeepAlive(30), mqtt.WithUserNamePassword("u", "p")); err != nil {
			res.DialErr = err.Error()
			return res
		}
		// wait until the listener has seen Reconnects+1 connections
		waitFor(func() bool { mu.Lock(); defer mu.Unlock(); return len(res.Connects) >= sc.Reconnects+1 }, 3*time.Second)
		err = cli.Publish(ctx, msg)
		if err != nil {
			res.PubErr = err.Error()
			res.PubExceed = errors.Is(err, mqtt.ErrPayloadLenExceeded)
		}
		time.Sleep(20 * time.Millisecond)
		dctx, dcancel := context.WithTimeout(ctx, time.Second)
		cli.Disconnect(dctx)
		dcancel()
		res.Stored = store.BaseClient() != nil
	} else {
		cli, err := store.DialContext(ctx)
		if err != nil {
			res.DialErr = err.Error()
			res.Unsupp = errors.Is(err, mqtt.ErrUnsupportedProtocol)
			return res
		}
		res.Stored = store.BaseClient() == cli
		if _, err := cli.Connect(ctx, "dialer-client"); err != nil {
			res.Infra = "connect: " + err.Error()
			return res
		}
		if err := cli.Publish(ctx, msg); err != nil {
			res.PubErr = err.Error()
			res.PubExceed = errors.Is(err, mqtt.ErrPayloadLenExceeded)
		}
		dctx, dcancel := context.WithTimeout(ctx, time.Second)
		cli.Disconnect(dctx)
		dcancel()
		select {
		case <-cli.Done():
		case <-time.After(2 * time.Second):
		}
	}
	time.Sleep(10 * time.Millisecond)
	mu.Lock()
	defer mu.Unlock()
	smu.Lock()
	defer smu.Unlock()
	res.Packets = append([]string{}, res.Packets...)
	res.States = append([]string{}, res.States...)
	return res
}
