package main

// Family "clone" (property C20): one case of spec/Clone.tla per call.
//
// A case is a dispatcher topology (cs.top, cs.hs), the payload shape of the served message (cs.pay),
// the caller's program (cs.mode) and a schedule: the total order of the visible events of the model
//
//	call r   the caller calls Serve(msg) for the r-th time       ret r   that call returned
//	h i      the body of handler i starts (observe, mutate, keep the pointer)
//	cmut     the caller overwrites its own message in place       fin     every goroutine is done
//
// The schedule is enforced exactly with channels: a handler body blocks on its gate on entry until the
// scheduler reaches an "h i" event, and the scheduler waits for the body to finish before it goes on.
// No sleeps; the only timer is a stall detector (reported as "stall", never used as an oracle).
//
// The result is the trace: per event what was observed (the handler's deep snapshot on entry; the
// caller's messages after ret / cmut / fin; at fin also every message a handler kept).  Clone.tla
// (module CloneTrace) decides whether the trace is a behaviour of the specification.
//
// Concretisation of the model (see Msg1/Buf1/Msg2/Buf2/Mutate/CallerMutate in Clone.tla): one model byte
// is a block of `scale` equal real bytes (scale 1: identity; a large scale gives large payloads); the
// reported payload maps each uniform block back to its value, a non-uniform block to -1 and a trailing
// partial block to -2 (values the model never contains).

import (
	"encoding/json"
	"fmt"
	"time"

	mqtt "github.com/at-wat/mqtt-go"
)

func init() { register("clone", runCloneCase) }

type cloneH struct {
	A   bool   `json:"a"`
	Mut string `json:"mut"`
}

type cloneCs struct {
	Top  string   `json:"top"`
	Hs   []cloneH `json:"hs"`
	Pay  string   `json:"pay"`
	Mode string   `json:"mode"`
}

type cloneEv struct {
	E string `json:"e"`
	H int    `json:"h,omitempty"`
	R int    `json:"r,omitempty"`
}

type cloneCase struct {
	ID      string    `json:"id"`
	Cs      cloneCs   `json:"cs"`
	Sched   []cloneEv `json:"sched"`
	Scale   int       `json:"scale"`
	StallMs int       `json:"stallMs"`
	// SameFilter: every handler of the mux is registered under the identical filter string (the model knows handlers,
	// not filters: the demands are the same)
	SameFilter bool `json:"sameFilter,omitempty"`
	// QRot: the real QoS values are the model's rotated by this much (mod 3): with 2, the first message is a QoS 0 message
	// and the second a QoS 1 message (the model's mutation "qos" is a rotation too, so the demands are the same)
	QRot int `json:"qrot,omitempty"`
}

type cloneView struct {
	Topic   string `json:"topic"`
	ID      int    `json:"id"`
	QoS     int    `json:"qos"`
	Retain  bool   `json:"retain"`
	Dup     bool   `json:"dup"`
	Payload []int  `json:"payload"`
}

type cloneOut struct {
	E    string       `json:"e"`
	H    int          `json:"h,omitempty"`
	R    int          `json:"r,omitempty"`
	View *cloneView   `json:"view,omitempty"`
	Cv   []cloneView  `json:"cv,omitempty"`
	Hv   *[]cloneView `json:"hv,omitempty"`
}

type cloneResult struct {
	ID    string     `json:"id"`
	Cs    cloneCs    `json:"cs"`
	Scale int        `json:"scale"`
	Ev    []cloneOut `json:"ev"`
	Stall string     `json:"stall,omitempty"`
	Infra string     `json:"infra,omitempty"`
}

var cloneFilters = []string{"#", "t/#", "t/+"}

func cloneSnapshot(m *mqtt.Message, scale, rot int) cloneView {
	v := cloneView{Topic: string([]byte(m.Topic)), ID: int(m.ID), QoS: (int(m.QoS) - rot + 3) % 3, Retain: m.Retain, Dup: m.Dup, Payload: []int{}}
	p := m.Payload
	for o := 0; o < len(p); o += scale {
		if o+scale > len(p) {
			v.Payload = append(v.Payload, -2)
			break
		}
		b := int(p[o])
		for k := 1; k < scale; k++ {
			if p[o+k] != p[o] {
				b = -1
				break
			}
		}
		v.Payload = append(v.Payload, b)
	}
	return v
}

func cloneBlock(v, scale int) []byte {
	b := make([]byte, scale)
	for k := range b {
		b[k] = byte(v)
	}
	return b
}

// fill: Payload[j] = v + j for every model index j, in place
func cloneFill(m *mqtt.Message, v, scale int) {
	for o := 0; o+scale <= len(m.Payload); o += scale {
		for k := 0; k < scale; k++ {
			m.Payload[o+k] = byte(v + o/scale)
		}
	}
}

// the mutation of handler i (Mutate in Clone.tla)
func cloneMutate(m *mqtt.Message, kind string, i, scale int) {
	v := 200 + 10*i
	tp := fmt.Sprintf("t/h%d", i)
	switch kind {
	case "topic":
		m.Topic = tp
	case "inplace":
		if len(m.Payload) >= scale {
			for k := 0; k < scale; k++ {
				m.Payload[k] = byte(v)
			}
		}
	case "append":
		m.Payload = append(m.Payload, cloneBlock(v, scale)...)
	case "reslice":
		if len(m.Payload) >= scale {
			m.Payload = m.Payload[scale:]
		}
	case "retain":
		m.Retain = !m.Retain
	case "dup":
		m.Dup = !m.Dup
	case "qos":
		m.QoS = mqtt.QoS((int(m.QoS) + 1) % 3)
	case "id":
		m.ID += uint16(100 + i)
	case "all":
		m.Topic = tp
		m.Retain = !m.Retain
		m.Dup = !m.Dup
		m.QoS = mqtt.QoS((int(m.QoS) + 1) % 3)
		m.ID += uint16(100 + i)
		cloneFill(m, v, scale)
	}
}

// the caller re-using its message and buffer for the next message (CallerMutate in Clone.tla)
func cloneCallerMutate(m *mqtt.Message, scale, rot int) {
	cloneFill(m, 100, scale)
	if cap(m.Payload)-len(m.Payload) >= scale {
		m.Payload = append(m.Payload, cloneBlock(77, scale)...)
	}
	m.Topic = "t/b"
	m.ID = 9
	m.QoS = mqtt.QoS((2 + rot) % 3)
	m.Retain = false
	m.Dup = false
}

func cloneBuild(vals []int, capacity, scale int) []byte {
	p := make([]byte, 0, capacity*scale)
	for _, v := range vals {
		p = append(p, cloneBlock(v, scale)...)
	}
	return p
}

func cloneMsg1(pay string, scale, rot int) *mqtt.Message {
	m := &mqtt.Message{Topic: "t/a", ID: 7, QoS: mqtt.QoS((1 + rot) % 3), Retain: true, Dup: true}
	switch pay {
	case "nil":
		m.Payload = nil
	case "empty":
		m.Payload = []byte{}
	case "tight":
		m.Payload = cloneBuild([]int{1, 2, 3}, 3, scale)
	case "spare":
		m.Payload = cloneBuild([]int{1, 2, 3}, 5, scale)
	case "spare0":
		m.Payload = cloneBuild(nil, 2, scale)
	}
	return m
}

func cloneMsg2(scale, rot int) *mqtt.Message {
	return &mqtt.Message{Topic: "t/b", ID: 9, QoS: mqtt.QoS((2 + rot) % 3), Retain: true, Dup: false, Payload: cloneBuild([]int{11, 12}, 2, scale)}
}

func runCloneCase(raw json.RawMessage) interface{} {
	var c cloneCase
	if err := json.Unmarshal(raw, &c); err != nil {
		return map[string]string{"id": c.ID, "infra": "bad case: " + err.Error()}
	}
	if c.Scale < 1 {
		c.Scale = 1
	}
	if c.StallMs <= 0 {
		c.StallMs = 10000
	}
	scale := c.Scale
	res := &cloneResult{ID: c.ID, Cs: c.Cs, Scale: scale, Ev: []cloneOut{}}
	n := len(c.Cs.Hs)
	if n < 1 || n > len(cloneFilters) {
		res.Infra = "bad number of handlers"
		return res
	}

	gates := make([]chan struct{}, n+1)
	for i := range gates {
		gates[i] = make(chan struct{})
	}
	done := make(chan cloneView)
	var held []*mqtt.Message // appended only between a gate send and the matching done: ordered by the schedule

	body := func(i int, m *mqtt.Message) {
		<-gates[i]
		v := cloneSnapshot(m, scale, c.QRot)
		cloneMutate(m, c.Cs.Hs[i-1].Mut, i, scale)
		held = append(held, m)
		done <- v
	}
	hs := make([]mqtt.Handler, n+1)
	for i := 1; i <= n; i++ {
		i := i
		hs[i] = mqtt.HandlerFunc(func(m *mqtt.Message) { body(i, m) })
	}
	newMux := func() (*mqtt.ServeMux, error) {
		mux := &mqtt.ServeMux{}
		for i := 1; i <= n; i++ {
			var h mqtt.Handler = hs[i]
			if c.Cs.Hs[i-1].A {
				h = &mqtt.ServeAsync{Handler: hs[i]}
			}
			f := cloneFilters[i-1]
			if c.SameFilter {
				f = "t/+"
			}
			if err := mux.Handle(f, h); err != nil {
				return nil, err
			}
		}
		return mux, nil
	}
	var serve func(m *mqtt.Message)
	switch c.Cs.Top {
	case "mux":
		mux, err := newMux()
		if err != nil {
			res.Infra = err.Error()
			return res
		}
		serve = mux.Serve
	case "amux":
		mux, err := newMux()
		if err != nil {
			res.Infra = err.Error()
			return res
		}
		serve = (&mqtt.ServeAsync{Handler: mux}).Serve
	case "async":
		serve = (&mqtt.ServeAsync{Handler: hs[1]}).Serve
	case "clone":
		serve = func(m *mqtt.Message) { body(1, mqtt.VerifClone(m)) }
	default:
		res.Infra = "unknown topology " + c.Cs.Top
		return res
	}

	cm := []*mqtt.Message{cloneMsg1(c.Cs.Pay, scale, c.QRot)}
	if c.Cs.Mode == "fresh" {
		cm = append(cm, cloneMsg2(scale, c.QRot))
	}
	served := func(r int) *mqtt.Message {
		if c.Cs.Mode == "fresh" && r == 2 {
			return cm[1]
		}
		return cm[0]
	}
	callerViews := func() []cloneView {
		out := make([]cloneView, 0, len(cm))
		for _, m := range cm {
			out = append(out, cloneSnapshot(m, scale, c.QRot))
		}
		return out
	}
	rets := map[int]chan struct{}{1: make(chan struct{}, 1), 2: make(chan struct{}, 1)}
	stall := time.Duration(c.StallMs) * time.Millisecond

	for k, ev := range c.Sched {
		switch ev.E {
		case "call":
			m, ch := served(ev.R), rets[ev.R]
			if ch == nil {
				res.Infra = "bad round"
				return res
			}
			go func() {
				serve(m)
				ch <- struct{}{}
			}()
			res.Ev = append(res.Ev, cloneOut{E: "call", R: ev.R})
		case "ret":
			select {
			case <-rets[ev.R]:
			case <-time.After(stall):
				res.Stall = fmt.Sprintf("event %d: Serve call %d did not return", k+1, ev.R)
				return res
			}
			res.Ev = append(res.Ev, cloneOut{E: "ret", R: ev.R, Cv: callerViews()})
		case "h":
			if ev.H < 1 || ev.H > n {
				res.Infra = "bad handler index"
				return res
			}
			select {
			case gates[ev.H] <- struct{}{}:
			case <-time.After(stall):
				res.Stall = fmt.Sprintf("event %d: no invocation of handler %d arrived", k+1, ev.H)
				return res
			}
			v := <-done
			res.Ev = append(res.Ev, cloneOut{E: "h", H: ev.H, View: &v})
		case "cmut":
			cloneCallerMutate(cm[0], scale, c.QRot)
			res.Ev = append(res.Ev, cloneOut{E: "cmut", Cv: callerViews()})
		case "fin":
			hv := make([]cloneView, 0, len(held))
			for _, m := range held {
				hv = append(hv, cloneSnapshot(m, scale, c.QRot))
			}
			res.Ev = append(res.Ev, cloneOut{E: "fin", Cv: callerViews(), Hv: &hv})
		default:
			res.Infra = "unknown event " + ev.E
			return res
		}
	}
	return res
}
