package main

import (
	"context"
	"sync"
	"time"

	mqtt "github.com/at-wat/mqtt-go"

	"verifharness/netsim"
)

// runManualSwitch (C17): a RetryClient driven by hand -- SetClient / Connect as an application that manages its
// connections itself does (the documented use of RetryClient without the reconnect loop) -- replaces its connection
// make-before-break: the next base client is handed over with SetClient while the previous connection is still open
// and delivering.  Steps, with inbound QoS q messages tagged 1..3:
//
//	Handle(h1); SetClient(c1); Connect        m1 on connection 1
//	SetClient(c2)                             m2 on connection 1 (still open, no longer the current client)
//	Connect (connection 2); close c1          m3 on connection 2
//
// Variant "handleFirst" registers the handler before the first SetClient, "handleAfter" after the first Connect.
// The trace has the shape of the retry family's traces (validated by MqttEnv: C17 observers).
func runManualSwitch(sc *RetryScenario) *RetryResult {
	w := netsim.NewWorld(netsim.Plan{})
	w.AutoRelease = true
	rec := w.Rec
	info := map[string]interface{}{}
	ctx, cancel := context.WithTimeout(context.Background(), 8*time.Second)
	defer cancel()
	rc := &mqtt.RetryClient{}
	handle := func() {
		rec.Emit(netsim.Event{"e": "Handle", "h": 1, "phase": "call"})
		rc.Handle(mqtt.HandlerFunc(func(m *mqtt.Message) {
			rec.Emit(netsim.Event{"e": "Handled", "h": 1, "tag": netsim.TagOf(m.Payload), "qos": int(m.QoS), "dup": m.Dup})
		}))
		rec.Emit(netsim.Event{"e": "Handle", "h": 1, "phase": "ret"})
	}
	q := sc.Opts.ManualQoS
	id := 200
	send := func(t *netsim.Transport, tag int) {
		id++
		pid := id
		if q == 0 {
			pid = 0
		}
		w.Send(t, netsim.Publish("in", netsim.PayloadOf(tag), q, pid, false, false))
	}
	settled := func(t *netsim.Transport) {
		waitFor(func() bool { return t.Drained() && rec.Quiet() > 3*time.Millisecond }, 2*time.Second)
	}
	fail := func(msg string) *RetryResult {
		return &RetryResult{ID: sc.ID, Info: map[string]interface{}{"infra": msg}}
	}
	if sc.Opts.ManualSwitch == "handleFirst" {
		handle()
	}
	c1, err := w.Dial(ctx)
	if err != nil {
		return fail("dial 1: " + err.Error())
	}
	rc.SetClient(ctx, c1)
	if _, err := rc.Connect(ctx, "manual"); err != nil {
		return fail("connect 1: " + err.Error())
	}
	if sc.Opts.ManualSwitch != "handleFirst" {
		handle()
	}
	t1 := w.Conn(1)
	send(t1, 1)
	settled(t1)
	c2, err := w.Dial(ctx)
	if err != nil {
		return fail("dial 2: " + err.Error())
	}
	rc.SetClient(ctx, c2)
	send(t1, 2)
	settled(t1)
	if _, err := rc.Connect(ctx, "manual"); err != nil {
		return fail("connect 2: " + err.Error())
	}
	c1.Close()
	t2 := w.Conn(2)
	send(t2, 3)
	settled(t2)
	st := rc.Stats()
	rec.Emit(netsim.Event{"e": "Idle", "drained": true, "healthy": w.Healthy(), "qt": st.QueuedTasks, "qr": st.QueuedRetries, "g": 2, "unreached": 0})
	info["unreached"] = []string{}
	info["conns"] = w.NumConns()
	dctx, dcancel := context.WithTimeout(context.Background(), 2*time.Second)
	rc.Disconnect(dctx)
	dcancel()
	cfg := map[string]interface{}{"deliverOnRel": false, "alwaysResub": false, "respTimeout": false, "autoRelease": true, "directQoS0": false, "mode": "manual",
		"reconnBaseUs": 0, "reconnMaxUs": 0, "noReestablish": true, "hammer": false, "maxPayload": 0, "cleanSession": false}
	return &RetryResult{ID: sc.ID, Cfg: cfg, Evs: rec.Snapshot(), Info: info}
}

// runStopRace (C10, binding of spec/RetryStop.tla): Opts.StopApps goroutines each submit one QoS 1 publish through a
// RetryClient while the main goroutine does SetClient, Connect and, a moment later, Disconnect.  The library's hooks
// (all three fire under c.mu, after the state change) give the order of the critical sections: "set" (SetClient),
// "push" n (pushTask: queue length after the append), "pop" n (task goroutine: queue length after the pop); each
// goroutine reports what its Publish returned.  Process-global hook: run one scenario per process at a time.
func runStopRace(sc *RetryScenario) *RetryResult {
	hookMu.Lock()
	defer hookMu.Unlock()
	w := netsim.NewWorld(netsim.Plan{})
	var mu sync.Mutex
	evs := []netsim.Event{}
	emit := func(e netsim.Event) {
		mu.Lock()
		evs = append(evs, e)
		mu.Unlock()
	}
	mqtt.VerifSetHook(func(point string, args ...int64) {
		switch point {
		case "SetClient":
			emit(netsim.Event{"e": "set", "n": 0, "res": ""})
		case "pushTask":
			emit(netsim.Event{"e": "push", "n": int(args[0]), "res": ""})
		case "tgPop":
			emit(netsim.Event{"e": "pop", "n": int(args[0]), "res": ""})
		}
	})
	defer mqtt.VerifSetHook(nil)
	ctx, cancel := context.WithTimeout(context.Background(), 5*time.Second)
	defer cancel()
	rc := &mqtt.RetryClient{}
	var wg sync.WaitGroup
	start := make(chan struct{})
	for a := 0; a < sc.Opts.StopApps; a++ {
		a := a
		wg.Add(1)
		go func() {
			defer wg.Done()
			<-start
			time.Sleep(time.Duration((a*37+sc.Opts.StopSkewUs*(a%3))%400) * time.Microsecond)
			err := rc.Publish(ctx, &mqtt.Message{Topic: "s", QoS: mqtt.QoS1, Payload: netsim.PayloadOf(a + 1)})
			emit(netsim.Event{"e": "ret", "n": a + 1, "res": netsim.ErrClass(err)})
		}()
	}
	close(start)
	time.Sleep(time.Duration(sc.Opts.StopSkewUs%150) * time.Microsecond)
	cli, err := w.Dial(ctx)
	if err != nil {
		return &RetryResult{ID: sc.ID, Info: map[string]interface{}{"infra": "dial: " + err.Error()}}
	}
	rc.SetClient(ctx, cli)
	if _, err := rc.Connect(ctx, "stop"); err != nil {
		return &RetryResult{ID: sc.ID, Info: map[string]interface{}{"infra": "connect: " + err.Error()}}
	}
	time.Sleep(time.Duration(sc.Opts.StopSkewUs%250) * time.Microsecond)
	dctx, dcancel := context.WithTimeout(ctx, 2*time.Second)
	derr := rc.Disconnect(dctx)
	dcancel()
	emit(netsim.Event{"e": "discret", "n": 0, "res": netsim.ErrClass(derr)})
	wg.Wait()
	time.Sleep(5 * time.Millisecond) // the task goroutine finishes what was accepted
	mu.Lock()
	defer mu.Unlock()
	return &RetryResult{ID: sc.ID, Cfg: map[string]interface{}{"mode": "stop", "apps": sc.Opts.StopApps}, Evs: evs, Info: map[string]interface{}{}}
}
