package main

import (
	"context"
	"encoding/json"
	"fmt"
	"sync"
	"time"

	mqtt "github.com/at-wat/mqtt-go"

	"verifharness/netsim"
)

// AckCall is one concurrent blocking request on the BaseClient (C07).
type AckCall struct {
	Kind      string `json:"kind"`                // pub1 | pub2 | sub | unsub
	N         int    `json:"n"`                   // number of filters (sub / unsub)
	AbandonMs int    `json:"abandonMs,omitempty"` // the caller gives up after this time (context deadline)
	Abandon   bool   `json:"abandon"`             // (result) the call was issued with a deadline
}

// AckStep is one acknowledgement the broker sends: to caller C's identifier (C >= 1) or to an
// identifier nobody uses (C == 0).
type AckStep struct {
	C     int    `json:"c"`
	K     string `json:"k"`
	Codes []int  `json:"codes,omitempty"` // SUBACK return codes; nil: the requested QoS of caller C
	NB    bool   `json:"nb,omitempty"`    // no barrier after this step: the next acknowledgement follows back to back
}

// AckScenario is calls + broker script.
type AckScenario struct {
	ID     string    `json:"id"`
	Calls  []AckCall `json:"calls"`
	Script []AckStep `json:"script"`
	// second phase: started after Script has been played and the abandoned calls of phase one have returned
	// Prompt: the broker answers every request by itself, and the transport's Write returns only after the client's
	// reader has consumed the answer (the acknowledgement is dispatched before the caller gets to wait for it)
	Prompt bool `json:"prompt,omitempty"`
	// EndBy: how the run ends while calls may still be waiting: "close" (default, the transport is closed) or
	// "disconnect" (the application calls Disconnect): either way a call whose acknowledgement never came does not succeed
	EndBy string `json:"endBy,omitempty"`
	// Race "pubrecAtDeadline": Rounds times a QoS 2 Publish whose PUBREC has been read and dispatched when its context is
	// cancelled -- both inside Transport.Write of the PUBLISH, so that the call finds acknowledgement and cancellation
	// pending at once; PUBCOMP never comes.  RaceNil counts the calls that reported success.
	Race    string        `json:"race,omitempty"`
	Rounds  int           `json:"rounds,omitempty"`
	Calls2  []AckCall     `json:"calls2,omitempty"`
	Script2 []AckStep     `json:"script2,omitempty"`
	Batch   []AckScenario `json:"batch,omitempty"`
}

// AckResult is the compact event list: W (request written), S (ack sent), R (call returned), Q (quiescent).
type AckResult struct {
	ID    string                   `json:"id"`
	Calls []AckCall                `json:"calls"`
	Evs   []map[string]interface{} `json:"evs"`
	Err   string                   `json:"err"`
	Batch []*AckResult             `json:"batch,omitempty"`
	// race mode
	Race       string `json:"race,omitempty"`
	RaceRounds int    `json:"raceRounds,omitempty"`
	RaceNil    int    `json:"raceNil,omitempty"`
}

func init() { register("acks", runAcksRaw) }

func runAcksRaw(raw json.RawMessage) interface{} {
	var sc AckScenario
	if err := json.Unmarshal(raw, &sc); err != nil {
		return map[string]string{"id": "?", "infra": err.Error()}
	}
	if len(sc.Batch) > 0 {
		res := &AckResult{ID: sc.ID}
		for i := range sc.Batch {
			res.Batch = append(res.Batch, runAcks(&sc.Batch[i]))
		}
		return res
	}
	return runAcks(&sc)
}

var ackFirst = map[string]byte{"PUBACK": 0x40, "PUBREC": 0x50, "PUBCOMP": 0x70, "UNSUBACK": 0xB0}

func runAckRace(sc *AckScenario) *AckResult {
	res := &AckResult{ID: sc.ID, Calls: []AckCall{}, Evs: []map[string]interface{}{}, Race: sc.Race, RaceRounds: sc.Rounds}
	for r := 0; r < sc.Rounds; r++ {
		w := netsim.NewWorld(netsim.Plan{Writes: []netsim.FaultRule{{P: "PUBREL", N: 1, O: "dropAck"}}})
		w.PromptAcks = true
		root, rootCancel := context.WithTimeout(context.Background(), 5*time.Second)
		cli, err := w.Dial(root)
		if err != nil {
			res.Err = err.Error()
			rootCancel()
			return res
		}
		if _, err := cli.Connect(root, "acks-race"); err != nil {
			res.Err = "connect: " + err.Error()
			rootCancel()
			return res
		}
		cctx, ccancel := context.WithCancel(root)
		w.AfterPrompt = func(_ *netsim.Transport, p *netsim.Pkt) {
			if p.Type == 0x30 {
				ccancel()
			}
		}
		ret := make(chan error, 1)
		go func() { ret <- cli.Publish(cctx, &mqtt.Message{Topic: "r", QoS: mqtt.QoS2, Payload: []byte("x")}) }()
		select {
		case err := <-ret:
			if err == nil {
				res.RaceNil++
			}
		case <-time.After(3 * time.Second):
			res.Err = "race round: Publish did not return after its context was cancelled"
		}
		ccancel()
		cli.Close()
		rootCancel()
		if res.Err != "" {
			return res
		}
	}
	return res
}

func runAcks(sc *AckScenario) *AckResult {
	if sc.Race != "" {
		return runAckRace(sc)
	}
	res := &AckResult{ID: sc.ID, Calls: sc.Calls, Evs: []map[string]interface{}{}}
	w := netsim.NewWorld(netsim.Plan{})
	w.ManualAcks = !sc.Prompt
	w.PromptAcks = sc.Prompt
	rec := w.Rec
	ctx, cancel := context.WithTimeout(context.Background(), 6*time.Second)
	defer cancel()
	cli, err := w.Dial(ctx)
	if err != nil {
		res.Err = err.Error()
		return res
	}
	if _, err := cli.Connect(ctx, "acks"); err != nil {
		res.Err = "connect: " + err.Error()
		return res
	}
	t := w.Conn(1)
	var wg sync.WaitGroup
	all := append(append([]AckCall{}, sc.Calls...), sc.Calls2...)
	for i := range all {
		all[i].Abandon = all[i].AbandonMs > 0
	}
	res.Calls = all
	reqQoS := make([][]int, len(all))
	ids := make([]int, len(all))
	launch := func(from, to int) {
		for i := from; i < to; i++ {
			i, c := i, all[i]
			n := c.N
			if n < 1 {
				n = 1
			}
			qs := make([]int, n)
			for j := range qs {
				qs[j] = (i + j) % 3
			}
			reqQoS[i] = qs
			wg.Add(1)
			go func() {
				defer wg.Done()
				cctx := ctx
				if c.AbandonMs > 0 {
					var ccancel context.CancelFunc
					cctx, ccancel = context.WithTimeout(ctx, time.Duration(c.AbandonMs)*time.Millisecond)
					defer ccancel()
				}
				var err error
				granted := []int{}
				switch c.Kind {
				case "pub1", "pub2":
					q := mqtt.QoS1
					if c.Kind == "pub2" {
						q = mqtt.QoS2
					}
					err = cli.Publish(cctx, &mqtt.Message{Topic: fmt.Sprintf("c/%d", i+1), QoS: q, Payload: netsim.PayloadOf(i + 1)})
				case "sub":
					subs := make([]mqtt.Subscription, n)
					for j := range subs {
						subs[j] = mqtt.Subscription{Topic: fmt.Sprintf("f/%d/%d", i+1, j), QoS: mqtt.QoS(qs[j])}
					}
					var g []mqtt.Subscription
					g, err = cli.Subscribe(cctx, subs...)
					for _, s := range g {
						granted = append(granted, int(s.QoS))
					}
				case "unsub":
					fs := make([]string, n)
					for j := range fs {
						fs[j] = fmt.Sprintf("f/%d/%d", i+1, j)
					}
					err = cli.Unsubscribe(cctx, fs...)
				}
				r := "ok"
				if err != nil {
					r = netsim.ErrClass(err)
					if errorsIsInvalidSubAck(err) {
						r = "invalidsuback"
					}
				}
				rec.Emit(netsim.Event{"e": "R", "c": i + 1, "res": r, "granted": granted})
			}()
		}
		// wait until every call launched so far has written its request
		deadline := time.Now().Add(2 * time.Second)
		for time.Now().Before(deadline) {
			n := 0
			for _, e := range rec.Snapshot() {
				if e["e"] == "Write" {
					if c := callerOf(e); c > 0 && c <= to && (e["p"] == "PUBLISH" || e["p"] == "SUBSCRIBE" || e["p"] == "UNSUBSCRIBE") {
						ids[c-1] = e["id"].(int)
						n++
					}
				}
			}
			if n >= to {
				break
			}
			time.Sleep(200 * time.Microsecond)
		}
	}
	play := func(script []AckStep) {
		used := map[int]bool{}
		for _, id := range ids {
			used[id] = true
		}
		foreign := 1
		for used[foreign] {
			foreign++
		}
		for _, st := range script {
			id := foreign
			if st.C >= 1 && st.C <= len(ids) {
				id = ids[st.C-1]
			}
			var raw []byte
			if st.K == "SUBACK" {
				codes := st.Codes
				if codes == nil {
					if st.C >= 1 && st.C <= len(ids) {
						codes = reqQoS[st.C-1]
					} else {
						codes = []int{0}
					}
				}
				cb := make([]byte, len(codes))
				for i, c := range codes {
					cb[i] = byte(c)
				}
				raw = netsim.SubAck(id, cb)
			} else {
				raw = netsim.Ack(ackFirst[st.K], id)
			}
			w.Send(t, raw)
			if st.NB {
				continue
			}
			// barrier: the reader has dispatched the acknowledgement once the PINGRESP is back
			pctx, pcancel := context.WithTimeout(ctx, 2*time.Second)
			if err := cli.Ping(pctx); err != nil {
				res.Err = "barrier: " + netsim.ErrClass(err)
			}
			pcancel()
			time.Sleep(300 * time.Microsecond)
		}
	}
	launch(0, len(sc.Calls))
	play(sc.Script)
	if len(sc.Calls2) > 0 {
		// let the abandoned calls of phase one give up
		maxAb := 0
		for _, c := range sc.Calls {
			if c.AbandonMs > maxAb {
				maxAb = c.AbandonMs
			}
		}
		time.Sleep(time.Duration(maxAb+5) * time.Millisecond)
		launch(len(sc.Calls), len(all))
		play(sc.Script2)
	}
	if sc.Prompt {
		// every request is answered: wait for the returns themselves (bounded), not for a quiet period
		pdl := time.Now().Add(3 * time.Second)
		for time.Now().Before(pdl) {
			n := 0
			for _, e := range rec.Snapshot() {
				if e["e"] == "R" {
					n++
				}
			}
			if n >= len(all) {
				break
			}
			time.Sleep(time.Millisecond)
		}
	}
	// quiescence: no more returns for 30 ms (at most 1 s)
	qdl := time.Now().Add(time.Second)
	for time.Now().Before(qdl) && rec.Quiet() < 30*time.Millisecond {
		time.Sleep(2 * time.Millisecond)
	}
	rec.Emit(netsim.Event{"e": "Q"})
	if sc.EndBy == "disconnect" {
		dctx, dcancel := context.WithTimeout(ctx, time.Second)
		_ = cli.Disconnect(dctx)
		dcancel()
	}
	cli.Close()
	wg.Wait()
	for _, e := range rec.Snapshot() {
		switch e["e"] {
		case "Write":
			if c := callerOf(e); c > 0 || e["p"] == "PUBREL" {
				if e["p"] == "PUBREL" {
					c = 0
					for i, id := range ids {
						if id == e["id"].(int) {
							c = i + 1
						}
					}
				}
				res.Evs = append(res.Evs, map[string]interface{}{"e": "W", "c": c, "p": e["p"], "id": e["id"], "ok": e["ok"]})
			}
		case "Send":
			if e["p"] == "CONNACK" || e["p"] == "PINGRESP" {
				continue
			}
			codes := []int{}
			if c, ok := e["codes"].([]int); ok {
				codes = c
			}
			res.Evs = append(res.Evs, map[string]interface{}{"e": "S", "p": e["p"], "id": e["id"], "codes": codes})
		case "R":
			res.Evs = append(res.Evs, map[string]interface{}{"e": "R", "c": e["c"], "res": e["res"], "granted": e["granted"]})
		case "Q":
			res.Evs = append(res.Evs, map[string]interface{}{"e": "Q"})
		case "Close":
			res.Evs = append(res.Evs, map[string]interface{}{"e": "X", "by": e["by"]})
		}
	}
	return res
}

func callerOf(e netsim.Event) int {
	var c int
	switch e["p"] {
	case "PUBLISH":
		fmt.Sscanf(e["topic"].(string), "c/%d", &c)
	case "SUBSCRIBE", "UNSUBSCRIBE":
		if fs, ok := e["fs"].([]string); ok && len(fs) > 0 {
			fmt.Sscanf(fs[0], "f/%d/", &c)
		}
	}
	return c
}

func errorsIsInvalidSubAck(err error) bool {
	for e := err; e != nil; {
		if e == mqtt.ErrInvalidSubAck {
			return true
		}
		u, ok := e.(interface{ Unwrap() error })
		if !ok {
			return false
		}
		e = u.Unwrap()
	}
	return false
}
