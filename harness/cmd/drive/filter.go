package main

// Family "filter" (property C14): topic filter validation / matching and ServeMux dispatch,
// compared with the expectation computed by TLC from spec/TopicFilter.tla.
//
// One scenario line is a batch of groups.  A group has a list of topic names, and
//   - rows:  one filter each, with the specification's verdict v (valid?) and m (1-based
//     indices of the topics it matches).  For every row the driver
//       (a) calls mqtt.VerifTopicFilter(filter): error iff !v, errors.Is(err, ErrInvalidTopicFilter),
//           and the returned match function on every topic;
//       (b) registers the filter on a fresh ServeMux through the public Handle: error iff !v
//           (same error class), then serves every topic: the handler runs exactly once iff
//           the topic is in m, and never for a rejected filter;
//   - muxes: registration sequences regs (filter strings, handler i = i-th Handle call, 1-based)
//     with v (accepted?) and d[j] = the handler indices the specification expects to be invoked,
//     in order, for topic j.  The driver registers all of them on one ServeMux, serves every
//     topic and compares the exact sequence of invoked handler indices.
//
// Nothing is decided here beyond "equal / not equal": every disagreement is returned to the
// check, which turns it into a witness.

import (
	"encoding/json"
	"errors"
	"fmt"
	"runtime"
	"sort"
	"sync"

	mqtt "github.com/at-wat/mqtt-go"
)

type filterRow struct {
	F string `json:"f"`
	V bool   `json:"v"`
	M []int  `json:"m"`
}

type filterMux struct {
	Regs []string `json:"regs"`
	V    []bool   `json:"v"`
	D    [][]int  `json:"d"`
}

type filterGroup struct {
	G      string      `json:"g"`
	Topics []string    `json:"topics"`
	Rows   []filterRow `json:"rows"`
	Muxes  []filterMux `json:"muxes"`
}

type filterScenario struct {
	ID     string        `json:"id"`
	Groups []filterGroup `json:"groups"`
}

// filterMismatch locates one disagreement: group / row or mux / topic are 0-based positions in the scenario.
type filterMismatch struct {
	Kind  string `json:"kind"`
	API   string `json:"api"`
	Group int    `json:"group"`
	Row   int    `json:"row"`
	Mux   int    `json:"mux"`
	Topic int    `json:"topic"`
	Reg   int    `json:"reg"`
	F     string `json:"f,omitempty"`
	T     string `json:"t,omitempty"`
	Got   string `json:"got"`
	Want  string `json:"want"`
}

type filterResult struct {
	ID       string           `json:"id"`
	Filters  int              `json:"filters"`  // rows executed
	Pairs    int              `json:"pairs"`    // (filter, topic) pairs executed (each through both entry points)
	Matched  int              `json:"matched"`  // of those, pairs the real code matched
	Handles  int              `json:"handles"`  // ServeMux.Handle calls
	Dispatch int              `json:"dispatch"` // (mux, topic) Serve calls on multi-handler muxes
	Invoked  int              `json:"invoked"`  // handler invocations observed on those
	NMism    int              `json:"nmism"`
	Mism     []filterMismatch `json:"mism"`
	Infra    string           `json:"infra,omitempty"`
}

const filterMaxMism = 200

func init() { register("filter", runFilter) }

type filterRecHandler struct {
	idx int
	log *[]int
}

// (every recording handler also rewrites the topic of what it received, as a handler that strips a prefix and forwards to
// a nested mux does: which handlers are invoked depends on the topic of the SERVED message only -- seeded change c14j)
func (h filterRecHandler) Serve(m *mqtt.Message) {
	*h.log = append(*h.log, h.idx)
	m.Topic = "rewritten/by/handler"
}

func runFilter(raw json.RawMessage) interface{} {
	var sc filterScenario
	res := &filterResult{Mism: []filterMismatch{}}
	if err := json.Unmarshal(raw, &sc); err != nil {
		var id idOnly
		json.Unmarshal(raw, &id)
		res.ID = id.ID
		res.Infra = "bad scenario: " + err.Error()
		return res
	}
	res.ID = sc.ID
	add := func(m filterMismatch) {
		res.NMism++
		if len(res.Mism) < filterMaxMism {
			res.Mism = append(res.Mism, m)
		}
	}
	for gi := range sc.Groups {
		g := &sc.Groups[gi]
		for ri := range g.Rows {
			filterRowCheck(res, add, gi, ri, g)
		}
		for mi := range g.Muxes {
			filterMuxCheck(res, add, gi, mi, g)
		}
	}
	return res
}

// filterGuarded runs fn and converts a panic of the library into a mismatch.
func filterGuarded(add func(filterMismatch), m filterMismatch, fn func()) {
	defer func() {
		if r := recover(); r != nil {
			m.Kind = "panic"
			m.Got = fmt.Sprint(r)
			m.Want = "no panic"
			add(m)
		}
	}()
	fn()
}

func filterRowCheck(res *filterResult, add func(filterMismatch), gi, ri int, g *filterGroup) {
	row := g.Rows[ri]
	want := make([]bool, len(g.Topics))
	for _, j := range row.M {
		if j < 1 || j > len(g.Topics) {
			res.Infra = fmt.Sprintf("group %d row %d: topic index %d out of range", gi, ri, j)
			return
		}
		want[j-1] = true
	}
	base := filterMismatch{Group: gi, Row: ri, Mux: -1, Topic: -1, Reg: -1, F: row.F}
	res.Filters++

	// (a) newTopicFilter / topicFilter.Match through the verif export
	filterGuarded(add, filterWith(base, "", "VerifTopicFilter", -1, ""), func() {
		match, err := mqtt.VerifTopicFilter(row.F)
		if !filterVerdict(add, filterWith(base, "", "VerifTopicFilter", -1, ""), err, row.V) {
			return
		}
		if err != nil {
			return
		}
		for j, t := range g.Topics {
			m := filterWith(base, "match", "VerifTopicFilter.Match", j, t)
			filterGuarded(add, m, func() {
				got := match(t)
				if got {
					res.Matched++
				}
				if got != want[j] {
					m.Got, m.Want = fmt.Sprint(got), fmt.Sprint(want[j])
					add(m)
				}
			})
		}
	})

	// (b) the public API: a fresh ServeMux with this one filter
	filterGuarded(add, filterWith(base, "", "ServeMux.Handle", -1, ""), func() {
		var log []int
		mux := &mqtt.ServeMux{}
		err := mux.Handle(row.F, filterRecHandler{1, &log})
		res.Handles++
		okVerdict := filterVerdict(add, filterWith(base, "", "ServeMux.Handle", -1, ""), err, row.V)
		for j, t := range g.Topics {
			m := filterWith(base, "match", "ServeMux.Serve", j, t)
			filterGuarded(add, m, func() {
				log = log[:0]
				mux.Serve(&mqtt.Message{Topic: t})
				res.Pairs++
				n := 0
				if want[j] {
					n = 1
				}
				switch {
				case err != nil && len(log) > 0:
					// whatever the specification says about validity: a filter whose registration
					// returned an error must not be registered
					m.Kind = "registered-despite-error"
					m.Got, m.Want = fmt.Sprintf("handler invoked %d time(s)", len(log)), "Handle returned an error: nothing registered"
					add(m)
				case okVerdict && err == nil && len(log) != n:
					m.Got, m.Want = fmt.Sprintf("handler invoked %d time(s)", len(log)), fmt.Sprintf("%d time(s)", n)
					add(m)
				}
			})
		}
	})
}

// filterVerdict compares accept / reject with the specification; returns false when they differ.
func filterVerdict(add func(filterMismatch), m filterMismatch, err error, valid bool) bool {
	if (err == nil) != valid {
		m.Kind = "validity"
		m.Got, m.Want = "accepted", "rejected (invalid topic filter)"
		if err != nil {
			m.Got, m.Want = "rejected: "+err.Error(), "accepted (valid topic filter)"
		}
		add(m)
		return false
	}
	if err != nil && !errors.Is(err, mqtt.ErrInvalidTopicFilter) {
		m.Kind = "error-class"
		m.Got, m.Want = fmt.Sprintf("%T %q", err, err.Error()), "errors.Is(err, ErrInvalidTopicFilter)"
		add(m)
	}
	return true
}

func filterWith(m filterMismatch, kind, api string, topic int, t string) filterMismatch {
	m.Kind, m.API, m.Topic, m.T = kind, api, topic, t
	return m
}

func filterMuxCheck(res *filterResult, add func(filterMismatch), gi, mi int, g *filterGroup) {
	mx := g.Muxes[mi]
	if len(mx.V) != len(mx.Regs) || len(mx.D) != len(g.Topics) {
		res.Infra = fmt.Sprintf("group %d mux %d: malformed expectation", gi, mi)
		return
	}
	base := filterMismatch{Group: gi, Row: -1, Mux: mi, Topic: -1, Reg: -1}
	filterGuarded(add, filterWith(base, "", "ServeMux", -1, ""), func() {
		var log []int
		mux := &mqtt.ServeMux{}
		for i, f := range mx.Regs {
			m := filterWith(base, "", "ServeMux.Handle", -1, "")
			m.Reg, m.F = i, f
			var err error
			if i%2 == 0 {
				err = mux.Handle(f, filterRecHandler{i + 1, &log})
			} else {
				idx := i + 1
				err = mux.HandleFunc(f, func(m *mqtt.Message) { log = append(log, idx); m.Topic = "rewritten/by/handler" })
			}
			res.Handles++
			filterVerdict(add, m, err, mx.V[i])
		}
		// overlapping dispatch (a mux behind ServeAsync, or handlers that dispatch themselves): every message still reaches
		// exactly the handlers whose filter matches ITS topic, whatever other message is being dispatched at the same time
		if len(mx.Regs) >= 2 && len(mx.Regs) <= 8 && len(g.Topics) >= 2 && mi%4 == 0 {
			nt := len(g.Topics)
			if nt > 6 {
				nt = 6
			}
			var cmu sync.Mutex
			got := map[[2]int]int{} // (handler, topic index) -> calls
			tindex := map[string]int{}
			for j := 0; j < nt; j++ {
				tindex[g.Topics[j]] = j
			}
			mux3 := &mqtt.ServeMux{}
			for i, f := range mx.Regs {
				idx := i + 1
				_ = mux3.HandleFunc(f, func(m *mqtt.Message) {
					runtime.Gosched()
					cmu.Lock()
					j, ok := tindex[m.Topic]
					if !ok {
						j = -1
					}
					got[[2]int{idx, j}]++
					cmu.Unlock()
				})
			}
			const reps = 40
			var wg sync.WaitGroup
			for j := 0; j < nt; j++ {
				if _, dup := tindex[g.Topics[j]]; dup && tindex[g.Topics[j]] != j {
					continue
				}
				wg.Add(1)
				go func(t string) {
					defer wg.Done()
					for r := 0; r < reps; r++ {
						mux3.Serve(&mqtt.Message{Topic: t})
					}
				}(g.Topics[j])
			}
			wg.Wait()
			for j := 0; j < nt; j++ {
				if tindex[g.Topics[j]] != j {
					continue
				}
				want := map[int]bool{}
				for _, x := range mx.D[j] {
					want[x] = true
				}
				for i := range mx.Regs {
					n := got[[2]int{i + 1, j}]
					exp := 0
					if want[i+1] {
						exp = reps
					}
					if n != exp {
						m := filterWith(base, "dispatch-concurrent", "ServeMux.Serve (overlapping)", j, g.Topics[j])
						m.Reg = i
						m.Got, m.Want = fmt.Sprint(n), fmt.Sprint(exp)
						add(m)
					}
				}
			}
			if n := got[[2]int{0, -1}]; n > 0 {
				_ = n
			}
		}
		// registration interleaved with dispatch: after every Handle call each topic is served (twice in a row); exactly
		// the handlers registered SO FAR whose filter matches must run (the expectation restricted to that prefix)
		if len(mx.Regs) <= 8 {
			nt := len(g.Topics)
			if nt > 30 {
				nt = 30
			}
			var log2 []int
			mux2 := &mqtt.ServeMux{}
			for i, f := range mx.Regs {
				idx := i + 1
				_ = mux2.HandleFunc(f, func(*mqtt.Message) { log2 = append(log2, idx) })
				for jj := 0; jj < nt; jj++ {
					// boustrophedon: the first topic served after a registration is the last one served before it
					j := jj
					if i%2 == 1 {
						j = nt - 1 - jj
					}
					t := g.Topics[j]
					want := []int{}
					for _, x := range mx.D[j] {
						if x <= idx {
							want = append(want, x)
						}
					}
					for rep := 0; rep < 2; rep++ {
						m := filterWith(base, "dispatch-after-late-registration", "ServeMux.Handle/Serve", j, t)
						m.Reg = i
						filterGuarded(add, m, func() {
							log2 = log2[:0]
							mux2.Serve(&mqtt.Message{Topic: t})
							if !filterEqualInts(log2, want) {
								m.Got, m.Want = filterFmtInts(log2), filterFmtInts(want)
								add(m)
							}
						})
					}
				}
			}
		}
		for j, t := range g.Topics {
			m := filterWith(base, "dispatch", "ServeMux.Serve", j, t)
			filterGuarded(add, m, func() {
				log = log[:0]
				mux.Serve(&mqtt.Message{Topic: t})
				res.Dispatch++
				res.Invoked += len(log)
				want := mx.D[j]
				if !filterEqualInts(log, want) {
					if filterSameMultiset(log, want) {
						m.Kind = "dispatch-order"
					}
					m.Got, m.Want = filterFmtInts(log), filterFmtInts(want)
					add(m)
				}
			})
		}
	})
}

func filterEqualInts(a, b []int) bool {
	if len(a) != len(b) {
		return false
	}
	for i := range a {
		if a[i] != b[i] {
			return false
		}
	}
	return true
}

func filterSameMultiset(a, b []int) bool {
	x := append([]int{}, a...)
	y := append([]int{}, b...)
	sort.Ints(x)
	sort.Ints(y)
	return filterEqualInts(x, y)
}

func filterFmtInts(a []int) string {
	if len(a) > 40 {
		return fmt.Sprintf("%v... (%d handlers)", a[:40], len(a))
	}
	return fmt.Sprint(a)
}
