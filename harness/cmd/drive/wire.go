package main

import (
	"context"
	"encoding/json"
	"fmt"
	"io"
	"runtime"
	"sync"
	"time"

	mqtt "github.com/at-wat/mqtt-go"

	"verifharness/netsim"
)

// WireScenario (C10): concurrent callers plus inbound traffic over a transport that delivers every
// Write in small chunks, yielding in between, WITHOUT serialising Write calls itself.
type WireScenario struct {
	ID      string   `json:"id"`
	Callers []string `json:"callers"` // each: sequence of ops, e.g. "p0 p1 s g" (publish q0, publish q1, subscribe, ping, u = unsubscribe)
	Inbound int      `json:"inbound"` // number of inbound QoS 1 and QoS 2 messages the reader has to acknowledge
	Chunk   int      `json:"chunk"`   // chunk size (1..)
	Extra   bool     `json:"extra"`   // also hammer the non-writing API (Handle, Err, Done, Stats) concurrently
}

// WireResult carries the byte stream the broker side received.
type WireResult struct {
	ID       string          `json:"id"`
	Stream   []int           `json:"stream"`
	Expected [][]interface{} `json:"expected"`
	Pings    int             `json:"pings"`
	Errs     []string        `json:"errs"`
}

func init() { register("wire", runWireRaw) }

func runWireRaw(raw json.RawMessage) interface{} {
	var sc WireScenario
	if err := json.Unmarshal(raw, &sc); err != nil {
		return map[string]string{"id": "?", "infra": err.Error()}
	}
	return runWire(&sc)
}

type chunkTransport struct {
	mu     sync.Mutex
	cond   *sync.Cond
	stream []byte
	parsed int
	in     []byte
	closed bool
	chunk  int
	dead   bool // the broker side could not parse the stream any more
	// PINGREQ packets parsed (a ping whose context has already ended may or may not have written one)
	pingreqs int
}

func (t *chunkTransport) Write(p []byte) (int, error) {
	for i := 0; i < len(p); i += t.chunk {
		j := i + t.chunk
		if j > len(p) {
			j = len(p)
		}
		t.mu.Lock()
		if t.closed {
			t.mu.Unlock()
			return 0, io.ErrClosedPipe
		}
		t.stream = append(t.stream, p[i:j]...)
		t.cond.Broadcast()
		t.mu.Unlock()
		runtime.Gosched()
	}
	return len(p), nil
}

func (t *chunkTransport) Read(p []byte) (int, error) {
	t.mu.Lock()
	defer t.mu.Unlock()
	for len(t.in) == 0 && !t.closed {
		t.cond.Wait()
	}
	if len(t.in) == 0 {
		return 0, io.EOF
	}
	n := copy(p, t.in)
	t.in = t.in[n:]
	return n, nil
}

func (t *chunkTransport) Close() error {
	t.mu.Lock()
	t.closed = true
	t.cond.Broadcast()
	t.mu.Unlock()
	return nil
}

// broker parses the stream as it grows and answers.
func (t *chunkTransport) broker(inbound int, done chan struct{}) {
	defer close(done)
	t.mu.Lock()
	defer t.mu.Unlock()
	for {
		for !t.closed {
			p, n := netsim.Frame(t.stream[t.parsed:])
			if p == nil {
				break
			}
			t.parsed += n
			if p.Bad != "" {
				t.dead = true
				continue
			}
			switch p.Type {
			case 0x10:
				t.in = append(t.in, netsim.ConnAck(false, 0)...)
				for i := 0; i < inbound; i++ {
					t.in = append(t.in, netsim.Publish("in", []byte(fmt.Sprintf("i1-%d", i)), 1, 100+i, false, false)...)
					t.in = append(t.in, netsim.Publish("in", []byte(fmt.Sprintf("i2-%d", i)), 2, 200+i, false, false)...)
				}
			case 0x30:
				if p.QoS == 1 {
					t.in = append(t.in, netsim.Ack(0x40, p.ID)...)
				} else if p.QoS == 2 {
					t.in = append(t.in, netsim.Ack(0x50, p.ID)...)
				}
			case 0x60:
				t.in = append(t.in, netsim.Ack(0x70, p.ID)...)
			case 0x50:
				t.in = append(t.in, netsim.Ack(0x62, p.ID)...)
			case 0x80:
				codes := make([]byte, len(p.Filters))
				t.in = append(t.in, netsim.SubAck(p.ID, codes)...)
			case 0xA0:
				t.in = append(t.in, netsim.Ack(0xB0, p.ID)...)
			case 0xC0:
				t.pingreqs++
				t.in = append(t.in, netsim.PingResp()...)
			}
			t.cond.Broadcast()
		}
		if t.closed {
			return
		}
		t.cond.Wait()
	}
}

func runWire(sc *WireScenario) *WireResult {
	res := &WireResult{ID: sc.ID, Expected: [][]interface{}{}, Errs: []string{}, Stream: []int{}}
	chunk := sc.Chunk
	if chunk < 1 {
		chunk = 1
	}
	t := &chunkTransport{chunk: chunk}
	t.cond = sync.NewCond(&t.mu)
	bdone := make(chan struct{})
	go t.broker(sc.Inbound, bdone)
	cli := &mqtt.BaseClient{Transport: t}
	var hmu sync.Mutex
	handled := 0
	handler := mqtt.HandlerFunc(func(m *mqtt.Message) {
		hmu.Lock()
		handled++
		hmu.Unlock()
	})
	cli.Handle(handler)
	ctx, cancel := context.WithTimeout(context.Background(), 4*time.Second)
	defer cancel()
	var emu sync.Mutex
	addErr := func(s string) {
		emu.Lock()
		res.Errs = append(res.Errs, s)
		emu.Unlock()
	}
	expect := func(typ int, key interface{}) {
		emu.Lock()
		res.Expected = append(res.Expected, []interface{}{typ, key})
		emu.Unlock()
	}
	expect(1, 0)
	if _, err := cli.Connect(ctx, "wire"); err != nil {
		addErr("connect: " + err.Error())
	}
	for i := 0; i < sc.Inbound; i++ {
		expect(4, 100+i)
		expect(5, 200+i)
		expect(7, 200+i)
	}
	var wg sync.WaitGroup
	stop := make(chan struct{})
	if sc.Extra {
		for k := 0; k < 2; k++ {
			wg.Add(1)
			go func() {
				defer wg.Done()
				for {
					select {
					case <-stop:
						return
					default:
					}
					_ = cli.Err()
					_ = cli.Done()
					_ = cli.Stats()
					cli.Handle(handler) // (re-)registering the handler is part of the API that may be used at any time
					runtime.Gosched()
				}
			}()
		}
	}
	var cwg sync.WaitGroup
	for ci, ops := range sc.Callers {
		ci, ops := ci, ops
		cwg.Add(1)
		go func() {
			defer cwg.Done()
			j := 0
			for _, op := range ops {
				j++
				switch op {
				case '0', '1':
					q := mqtt.QoS(op - '0')
					pl := []byte(fmt.Sprintf("w%d-%d", ci, j))
					expect(3, ints(pl))
					if err := cli.Publish(ctx, &mqtt.Message{Topic: fmt.Sprintf("t/%d", ci), QoS: q, Payload: pl}); err != nil {
						addErr("publish: " + netsim.ErrClass(err))
					}
				case '2':
					// outbound QoS 2: the PUBREL is written by the caller's goroutine while the reader acknowledges inbound traffic
					pl := []byte(fmt.Sprintf("w%d-%d", ci, j))
					expect(3, ints(pl))
					m := &mqtt.Message{Topic: fmt.Sprintf("t/%d", ci), QoS: mqtt.QoS2, Payload: pl}
					if err := cli.Publish(ctx, m); err != nil {
						addErr("publish: " + netsim.ErrClass(err))
					} else {
						expect(6, int(m.ID))
					}
				case 'M':
					// a medium-sized message (a little above typical "large payload" thresholds of 1-4 KiB)
					pl := make([]byte, 4500+ci*300+j*50)
					for k := range pl {
						pl[k] = byte('a' + ci)
					}
					copy(pl, fmt.Sprintf("M%d-%d:", ci, j))
					expect(3, ints(pl))
					if err := cli.Publish(ctx, &mqtt.Message{Topic: fmt.Sprintf("t/%d", ci), QoS: mqtt.QoS0, Payload: pl}); err != nil {
						addErr("publish: " + netsim.ErrClass(err))
					}
				case 'L':
					// a large message (several tens of KiB): written in one BaseClient.write call like any other packet
					pl := make([]byte, 33000+ci*2000+j*500)
					for k := range pl {
						pl[k] = byte('A' + ci)
					}
					copy(pl, fmt.Sprintf("L%d-%d:", ci, j))
					expect(3, ints(pl))
					if err := cli.Publish(ctx, &mqtt.Message{Topic: fmt.Sprintf("t/%d", ci), QoS: mqtt.QoS0, Payload: pl}); err != nil {
						addErr("publish: " + netsim.ErrClass(err))
					}
				case 's':
					f := fmt.Sprintf("s/%d/%d", ci, j)
					body := append([]byte{byte(len(f) >> 8), byte(len(f))}, f...)
					body = append(body, 1)
					expect(8, ints(body))
					if _, err := cli.Subscribe(ctx, mqtt.Subscription{Topic: f, QoS: mqtt.QoS1}); err != nil {
						addErr("subscribe: " + netsim.ErrClass(err))
					}
				case 'u':
					f := fmt.Sprintf("s/%d/%d", ci, j)
					body := append([]byte{byte(len(f) >> 8), byte(len(f))}, f...)
					expect(10, ints(body))
					if err := cli.Unsubscribe(ctx, f); err != nil {
						addErr("unsubscribe: " + netsim.ErrClass(err))
					}
				case 'x':
					// a ping that is given up at once (its context has already ended): the PINGREQ may or may not get
					// onto the wire; what matters here is the failing-ping path running concurrently with everything else
					xctx, xcancel := context.WithCancel(ctx)
					xcancel()
					_ = cli.Ping(xctx)
				case 'g':
					if err := cli.Ping(ctx); err != nil {
						addErr("ping: " + netsim.ErrClass(err))
					}
				}
			}
		}()
	}
	cwg.Wait()
	// let the reader finish acknowledging inbound traffic
	waitFor(func() bool {
		hmu.Lock()
		defer hmu.Unlock()
		t.mu.Lock()
		defer t.mu.Unlock()
		return handled >= 2*sc.Inbound && len(t.in) == 0
	}, 2*time.Second)
	time.Sleep(2 * time.Millisecond)
	close(stop)
	wg.Wait()
	expect(14, 0)
	if err := cli.Disconnect(ctx); err != nil {
		addErr("disconnect: " + netsim.ErrClass(err))
	}
	t.Close()
	<-bdone
	t.mu.Lock()
	res.Stream = ints(t.stream)
	res.Pings = t.pingreqs
	t.mu.Unlock()
	return res
}
