package main

import (
	"bytes"
	"context"
	"encoding/json"
	"errors"
	"fmt"
	"strconv"
	"strings"
	"sync"
	"time"

	mqtt "github.com/at-wat/mqtt-go"

	"verifharness/netsim"
)

// SubSpec is one (filter, QoS) pair of a Subscribe request.
type SubSpec struct {
	F string `json:"f"`
	Q int    `json:"q"`
}

// Req is one application (or environment) step of a retry-family scenario.
//
//	k = pub | sub | unsub | handle | peerclose | sample
//	at = pre | conn | write:K | dial:N | idle
type Req struct {
	K      string    `json:"k"`
	Q      int       `json:"q,omitempty"`
	Subs   []SubSpec `json:"subs,omitempty"`
	Fs     []string  `json:"fs,omitempty"`
	H      int       `json:"h,omitempty"`
	Size   int       `json:"size,omitempty"` // pub: payload padded to this many bytes
	Swap   int       `json:"swap,omitempty"` // handle: this handler, when it receives its first message, registers handler Swap from inside the callback
	At     string    `json:"at"`
	Retain bool      `json:"retain,omitempty"`
	PID    int       `json:"pid,omitempty"`  // pub: packet identifier the application put on the message (0: none)
	Hold   bool      `json:"hold,omitempty"` // do not release the gate of At when moving on
	Gate   string    `json:"gate,omitempty"` // k = release: the gate to release
	Ms     int       `json:"ms,omitempty"`   // k = sleep
}

// RetryOpts are the client options of a retry-family scenario.
type RetryOpts struct {
	DeliverOnRel        bool   `json:"deliverOnRel,omitempty"`
	AlwaysResub         bool   `json:"alwaysResub,omitempty"`
	RespTimeoutMs       int    `json:"respTimeoutMs,omitempty"`
	ConnTimeoutMs       int    `json:"connTimeoutMs,omitempty"`
	PingMs              int    `json:"pingMs,omitempty"`
	ReconnBaseMs        int    `json:"reconnBaseMs,omitempty"`
	ReconnMaxMs         int    `json:"reconnMaxMs,omitempty"`
	QuietMs             int    `json:"quietMs,omitempty"`
	DeadlineMs          int    `json:"deadlineMs,omitempty"`
	CleanSession        bool   `json:"cleanSession,omitempty"`
	NoDisconnect        bool   `json:"noDisconnect,omitempty"`
	DirectQoS0          bool   `json:"directQoS0,omitempty"`
	HookEvents          bool   `json:"hookEvents,omitempty"`
	GrantCap            *int   `json:"grantCap,omitempty"`     // the broker grants at most this QoS in SUBACK
	GrantCode           *int   `json:"grantCode,omitempty"`    // every SUBACK return code is this byte
	MaxPayload          int    `json:"maxPayload,omitempty"`   // MaxPayloadLen of every base client
	KeepAliveSec        int    `json:"keepAliveSec,omitempty"` // ConnectOption WithKeepAlive
	ManualSwitch        string `json:"manualSwitch,omitempty"` // the scripted make-before-break run of manual.go ("handleFirst" | "handleAfter")
	ManualQoS           int    `json:"manualQoS,omitempty"`
	OnErrorStats        bool   `json:"onErrorStats,omitempty"`   // the OnError callback looks at Stats() (e.g. to log the queue lengths)
	HandleViaRetry      bool   `json:"handleViaRetry,omitempty"` // Handle is called on the RetryClient that was given to WithRetryClient, not on the reconnecting client
	AsyncHandlerMs      int    `json:"asyncHandlerMs,omitempty"` // handlers are wrapped in ServeAsync and take this long
	StopApps            int    `json:"stopApps,omitempty"`       // the SetClient / submit / Disconnect run of manual.go (binding of RetryStop.tla)
	StopSkewUs          int    `json:"stopSkewUs,omitempty"`
	PromptAcks          bool   `json:"promptAcks,omitempty"`     // Write returns only after the client's reader consumed the broker's answer
	HoldLoopWakeMs      int    `json:"holdLoopWakeMs,omitempty"` // delay the reconnect loop when it wakes up (hook reconnLoopWake): the keep-alive goroutine goes first
	SampleAfterMs       int    `json:"sampleAfterMs,omitempty"`
	DisconnectAt        string `json:"disconnectAt,omitempty"`
	Hammer              bool   `json:"hammer,omitempty"`              // background goroutines keep calling Ping, Stats, Client, Handle (race-detector runs)
	HammerPub           int    `json:"hammerPub,omitempty"`           // that many further goroutines keep submitting QoS 0 publishes / subscribes through the retrying client (race-detector runs only: the extra traffic is not part of the workload the observers know)
	HammerSubs          bool   `json:"hammerSubs,omitempty"`          // the hammerPub goroutines submit Subscribe / Unsubscribe only
	HammerSleepUs       int    `json:"hammerSleepUs,omitempty"`       // pause between two calls of a hammer goroutine (default 50)
	ReuseMessage        bool   `json:"reuseMessage,omitempty"`        // the application re-uses one Message value for its publishes (resetting ID, payload, QoS; not Dup)
	EpilogueLoseSession bool   `json:"epilogueLoseSession,omitempty"` // after quiescence: broker restart (peer close + session lost), settle again
	NoReestablish       bool   `json:"noReestablish,omitempty"`       // the scenario ends without a healthy connection on purpose
}

// RetryScenario is the input of the retry family.
type RetryScenario struct {
	ID   string      `json:"id"`
	Reqs []Req       `json:"reqs"`
	Plan netsim.Plan `json:"plan"`
	Opts RetryOpts   `json:"opts"`
}

// RetryResult is the output of the retry family.
type RetryResult struct {
	ID   string                 `json:"id"`
	Cfg  map[string]interface{} `json:"cfg"`
	Evs  []netsim.Event         `json:"evs"`
	Info map[string]interface{} `json:"info"`
}

func init() { register("retry", runRetryRaw) }

func runRetryRaw(raw json.RawMessage) interface{} {
	var sc RetryScenario
	if err := json.Unmarshal(raw, &sc); err != nil {
		return map[string]string{"id": "?", "infra": "bad scenario: " + err.Error()}
	}
	if sc.Opts.ManualSwitch != "" {
		return runManualSwitch(&sc)
	}
	if sc.Opts.StopApps > 0 {
		return runStopRace(&sc)
	}
	return runRetry(&sc)
}

func isGateLoc(at string) bool {
	return strings.HasPrefix(at, "write:") || strings.HasPrefix(at, "dial:") || strings.HasPrefix(at, "connopt:")
}

func ms(n, def int) time.Duration {
	if n == 0 {
		n = def
	}
	return time.Duration(n) * time.Millisecond
}

func runRetry(sc *RetryScenario) *RetryResult {
	w := netsim.NewWorld(sc.Plan)
	w.DeliverOnRel = sc.Opts.DeliverOnRel
	if sc.Opts.GrantCode != nil {
		w.GrantCode = *sc.Opts.GrantCode
	}
	w.MaxPayloadLen = sc.Opts.MaxPayload
	if sc.Opts.GrantCap != nil {
		w.GrantCap = *sc.Opts.GrantCap
	}
	w.PromptAcks = sc.Opts.PromptAcks
	w.AutoRelease = true
	rec := w.Rec
	info := map[string]interface{}{}
	quiet := ms(sc.Opts.QuietMs, 150)
	if sc.Opts.RespTimeoutMs > 0 && quiet < 4*ms(sc.Opts.RespTimeoutMs, 0) {
		quiet = 4 * ms(sc.Opts.RespTimeoutMs, 0)
	}
	deadline := time.Now().Add(ms(sc.Opts.DeadlineMs, 5000))

	rc := &mqtt.RetryClient{}
	if sc.Opts.RespTimeoutMs > 0 {
		rc.ResponseTimeout = ms(sc.Opts.RespTimeoutMs, 0)
	}
	rc.DirectlyPublishQoS0 = sc.Opts.DirectQoS0
	rc.OnError = func(err error) {
		var te *mqtt.RequestTimeoutError
		rec.Emit(netsim.Event{"e": "OnError", "cls": netsim.ErrClass(err), "timeout": errors.As(err, &te)})
		if sc.Opts.OnErrorStats {
			_ = rc.Stats()
		}
	}
	opts := []mqtt.ReconnectOption{
		mqtt.WithReconnectWait(ms(sc.Opts.ReconnBaseMs, 2), ms(sc.Opts.ReconnMaxMs, 10)),
		mqtt.WithRetryClient(rc),
		mqtt.WithAlwaysResubscribe(sc.Opts.AlwaysResub),
	}
	if sc.Opts.ConnTimeoutMs > 0 {
		opts = append(opts, mqtt.WithTimeout(ms(sc.Opts.ConnTimeoutMs, 0)))
	}
	if sc.Opts.PingMs > 0 {
		opts = append(opts, mqtt.WithPingInterval(ms(sc.Opts.PingMs, 0)))
	}
	cli, err := mqtt.NewReconnectClient(w.Dialer(), opts...)
	if err != nil {
		return &RetryResult{ID: sc.ID, Info: map[string]interface{}{"infra": err.Error()}}
	}
	if sc.Opts.HookEvents {
		installHookRecorder(rec)
	}
	if sc.Opts.HoldLoopWakeMs > 0 {
		// process-global hook: such scenarios run one at a time
		hold := ms(sc.Opts.HoldLoopWakeMs, 0)
		mqtt.VerifSetHook(func(point string, args ...int64) {
			if point == "reconnLoopWake" {
				rec.Emit(netsim.Event{"e": "H:" + point})
				time.Sleep(hold)
			}
		})
		defer mqtt.VerifSetHook(nil)
	}

	// register gates before anything runs
	gates := map[string]*netsim.Gate{}
	for _, r := range sc.Reqs {
		if isGateLoc(r.At) {
			if _, ok := gates[r.At]; !ok {
				gates[r.At] = w.GateAt(r.At)
			}
		}
	}

	ctx, cancel := context.WithDeadline(context.Background(), deadline.Add(3*time.Second))
	defer cancel()

	statsHung := false
	stats := func() mqtt.RetryStats {
		// Stats takes the client's mutex: bounded, so that a client wedged by a panic under the lock
		// shows up as a finding of the scenario and not as a hung driver
		if statsHung {
			return mqtt.RetryStats{}
		}
		ch := make(chan mqtt.RetryStats, 1)
		go func() { ch <- cli.Stats() }()
		select {
		case st := <-ch:
			return st
		case <-time.After(time.Second):
			statsHung = true
			return mqtt.RetryStats{QueuedTasks: -1}
		}
	}
	isQuiet := func() bool {
		st := stats()
		cur := w.Current()
		return st.QueuedTasks == 0 && st.QueuedRetries == 0 && w.Healthy() && cur != nil && cur.Drained() && rec.Quiet() >= quiet
	}
	runaway := false
	// scenarios without keep-alive pings or hammering callers record well under 100 events (measured); beyond the cap the
	// client is reconnecting / retransmitting without end
	maxEvents := 400
	if sc.Opts.PingMs > 0 || sc.Opts.Hammer || sc.Opts.HammerPub > 0 {
		maxEvents = 3000
	}
	waitQuiet := func() bool {
		for time.Now().Before(deadline) {
			if isQuiet() {
				// looked at twice, with a sleep in between: on a starved machine "no event for a while" may only mean that
				// nothing in this process ran for a while -- timers that are due fire before the second look
				time.Sleep(5 * time.Millisecond)
				if isQuiet() {
					return true
				}
				continue
			}
			if rec.Len() > maxEvents {
				// a client that keeps reconnecting / retransmitting without end: no point in recording more
				runaway = true
				return false
			}
			time.Sleep(3 * time.Millisecond)
		}
		return false
	}

	hammerStop := make(chan struct{})
	var hammerWG sync.WaitGroup
	for k := 0; k < sc.Opts.HammerPub; k++ {
		k := k
		hammerWG.Add(1)
		go func() {
			defer hammerWG.Done()
			for n := 0; ; n++ {
				select {
				case <-hammerStop:
					return
				default:
				}
				// no recover here: a panic in a request submitted while another goroutine disconnects is the library's
				if sc.Opts.DirectQoS0 && rc.Client() == nil {
					// direct publishing has no client to write on yet
					time.Sleep(50 * time.Microsecond)
					continue
				}
				if sc.Opts.HammerSubs {
					// only requests that change the subscription book
					if n%2 == 0 {
						cli.Subscribe(ctx, mqtt.Subscription{Topic: "hammer/" + strconv.Itoa(k), QoS: mqtt.QoS1})
					} else {
						cli.Unsubscribe(ctx, "hammer/"+strconv.Itoa(k))
					}
				} else if (n+k)%8 == 3 {
					cli.Subscribe(ctx, mqtt.Subscription{Topic: "hammer/" + strconv.Itoa(k), QoS: mqtt.QoS1})
				} else if (n+k)%8 == 7 {
					cli.Unsubscribe(ctx, "hammer/"+strconv.Itoa(k))
				} else {
					cli.Publish(ctx, &mqtt.Message{Topic: "hammer", QoS: mqtt.QoS0, Payload: []byte("h")})
				}
				hs := sc.Opts.HammerSleepUs
				if hs == 0 {
					hs = 50
				}
				time.Sleep(time.Duration(hs) * time.Microsecond)
			}
		}()
	}
	if sc.Opts.Hammer {
		for k := 0; k < 3; k++ {
			k := k
			hammerWG.Add(1)
			go func() {
				defer hammerWG.Done()
				for {
					select {
					case <-hammerStop:
						return
					default:
					}
					switch k {
					case 0:
						func() {
							defer func() { recover() }() // Ping before the first SetClient dereferences a nil client
							pctx, pcancel := context.WithTimeout(ctx, 3*time.Millisecond)
							cli.Ping(pctx)
							pcancel()
						}()
					case 1:
						_ = cli.Stats()
						if bc := cli.Client(); bc != nil {
							_ = bc.Err()
							_ = bc.Done()
							_ = bc.Stats()
						}
					case 2:
						cli.Handle(mqtt.HandlerFunc(func(*mqtt.Message) {}))
					}
					hs := sc.Opts.HammerSleepUs
					if hs == 0 {
						hs = 50
					}
					time.Sleep(time.Duration(hs) * time.Microsecond)
				}
			}()
		}
	}
	defer func() {
		close(hammerStop)
		hd := make(chan struct{})
		go func() { hammerWG.Wait(); close(hd) }()
		select {
		case <-hd:
		case <-time.After(3 * time.Second): // a hammer goroutine wedged inside the library: recorded by the scenario itself
		}
	}()
	connCtx, connCancel := context.WithCancel(ctx)
	defer connCancel()
	connDone := make(chan struct{})
	var connErr error
	var connOnce sync.Once
	startConnect := func() {
		connOnce.Do(func() {
			go func() {
				defer close(connDone)
				nopt := 0
				var optMu sync.Mutex
				copts := []mqtt.ConnectOption{mqtt.WithCleanSession(sc.Opts.CleanSession), mqtt.WithKeepAlive(uint16(sc.Opts.KeepAliveSec)), func(o *mqtt.ConnectOptions) error {
					optMu.Lock()
					nopt++
					n := nopt
					optMu.Unlock()
					rec.Emit(netsim.Event{"e": "ConnOpt", "n": n})
					w.ArriveAt("connopt:" + strconv.Itoa(n))
					return nil
				}}
				rec.Emit(netsim.Event{"e": "Call", "c": 0, "kind": "Connect"})
				_, connErr = cli.Connect(connCtx, "verif-client", copts...)
				rec.Emit(netsim.Event{"e": "Ret", "c": 0, "kind": "Connect", "res": netsim.ErrClass(connErr)})
				// applications typically scope Connect's context (WithTimeout + defer cancel): once the first
				// connection is established the client must not depend on it any more
				connCancel()
			}()
		})
	}

	nreq := 0
	stuckCall := ""
	reused := &mqtt.Message{}
	disconnected := false
	var discWG sync.WaitGroup
	releasedNames := map[string]bool{}
	submit := func(r Req) {
		switch r.K {
		case "pub":
			nreq++
			m := &mqtt.Message{Topic: "t", QoS: mqtt.QoS(r.Q), Payload: netsim.PayloadOf(nreq), Retain: r.Retain, ID: uint16(r.PID)}
			if r.Size > len(m.Payload)+1 {
				m.Payload = append(append(m.Payload, ':'), bytes.Repeat([]byte{'.'}, r.Size-len(m.Payload)-1)...)
			}
			if sc.Opts.ReuseMessage {
				// only sound between completed publishes (scenarios place these at "idle")
				reused.Topic, reused.QoS, reused.Payload, reused.Retain, reused.ID = m.Topic, m.QoS, m.Payload, m.Retain, 0
				m = reused
			}
			cseq := rec.Emit(netsim.Event{"e": "SubmitCall", "i": nreq})
			if sc.Opts.DirectQoS0 && r.Q == 0 && rc.Client() == nil {
				// DirectlyPublishQoS0 hands the message to the current client; before the first SetClient there is none
				// (the library dereferences nil there: outside the listed properties, DESIGN.md 13.6).  Not submitted.
				rec.Emit(netsim.Event{"e": "Submit", "i": nreq, "k": "pub", "q": r.Q, "retain": r.Retain, "pid": r.PID, "fs": []string{}, "qs": []int{}, "res": "not-submitted", "cseq": cseq})
				return
			}
			err := cli.Publish(ctx, m)
			rec.Emit(netsim.Event{"e": "Submit", "i": nreq, "k": "pub", "q": r.Q, "retain": r.Retain, "pid": r.PID, "fs": []string{}, "qs": []int{}, "res": netsim.ErrClass(err), "cseq": cseq})
		case "sub":
			nreq++
			subs := make([]mqtt.Subscription, len(r.Subs))
			fs := make([]string, len(r.Subs))
			qs := make([]int, len(r.Subs))
			for i, s := range r.Subs {
				subs[i] = mqtt.Subscription{Topic: s.F, QoS: mqtt.QoS(s.Q)}
				fs[i], qs[i] = s.F, s.Q
			}
			cseq := rec.Emit(netsim.Event{"e": "SubmitCall", "i": nreq})
			_, err := cli.Subscribe(ctx, subs...)
			rec.Emit(netsim.Event{"e": "Submit", "i": nreq, "k": "sub", "q": 0, "fs": fs, "qs": qs, "res": netsim.ErrClass(err), "cseq": cseq})
		case "unsub":
			nreq++
			cseq := rec.Emit(netsim.Event{"e": "SubmitCall", "i": nreq})
			err := cli.Unsubscribe(ctx, r.Fs...)
			rec.Emit(netsim.Event{"e": "Submit", "i": nreq, "k": "unsub", "q": 0, "fs": append([]string{}, r.Fs...), "qs": []int{}, "res": netsim.ErrClass(err), "cseq": cseq})
		case "handle":
			var mk func(h, swap int) mqtt.Handler
			mk = func(h, swap int) mqtt.Handler {
				var once sync.Once
				return mqtt.HandlerFunc(func(m *mqtt.Message) {
					rec.Emit(netsim.Event{"e": "Handled", "h": h, "tag": netsim.TagOf(m.Payload), "qos": int(m.QoS), "dup": m.Dup})
					if swap > 0 {
						once.Do(func() {
							rec.Emit(netsim.Event{"e": "Handle", "h": swap, "phase": "call"})
							cli.Handle(mk(swap, 0))
							rec.Emit(netsim.Event{"e": "Handle", "h": swap, "phase": "ret"})
						})
					}
				})
			}
			rec.Emit(netsim.Event{"e": "Handle", "h": r.H, "phase": "call"})
			var hdl mqtt.Handler = mk(r.H, r.Swap)
			if sc.Opts.AsyncHandlerMs > 0 {
				inner := hdl
				hdl = &mqtt.ServeAsync{Handler: mqtt.HandlerFunc(func(m *mqtt.Message) {
					inner.Serve(m)
					time.Sleep(ms(sc.Opts.AsyncHandlerMs, 0))
				})}
			}
			if sc.Opts.HandleViaRetry {
				rc.Handle(hdl)
			} else {
				cli.Handle(hdl)
			}
			rec.Emit(netsim.Event{"e": "Handle", "h": r.H, "phase": "ret"})
		case "release":
			if g, ok := gates[r.Gate]; ok && !releasedNames[r.Gate] {
				releasedNames[r.Gate] = true
				g.Release()
			}
		case "sleep":
			time.Sleep(ms(r.Ms, 10))
		case "ping":
			// an application-level Ping with its own (short) deadline
			pctx, pcancel := context.WithTimeout(ctx, ms(r.Ms, 3))
			perr := cli.Ping(pctx)
			pcancel()
			rec.Emit(netsim.Event{"e": "AppPing", "res": netsim.ErrClass(perr)})
		case "cancelconnect":
			rec.Emit(netsim.Event{"e": "CancelConnect"})
			connCancel()
		case "disconnect":
			// issued asynchronously: the caller may be holding the loop at a gate
			disconnected = true
			discWG.Add(1)
			go func() {
				defer discWG.Done()
				dctx, dcancel := context.WithTimeout(context.Background(), 2*time.Second)
				defer dcancel()
				rec.Emit(netsim.Event{"e": "Call", "c": 1, "kind": "Disconnect"})
				derr := safeDisconnect(cli, dctx)
				rec.Emit(netsim.Event{"e": "Ret", "c": 1, "kind": "Disconnect", "res": derr})
			}()
			time.Sleep(time.Millisecond)
		case "malformed":
			if cur := w.Current(); cur != nil {
				cur.SendRaw([]byte{0xF0, 0x00}, "reserved-type")
			}
		case "peerclose":
			if cur := w.Current(); cur != nil {
				cur.PeerClose()
			}
		case "sample":
			sampleClient(rec, cli, w)
		}
	}

	unreached := []string{}
	released := map[string]bool{}
	held := map[string]bool{}
	releaseGate := func(name string) {
		if g, ok := gates[name]; ok && !released[name] {
			released[name] = true
			releasedNames[name] = true
			g.Release()
		}
	}
	lastGate := ""
	for i, r := range sc.Reqs {
		at := r.At
		if at == "" {
			at = "conn"
		}
		if lastGate != "" && at != lastGate {
			if !held[lastGate] {
				releaseGate(lastGate)
			}
			lastGate = ""
		}
		if r.Hold {
			held[at] = true
		}
		switch {
		case at == "pre":
			// before Connect is called
		case at == "conn":
			startConnect()
			for waiting := true; waiting; {
				select {
				case <-connDone:
					waiting = false
				case <-time.After(time.Until(deadline)):
					// not an infeasible timing pattern: Connect itself did not return although the broker is reachable
					info["connectStuck"] = true
					waiting = false
				case <-time.After(5 * time.Millisecond):
					// the client is held at a gate of this very scenario whose requests come later in the list:
					// Connect cannot return before them; the timing pattern is infeasible, not a progress failure
					for name, g := range gates {
						if released[name] {
							continue
						}
						select {
						case <-g.Reached():
							unreached = append(unreached, fmt.Sprintf("%d:conn-behind-%s", i, name))
							waiting = false
						default:
						}
					}
				}
			}
		case isGateLoc(at):
			startConnect()
			if !released[at] {
				reached := false
				for !reached {
					select {
					case <-gates[at].Reached():
						reached = true
					case <-time.After(5 * time.Millisecond):
					}
					if reached {
						break
					}
					// a quiescent client will never arrive at the gate: the pattern is infeasible
					connected := false
					select {
					case <-connDone:
						connected = true
					default:
					}
					if (connected && isQuiet()) || !time.Now().Before(deadline) {
						break
					}
				}
				if reached {
					lastGate = at
				} else {
					unreached = append(unreached, fmt.Sprintf("%d:%s", i, at))
					releaseGate(at)
				}
			}
		case at == "idle":
			startConnect()
			if !waitQuiet() {
				unreached = append(unreached, fmt.Sprintf("%d:%s", i, at))
			}
		}
		// a library call that never returns (a lock its own goroutine holds, ...) must show up in the trace of this
		// scenario, not as a hung driver: the call is given until the deadline, then the run is closed without it
		subDone := make(chan struct{})
		go func() {
			defer close(subDone)
			submit(r)
		}()
		select {
		case <-subDone:
		case <-time.After(time.Until(deadline) + 300*time.Millisecond):
			stuckCall = r.K
			rec.Emit(netsim.Event{"e": "Stuck", "k": r.K})
		}
		if stuckCall != "" {
			break
		}
	}
	if lastGate != "" {
		releaseGate(lastGate)
	}
	startConnect()
	for name := range gates {
		releaseGate(name)
	}
	select {
	case <-connDone:
	case <-time.After(time.Until(deadline)):
	}
	drained := false
	if !disconnected && !sc.Opts.NoReestablish {
		drained = waitQuiet()
		if drained && sc.Opts.EpilogueLoseSession {
			// book-keeping errors often show only when the session has to be rebuilt once more
			w.LoseSessionNext()
			if cur := w.Current(); cur != nil {
				cur.PeerClose()
			}
			time.Sleep(5 * time.Millisecond)
			drained = waitQuiet()
		}
	} else {
		time.Sleep(quiet)
	}
	st := stats()
	cur := w.Current()
	curG := 0
	if cur != nil {
		curG = cur.G
	}
	rec.Emit(netsim.Event{"e": "Idle", "drained": drained, "healthy": w.Healthy(), "qt": st.QueuedTasks, "qr": st.QueuedRetries, "g": curG,
		"unreached": len(unreached)})
	if runaway {
		info["runaway"] = true
		rec.Freeze()
	}
	if sc.Opts.SampleAfterMs > 0 {
		sampleClient(rec, cli, w)
		time.Sleep(ms(sc.Opts.SampleAfterMs, 0))
		sampleClient(rec, cli, w)
	}
	info["statsHung"] = statsHung
	if stuckCall != "" {
		info["stuckCall"] = stuckCall
	}
	info["unreached"] = unreached
	info["unusedRules"] = w.UnusedRules()
	info["conns"] = w.NumConns()
	info["stats"] = fmt.Sprintf("%+v", st)
	if sc.Opts.HookEvents {
		info["subEst"] = fmt.Sprint(rc.VerifSubEstablished())
	}
	w.ReleaseAllGates()
	if disconnected {
		w.ReleaseAllGates()
		dd := make(chan struct{})
		go func() { discWG.Wait(); close(dd) }()
		select {
		case <-dd:
		case <-time.After(4 * time.Second):
			info["disconnectStuck"] = true
		}
		time.Sleep(ms(sc.Opts.QuietMs, 30))
	}
	if !sc.Opts.NoDisconnect && !disconnected {
		dctx, dcancel := context.WithTimeout(context.Background(), 2*time.Second)
		rec.Emit(netsim.Event{"e": "Call", "c": 1, "kind": "Disconnect"})
		dch := make(chan string, 1)
		go func() { dch <- safeDisconnect(cli, dctx) }()
		select {
		case derr := <-dch:
			rec.Emit(netsim.Event{"e": "Ret", "c": 1, "kind": "Disconnect", "res": derr})
		case <-time.After(4 * time.Second):
			info["disconnectStuck"] = true
		}
		dcancel()
		if sc.Opts.SampleAfterMs > 0 {
			sampleClient(rec, cli, w)
			time.Sleep(ms(sc.Opts.SampleAfterMs, 0))
			sampleClient(rec, cli, w)
		}
	}
	cancel()
	if sc.Opts.HookEvents {
		mqtt.VerifSetHook(nil)
	}
	cfg := map[string]interface{}{"deliverOnRel": sc.Opts.DeliverOnRel, "alwaysResub": sc.Opts.AlwaysResub,
		"respTimeout": sc.Opts.RespTimeoutMs > 0, "autoRelease": true, "directQoS0": sc.Opts.DirectQoS0, "mode": "reconn",
		"reconnBaseUs": ms(sc.Opts.ReconnBaseMs, 2).Microseconds(), "reconnMaxUs": ms(sc.Opts.ReconnMaxMs, 10).Microseconds(),
		"noReestablish": sc.Opts.NoReestablish || disconnected, "hammer": sc.Opts.Hammer, "maxPayload": sc.Opts.MaxPayload, "cleanSession": sc.Opts.CleanSession}
	return &RetryResult{ID: sc.ID, Cfg: cfg, Evs: rec.Snapshot(), Info: info}
}

// safeDisconnect calls Disconnect and converts a panic of the calling goroutine into a result.
func safeDisconnect(cli mqtt.ReconnectClient, ctx context.Context) (res string) {
	defer func() {
		if r := recover(); r != nil {
			res = "panic: " + fmt.Sprint(r)
		}
	}()
	return netsim.ErrClass(cli.Disconnect(ctx))
}

// sampleClient records Err()/Done() of every base client dialled so far.
func sampleClient(rec *netsim.Recorder, cli mqtt.ReconnectClient, w *netsim.World) {
	for g := 1; g <= w.NumConns(); g++ {
		t := w.Conn(g)
		if t == nil || t.Client == nil {
			continue
		}
		done := false
		dch := t.Client.Done()
		if dch != nil {
			select {
			case <-dch:
				done = true
			default:
			}
		}
		err := t.Client.Err()
		es := ""
		if err != nil {
			es = err.Error()
		}
		rec.Emit(netsim.Event{"e": "Sample", "g": g, "err": netsim.ErrClass(err), "errs": es, "done": done, "closed": t.IsClosed(), "inited": dch != nil, "final": false})
	}
}

var hookMu sync.Mutex

// installHookRecorder records the library's instrumentation events (build tag verif) as "H:<point>".
// The hook is process-global, so scenarios using it must run with concurrency 1.
func installHookRecorder(rec *netsim.Recorder) {
	mqtt.VerifSetHook(func(point string, args ...int64) {
		e := netsim.Event{"e": "H:" + point}
		for i, a := range args {
			e["a"+strconv.Itoa(i)] = a
		}
		rec.Emit(e)
	})
}
