package main

import (
	"context"
	"encoding/json"
	"strconv"
	"sync"
	"time"

	mqtt "github.com/at-wat/mqtt-go"

	"verifharness/netsim"
)

// ConnScenario drives ONE BaseClient through its lifecycle (C16, parts of C11).
//
//	connack: accept | refuse | silent | malformed | peerclose
//	steps:   sample | peerclose | localclose | malformed | disconnect | kaerr | wait | sleep | in1 | in2 (inbound QoS 1 / 2 message)
//	         a step name with suffix "!" is issued without waiting for the previous step to settle
//	hold:    "closedcb": the reader's Closed callback is held (hook connStateCb, build tag verif)
//	         until the following step has been issued (forces the F14 interleaving)
type ConnScenario struct {
	ID            string             `json:"id"`
	ConnAck       string             `json:"connack"`
	ConnectCancel bool               `json:"connectCancel"` // cancel Connect's context while it waits for CONNACK
	Steps         []string           `json:"steps"`
	Hold          string             `json:"hold,omitempty"`
	Faults        []netsim.FaultRule `json:"faults,omitempty"` // write faults, e.g. the client's PUBCOMP cannot be written
	Batch         []ConnScenario     `json:"batch,omitempty"`
}

func init() { register("conn", runConnRaw) }

func runConnRaw(raw json.RawMessage) interface{} {
	var sc ConnScenario
	if err := json.Unmarshal(raw, &sc); err != nil {
		return map[string]string{"id": "?", "infra": err.Error()}
	}
	return runConn(&sc)
}

var connHookMu sync.Mutex

func runConn(sc *ConnScenario) *RetryResult {
	plan := netsim.Plan{}
	switch sc.ConnAck {
	case "refuse":
		plan.ConnAcks = []netsim.ConnAckPlan{{Code: 5}}
	case "refuse1", "refuse6", "refuse17", "refuse128", "refuse255":
		// every return code other than 0 refuses the connection, also the ones MQTT 3.1.1 does not name (6..255)
		n, _ := strconv.Atoi(sc.ConnAck[6:])
		plan.ConnAcks = []netsim.ConnAckPlan{{Code: n}}
	case "silent", "malformed", "peerclose":
		plan.ConnAcks = []netsim.ConnAckPlan{{Silent: true}}
	}
	plan.Writes = append(plan.Writes, sc.Faults...)
	for _, st := range sc.Steps {
		if st == "subbad" || st == "subbad!" {
			// the broker model does not answer that SUBSCRIBE by itself: the step sends a SUBACK with a wrong number of codes
			plan.Writes = append(plan.Writes, netsim.FaultRule{P: "SUBSCRIBE", N: 1, O: "dropAck"})
		}
	}
	w := netsim.NewWorld(plan)
	w.AutoRelease = true
	rec := w.Rec
	info := map[string]interface{}{}
	var release chan struct{}
	if sc.Hold == "closedcb" {
		connHookMu.Lock()
		defer connHookMu.Unlock()
		release = make(chan struct{})
		var once sync.Once
		mqtt.VerifSetHook(func(point string, args ...int64) {
			if point == "connStateCb" && len(args) > 0 && args[0] == int64(mqtt.StateClosed) {
				held := false
				once.Do(func() { held = true })
				if held {
					rec.Emit(netsim.Event{"e": "H:heldClosedCb"})
					<-release
				}
			}
		})
		defer mqtt.VerifSetHook(nil)
	}
	ctx, cancel := context.WithTimeout(context.Background(), 8*time.Second)
	defer cancel()
	cli, err := w.Dial(ctx)
	if err != nil {
		return &RetryResult{ID: sc.ID, Info: map[string]interface{}{"infra": err.Error()}}
	}
	t := w.Conn(1)
	sample := func(final bool) {
		done := false
		dch := cli.Done()
		if dch != nil {
			select {
			case <-dch:
				done = true
			default:
			}
		}
		e := cli.Err()
		es := ""
		if e != nil {
			es = e.Error()
		}
		rec.Emit(netsim.Event{"e": "Sample", "g": 1, "err": netsim.ErrClass(e), "errs": es, "done": done, "closed": t.IsClosed(), "inited": dch != nil, "final": final})
	}
	waitDone := func(d time.Duration) bool {
		dch := cli.Done()
		if dch == nil {
			return false
		}
		select {
		case <-dch:
			return true
		case <-time.After(d):
			return false
		}
	}
	// Connect
	cctx, ccancel := context.WithCancel(ctx)
	connRet := make(chan error, 1)
	rec.Emit(netsim.Event{"e": "Call", "c": 0, "kind": "Connect"})
	go func() {
		_, err := cli.Connect(cctx, "conn")
		rec.Emit(netsim.Event{"e": "Ret", "c": 0, "kind": "Connect", "res": netsim.ErrClass(err)})
		connRet <- err
	}()
	switch sc.ConnAck {
	case "malformed":
		waitWrites(rec, 1)
		t.SendRaw([]byte{0x20, 0x01, 0x00}, "CONNACK-short")
	case "peerclose":
		waitWrites(rec, 1)
		t.PeerClose()
	}
	if sc.ConnectCancel {
		waitWrites(rec, 1)
		ccancel()
	}
	select {
	case <-connRet:
	case <-time.After(3 * time.Second):
		info["connectStuck"] = true
	}
	settle := func() {
		// let the reader goroutine finish its epilogue (or do nothing if the connection lives)
		if t.IsClosed() {
			waitDone(2 * time.Second)
		}
		time.Sleep(2 * time.Millisecond)
	}
	for i, st := range sc.Steps {
		racing := false
		name := st
		if len(st) > 0 && st[len(st)-1] == '!' {
			racing = true
			name = st[:len(st)-1]
		}
		if !racing && i > 0 {
			settle()
		}
		rec.Emit(netsim.Event{"e": "Step", "name": name})
		switch name {
		case "sample":
			sample(false)
		case "peerclose":
			t.PeerClose()
		case "localclose":
			cli.Close()
		case "malformed":
			t.SendRaw([]byte{0xF0, 0x00}, "reserved-type")
		case "in1":
			// an application message from the broker: the reader goroutine has to write an acknowledgement
			w.Send(t, netsim.Publish("in", netsim.PayloadOf(1), 1, 11, false, false))
		case "in2":
			w.Send(t, netsim.Publish("in", netsim.PayloadOf(2), 2, 12, false, false))
		case "subbad":
			// a protocol violation by the broker that the client detects itself: Subscribe with two filters is answered
			// by a SUBACK carrying one return code; the client ends the connection (abnormally: Closed with an error)
			sret := make(chan error, 1)
			go func() {
				sctx, scancel := context.WithTimeout(ctx, 2*time.Second)
				defer scancel()
				_, err := cli.Subscribe(sctx, mqtt.Subscription{Topic: "a", QoS: mqtt.QoS1}, mqtt.Subscription{Topic: "b", QoS: mqtt.QoS1})
				sret <- err
			}()
			id := 0
			for dl := time.Now().Add(2 * time.Second); time.Now().Before(dl) && id == 0; time.Sleep(200 * time.Microsecond) {
				for _, e := range rec.Snapshot() {
					if e["e"] == "Write" && e["p"] == "SUBSCRIBE" {
						id = e["id"].(int)
					}
				}
			}
			w.Send(t, netsim.SubAck(id, []byte{1}))
			select {
			case err := <-sret:
				rec.Emit(netsim.Event{"e": "Ret", "c": 2, "kind": "Subscribe", "res": netsim.ErrClass(err)})
			case <-time.After(3 * time.Second):
				info["subscribeStuck"] = true
			}
		case "badflags":
			t.SendRaw([]byte{0x41, 0x02, 0x00, 0x01}, "PUBACK-badflags")
		case "disconnect":
			dctx, dcancel := context.WithTimeout(ctx, 2*time.Second)
			rec.Emit(netsim.Event{"e": "Call", "c": 1, "kind": "Disconnect"})
			derr := cli.Disconnect(dctx)
			rec.Emit(netsim.Event{"e": "Ret", "c": 1, "kind": "Disconnect", "res": netsim.ErrClass(derr)})
			dcancel()
		case "kaerr":
			// what the reconnecting client's keep-alive goroutine does on a ping timeout
			cli.SetErrorOnce(mqtt.ErrPingTimeout)
			cli.Close()
		case "wait":
			waitDone(2 * time.Second)
		case "sleep":
			time.Sleep(20 * time.Millisecond)
		case "releasecb":
			if release != nil {
				close(release)
				release = nil
			}
		}
	}
	if release != nil {
		close(release)
	}
	settle()
	ended := t.IsClosed()
	if ended {
		info["doneAtEnd"] = waitDone(2 * time.Second)
	}
	time.Sleep(2 * time.Millisecond)
	sample(true)
	rec.Emit(netsim.Event{"e": "End", "ended": ended})
	cli.Close()
	cfg := map[string]interface{}{"mode": "base", "reconnBaseUs": 0, "reconnMaxUs": 0, "noReestablish": true, "hammer": false}
	return &RetryResult{ID: sc.ID, Cfg: cfg, Evs: rec.Snapshot(), Info: info}
}

// waitWrites waits until n Write events have been recorded (bounded).
func waitWrites(rec *netsim.Recorder, n int) {
	deadline := time.Now().Add(2 * time.Second)
	for time.Now().Before(deadline) {
		c := 0
		for _, e := range rec.Snapshot() {
			if e["e"] == "Write" {
				c++
			}
		}
		if c >= n {
			return
		}
		time.Sleep(200 * time.Microsecond)
	}
}
