package main

import (
	"context"
	"encoding/json"
	"errors"
	"sync"
	"time"

	mqtt "github.com/at-wat/mqtt-go"

	"verifharness/netsim"
)

// KAScenario runs the real mqtt.KeepAlive against a scripted, context-respecting client (C13).
type KAScenario struct {
	ID     string       `json:"id"`
	Script []string     `json:"s"`
	Batch  []KAScenario `json:"batch,omitempty"`
	// Cadence > 0: every ping is answered at once; the run ends at the Cadence-th ping; IntervalMs is the ping interval
	Cadence    int `json:"cadence,omitempty"`
	IntervalMs int `json:"intervalMs,omitempty"`
}

// KAResult is what was observed.
type KAResult struct {
	ID    string      `json:"id"`
	Pings int         `json:"pings"`
	Res   string      `json:"res"`
	Batch []*KAResult `json:"batch,omitempty"`
	// cadence runs: time from the start of KeepAlive to the first and to the last ping
	FirstUs int64 `json:"first_us,omitempty"`
	LastUs  int64 `json:"last_us,omitempty"`
}

func init() { register("keepalive", runKARaw) }

var errScripted = errors.New("scripted ping failure")

const kaSlow = 260 * time.Millisecond

type kaClient struct {
	mqtt.Client
	mu     sync.Mutex
	script []string
	pos    int
	pings  int
	cancel context.CancelFunc
}

// Ping implements the scripted outcome of the next ping.
func (c *kaClient) Ping(ctx context.Context) error {
	c.mu.Lock()
	c.pings++
	letter := "end"
	if ctx.Err() == nil && c.pos < len(c.script) {
		letter = c.script[c.pos]
	}
	c.mu.Unlock()
	if ctx.Err() != nil {
		return ctx.Err()
	}
	switch letter {
	case "ok", "slow":
		if letter == "slow" {
			// answered within the timeout but after the next tick
			select {
			case <-time.After(kaSlow):
			case <-ctx.Done():
				return ctx.Err()
			}
		}
		c.mu.Lock()
		c.pos++
		next := "end"
		if c.pos < len(c.script) {
			next = c.script[c.pos]
		}
		c.mu.Unlock()
		if next == "end" || next == "cancelBefore" {
			// the caller's context is cancelled while the loop waits for its next tick
			c.cancel()
		}
		return nil
	case "fail":
		return errScripted
	case "hang":
		<-ctx.Done()
		return ctx.Err()
	case "cancelDuring":
		c.cancel()
		<-ctx.Done()
		return ctx.Err()
	}
	// "cancelBefore" / end of script as the first letter: cancelled before the first tick
	return ctx.Err()
}

func runKARaw(raw json.RawMessage) interface{} {
	var sc KAScenario
	if err := json.Unmarshal(raw, &sc); err != nil {
		return map[string]string{"id": "?", "infra": err.Error()}
	}
	if len(sc.Batch) > 0 {
		res := &KAResult{ID: sc.ID}
		var wg sync.WaitGroup
		res.Batch = make([]*KAResult, len(sc.Batch))
		for i := range sc.Batch {
			wg.Add(1)
			go func(i int) {
				defer wg.Done()
				res.Batch[i] = runKA(&sc.Batch[i])
			}(i)
		}
		wg.Wait()
		return res
	}
	return runKA(&sc)
}

// cadClient answers every ping at once and stops the loop at the n-th ping.
type cadClient struct {
	mqtt.Client
	mu     sync.Mutex
	n      int
	pings  int
	t0     time.Time
	first  time.Duration
	last   time.Duration
	cancel context.CancelFunc
}

func (c *cadClient) Ping(ctx context.Context) error {
	c.mu.Lock()
	defer c.mu.Unlock()
	if ctx.Err() != nil {
		return ctx.Err()
	}
	c.pings++
	d := time.Since(c.t0)
	if c.pings == 1 {
		c.first = d
	}
	c.last = d
	if c.pings >= c.n {
		c.cancel()
		return ctx.Err()
	}
	return nil
}

func runKACadence(sc *KAScenario) *KAResult {
	ctx, cancel := context.WithTimeout(context.Background(), 20*time.Second)
	defer cancel()
	cctx, ccancel := context.WithCancel(ctx)
	defer ccancel()
	cli := &cadClient{n: sc.Cadence, cancel: ccancel, t0: time.Now()}
	interval := time.Duration(sc.IntervalMs) * time.Millisecond
	kret := make(chan error, 1)
	go func() { kret <- mqtt.KeepAlive(cctx, cli, interval, 10*interval) }()
	res := "canceled"
	select {
	case err := <-kret:
		if !errors.Is(err, context.Canceled) {
			res = "other:" + netsim.ErrClass(err)
		}
	case <-func() <-chan time.Time {
		// the loop's context is cancelled at the n-th ping: it has to stop then, not go on pinging
		<-cctx.Done()
		return time.After(time.Second + 20*interval)
	}():
		res = "no-return"
	}
	cli.mu.Lock()
	defer cli.mu.Unlock()
	return &KAResult{ID: sc.ID, Pings: cli.pings, Res: res, FirstUs: cli.first.Microseconds(), LastUs: cli.last.Microseconds()}
}

func runKA(sc *KAScenario) *KAResult {
	if sc.Cadence > 0 {
		return runKACadence(sc)
	}
	ctx, cancel := context.WithCancel(context.Background())
	defer cancel()
	cli := &kaClient{script: sc.Script, cancel: cancel}
	if len(sc.Script) == 0 || sc.Script[0] == "cancelBefore" {
		cancel()
	}
	// interval 5 ms, timeout 300 ms: a scripted immediate answer can never be mistaken for a late one;
	// scripts with slow answers: interval 20 ms < latency 260 ms < timeout 400 ms
	interval, timeout := 5*time.Millisecond, 300*time.Millisecond
	for _, l := range sc.Script {
		if l == "slow" {
			interval, timeout = 20*time.Millisecond, 400*time.Millisecond
		}
	}
	// every script ends the loop (a failing / unanswered ping, or a cancellation): a loop that is still running long after
	// the script is over is a result ("no-return"), not a hung driver
	kret := make(chan error, 1)
	go func() { kret <- mqtt.KeepAlive(ctx, cli, interval, timeout) }()
	var err error
	select {
	case err = <-kret:
	case <-time.After(time.Duration(len(sc.Script)+4)*(interval+timeout) + 3*time.Second):
		cli.mu.Lock()
		defer cli.mu.Unlock()
		return &KAResult{ID: sc.ID, Pings: cli.pings, Res: "no-return"}
	}
	res := "nil"
	switch {
	case errors.Is(err, mqtt.ErrPingTimeout):
		res = "pingtimeout"
	case errors.Is(err, context.Canceled):
		res = "canceled"
	case errors.Is(err, errScripted):
		res = "E"
	case err != nil:
		res = "other:" + netsim.ErrClass(err)
	}
	cli.mu.Lock()
	defer cli.mu.Unlock()
	return &KAResult{ID: sc.ID, Pings: cli.pings, Res: res}
}
