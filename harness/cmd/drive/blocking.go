package main

import (
	"context"
	"encoding/json"
	"errors"
	"fmt"
	"runtime"
	"strings"
	"time"

	mqtt "github.com/at-wat/mqtt-go"

	"verifharness/netsim"
)

// BlockCase (C11): steer a blocking call of kind K to waiting location L, apply Cause, observe.
type BlockCase struct {
	ID    string `json:"id"`
	K     string `json:"k"`
	L     string `json:"l"`
	Cause string `json:"cause"`
	Cls   string `json:"cls"`
	Done  bool   `json:"done"`
	Also  string `json:"also,omitempty"` // a second call of this kind blocked in waitAck at the same time
	Pre   string `json:"pre,omitempty"`  // benign broker traffic before the call: pingresp | foreignAcks | inbound
}

// BlockResult is what happened.
type BlockResult struct {
	ID         string `json:"id"`
	K          string `json:"k"`
	L          string `json:"l"`
	Cause      string `json:"cause"`
	Cls        string `json:"cls"`
	Done       bool   `json:"done"`
	Also       string `json:"also"`
	Pre        string `json:"pre"`
	Steered    bool   `json:"steered"`
	Returned   bool   `json:"returned"`
	Res        string `json:"res"`
	DtMs       int    `json:"dt_ms"`
	AlsoRet    bool   `json:"alsoret"`
	AlsoRes    string `json:"alsores"`
	DoneClosed bool   `json:"doneclosed"`
	Leak       int    `json:"leak"`
	Note       string `json:"note"`
}

func init() { register("blocking", runBlockRaw) }

func runBlockRaw(raw json.RawMessage) interface{} {
	var sc BlockCase
	if err := json.Unmarshal(raw, &sc); err != nil {
		return map[string]string{"id": "?", "infra": err.Error()}
	}
	return runBlock(&sc)
}

func libGoroutines() int {
	buf := make([]byte, 1<<20)
	n := runtime.Stack(buf, true)
	c := 0
	for _, g := range strings.Split(string(buf[:n]), "\n\n") {
		if strings.Contains(g, "github.com/at-wat/mqtt-go.") {
			c++
		}
	}
	return c
}

func waitFor(cond func() bool, d time.Duration) bool {
	dl := time.Now().Add(d)
	for time.Now().Before(dl) {
		if cond() {
			return true
		}
		time.Sleep(200 * time.Microsecond)
	}
	return cond()
}

func countWrites(rec *netsim.Recorder, p string) int {
	n := 0
	for _, e := range rec.Snapshot() {
		if e["e"] == "Write" && e["p"] == p {
			n++
		}
	}
	return n
}

type callRet struct {
	err error
	at  time.Time
}

func runBlock(sc *BlockCase) *BlockResult {
	res := &BlockResult{ID: sc.ID, K: sc.K, L: sc.L, Cause: sc.Cause, Cls: sc.Cls, Done: sc.Done, Also: sc.Also, Pre: sc.Pre}
	base := libGoroutines()
	if strings.HasPrefix(sc.K, "r") {
		runBlockReconn(sc, res)
	} else {
		runBlockBase(sc, res)
	}
	// nothing of the library may be left running for the dead connection
	leak := 0
	waitFor(func() bool { leak = libGoroutines() - base; return leak <= 0 }, time.Second)
	if leak < 0 {
		leak = 0
	}
	res.Leak = leak
	return res
}

func startCall(ctx context.Context, cli *mqtt.BaseClient, kind string, tag int) chan callRet {
	ch := make(chan callRet, 1)
	go func() {
		var err error
		switch kind {
		case "pub1":
			err = cli.Publish(ctx, &mqtt.Message{Topic: "b", QoS: mqtt.QoS1, Payload: netsim.PayloadOf(tag)})
		case "pub2":
			err = cli.Publish(ctx, &mqtt.Message{Topic: "b", QoS: mqtt.QoS2, Payload: netsim.PayloadOf(tag)})
		case "sub":
			_, err = cli.Subscribe(ctx, mqtt.Subscription{Topic: "b/x", QoS: mqtt.QoS1})
		case "unsub":
			err = cli.Unsubscribe(ctx, "b/x")
		case "ping":
			err = cli.Ping(ctx)
		case "disconnect":
			err = cli.Disconnect(ctx)
		}
		ch <- callRet{err, time.Now()}
	}()
	return ch
}

var reqPkt = map[string]string{"pub1": "PUBLISH", "pub2": "PUBLISH", "sub": "SUBSCRIBE", "unsub": "UNSUBSCRIBE", "ping": "PINGREQ", "disconnect": "DISCONNECT"}

// runBlockRetry: location retryWaitComp.  A QoS 2 Publish gets its PUBREC and writes PUBREL, then the connection is
// closed by the peer: the error carries the retry handle of the PUBREL stage.  The handle is run on a second connection
// with a context of its own while the context of the original call stays alive; the broker never sends PUBCOMP.
func runBlockRetry(sc *BlockCase, res *BlockResult) {
	root, rootCancel := context.WithTimeout(context.Background(), 8*time.Second)
	defer rootCancel()
	w1 := netsim.NewWorld(netsim.Plan{})
	w1.ManualAcks = true
	cli1, _ := w1.Dial(root)
	t1 := w1.Conn(1)
	defer cli1.Close()
	if _, err := cli1.Connect(root, "blocking"); err != nil {
		res.Note = "connect: " + err.Error()
		return
	}
	first := startCall(root, cli1, "pub2", 1)
	if !waitFor(func() bool { return countWrites(w1.Rec, "PUBLISH") >= 1 }, 2*time.Second) {
		res.Note = "PUBLISH not written"
		return
	}
	id := 0
	for _, e := range w1.Rec.Snapshot() {
		if e["e"] == "Write" && e["p"] == "PUBLISH" {
			id = e["id"].(int)
		}
	}
	w1.Send(t1, netsim.Ack(0x50, id))
	if !waitFor(func() bool { return countWrites(w1.Rec, "PUBREL") >= 1 }, 2*time.Second) {
		res.Note = "PUBREL not written"
		return
	}
	t1.PeerClose()
	var er mqtt.ErrorWithRetry
	select {
	case r := <-first:
		if !errors.As(r.err, &er) {
			res.Note = "no retry handle: " + fmt.Sprint(r.err)
			return
		}
	case <-time.After(2 * time.Second):
		res.Note = "interrupted Publish did not return"
		return
	}
	w2 := netsim.NewWorld(netsim.Plan{})
	w2.ManualAcks = true
	w2.NoPingResp = true
	cli2, _ := w2.Dial(root)
	t2 := w2.Conn(1)
	defer cli2.Close()
	if _, err := cli2.Connect(root, "blocking"); err != nil {
		res.Note = "connect 2: " + err.Error()
		return
	}
	var cctx context.Context
	var ccancel context.CancelFunc
	if sc.Cause == "ctxDeadline" {
		cctx, ccancel = context.WithTimeout(root, 60*time.Millisecond)
	} else {
		cctx, ccancel = context.WithCancel(root)
	}
	defer ccancel()
	ret := make(chan callRet, 1)
	go func() {
		err := er.Retry(cctx, cli2)
		ret <- callRet{err, time.Now()}
	}()
	res.Steered = waitFor(func() bool { return countWrites(w2.Rec, "PUBREL") >= 1 }, 2*time.Second)
	if !res.Steered {
		return
	}
	t0 := time.Now()
	switch sc.Cause {
	case "ctxCancel":
		ccancel()
	case "localClose":
		cli2.Close()
	case "peerClose":
		t2.PeerClose()
	case "malformed":
		t2.SendRaw([]byte{0xF0, 0x00}, "reserved-type")
	}
	select {
	case r := <-ret:
		res.Returned = true
		res.Res = netsim.ErrClass(r.err)
		res.DtMs = int(r.at.Sub(t0) / time.Millisecond)
	case <-time.After(2 * time.Second):
		res.Res = "timeout"
		res.DtMs = 2000
	}
	if sc.Done {
		if dch := cli2.Done(); dch != nil {
			select {
			case <-dch:
				res.DoneClosed = true
			case <-time.After(2 * time.Second):
			}
		}
	}
	rootCancel()
	cli2.Close()
	if !res.Returned {
		select {
		case <-ret:
		case <-time.After(3 * time.Second):
		}
	}
}

func runBlockBase(sc *BlockCase, res *BlockResult) {
	if sc.L == "retryWaitComp" {
		runBlockRetry(sc, res)
		return
	}
	plan := netsim.Plan{}
	if sc.L == "connectWrite" {
		plan.Writes = []netsim.FaultRule{{K: 1, O: "cutBefore"}}
	}
	if sc.Cause == "closeAfterFailedDisconnect" {
		// the DISCONNECT write reports an error and leaves the transport open
		plan.Writes = append(plan.Writes, netsim.FaultRule{P: "DISCONNECT", N: 1, O: "writeErr"})
	}
	silentConnack := sc.L == "atRLock" || sc.K == "connect"
	if silentConnack {
		plan.ConnAcks = []netsim.ConnAckPlan{{Silent: true}}
	}
	w := netsim.NewWorld(plan)
	w.ManualAcks = true
	w.NoPingResp = true
	rec := w.Rec
	root, rootCancel := context.WithTimeout(context.Background(), 8*time.Second)
	defer rootCancel()
	cli, _ := w.Dial(root)
	t := w.Conn(1)
	defer cli.Close()

	// the context of the call under test
	var cctx context.Context
	var ccancel context.CancelFunc
	mkctx := func() {
		if sc.Cause == "ctxDeadline" {
			cctx, ccancel = context.WithTimeout(root, 60*time.Millisecond)
		} else {
			cctx, ccancel = context.WithCancel(root)
		}
	}
	var ret chan callRet
	var also chan callRet
	connRet := make(chan callRet, 1)
	if sc.K == "connect" {
		mkctx()
		go func() {
			_, err := cli.Connect(cctx, "blocking")
			connRet <- callRet{err, time.Now()}
		}()
		ret = connRet
		res.Steered = waitFor(func() bool { return countWrites(rec, "CONNECT") == 1 }, 2*time.Second)
		if sc.L == "connectWrite" {
			// the cause has already happened inside the write
			select {
			case r := <-connRet:
				res.Returned = true
				res.Res = netsim.ErrClass(r.err)
			case <-time.After(2 * time.Second):
				res.Res = "timeout"
			}
			cli.Close()
			if dch := cli.Done(); dch != nil {
				select {
				case <-dch:
					res.DoneClosed = true
				case <-time.After(2 * time.Second):
				}
			}
			rootCancel()
			return
		}
	} else if sc.L == "atRLock" {
		go func() {
			_, err := cli.Connect(root, "blocking")
			connRet <- callRet{err, time.Now()}
		}()
		if !waitFor(func() bool { return countWrites(rec, "CONNECT") == 1 }, 2*time.Second) {
			res.Note = "CONNECT not written"
			return
		}
		mkctx()
		ret = startCall(cctx, cli, sc.K, 1)
		time.Sleep(3 * time.Millisecond)
		// steered iff the call has neither written nor returned: it waits for the lock
		res.Steered = countWrites(rec, reqPkt[sc.K]) == 0 && len(ret) == 0
	} else {
		handlerEntered := make(chan struct{}, 1)
		handlerRelease := make(chan struct{})
		defer close(handlerRelease)
		fromHandler := make(chan callRet, 1)
		if sc.L == "handlerBusy" || sc.L == "fromHandler" {
			mkctx()
			cli.Handle(mqtt.HandlerFunc(func(*mqtt.Message) {
				select {
				case handlerEntered <- struct{}{}:
				default:
				}
				if sc.L == "fromHandler" {
					// e.g. a "quit" command message: the handler disconnects
					err := cli.Disconnect(cctx)
					fromHandler <- callRet{err, time.Now()}
					return
				}
				<-handlerRelease
			}))
		}
		if _, err := cli.Connect(root, "blocking"); err != nil {
			res.Note = "connect: " + err.Error()
			return
		}
		if sc.L == "handlerBusy" || sc.L == "fromHandler" {
			w.Send(t, netsim.Publish("in", []byte("x"), 0, 0, false, false))
			select {
			case <-handlerEntered:
			case <-time.After(2 * time.Second):
				res.Note = "handler not entered"
				return
			}
		}
		if sc.Pre != "" {
			var pkts [][]byte
			switch sc.Pre {
			case "pingresp":
				pkts = [][]byte{netsim.PingResp(), netsim.PingResp()}
			case "foreignAcks":
				pkts = [][]byte{netsim.Ack(0x40, 901), netsim.Ack(0x50, 902), netsim.Ack(0x70, 903), netsim.SubAck(904, []byte{0}), netsim.Ack(0xB0, 905)}
			case "connacks":
				pkts = [][]byte{netsim.ConnAck(false, 0), netsim.ConnAck(false, 0), netsim.ConnAck(false, 0)}
			case "inbound":
				pkts = [][]byte{netsim.Publish("in", []byte("x"), 0, 0, false, false), netsim.Publish("in", []byte("y"), 1, 906, false, false)}
			}
			reads := func() int {
				n := 0
				for _, e := range rec.Snapshot() {
					if e["e"] == "Read" {
						n++
					}
				}
				return n
			}
			before := reads()
			for _, b := range pkts {
				w.Send(t, b)
			}
			waitFor(func() bool { return reads() >= before+len(pkts) }, time.Second)
			time.Sleep(2 * time.Millisecond)
		}
		if sc.L == "otherInFlight" {
			// Disconnect (the call under test) while another request waits for its acknowledgement
			also = startCall(root, cli, sc.Also, 2)
			if !waitFor(func() bool { return countWrites(rec, reqPkt[sc.Also]) >= 1 }, 2*time.Second) {
				res.Note = "other request not written"
				return
			}
			mkctx()
			ret = startCall(cctx, cli, "disconnect", 1)
			res.Steered = true
		} else if sc.L == "fromHandler" {
			ret = fromHandler
			res.Steered = true
		} else if sc.L == "inWrite" {
			// the request's packet is held inside Transport.Write; the held write returns once the transport is closed
			g := w.GateAtNextWrite()
			mkctx()
			ret = startCall(cctx, cli, sc.K, 1)
			select {
			case <-g.Reached():
				res.Steered = true
			case <-time.After(2 * time.Second):
			}
			go func() {
				waitFor(t.IsClosed, 6*time.Second)
				g.Release()
			}()
		} else {
			if cctx == nil {
				mkctx()
			}
			ret = startCall(cctx, cli, sc.K, 1)
			if sc.K == "disconnect" {
				res.Steered = true
			} else {
				res.Steered = waitFor(func() bool { return countWrites(rec, reqPkt[sc.K]) >= 1 }, 2*time.Second)
				if !res.Steered && sc.Pre != "" {
					// the call is blocked before it even wrote its request: the case still demands that it returns
					res.Steered = true
					res.Note = "request not written"
				}
			}
		}
		if sc.Also != "" && sc.L != "otherInFlight" {
			also = startCall(root, cli, sc.Also, 2)
			want := 1
			if reqPkt[sc.Also] == reqPkt[sc.K] {
				want = 2
			}
			res.Steered = res.Steered && waitFor(func() bool { return countWrites(rec, reqPkt[sc.Also]) >= want }, 2*time.Second)
		}
		if sc.L == "waitComp" && res.Steered {
			id := 0
			for _, e := range rec.Snapshot() {
				if e["e"] == "Write" && e["p"] == "PUBLISH" && e["tag"] == 1 {
					id = e["id"].(int)
				}
			}
			w.Send(t, netsim.Ack(0x50, id))
			res.Steered = waitFor(func() bool { return countWrites(rec, "PUBREL") >= 1 }, 2*time.Second)
		}
	}
	defer ccancel()
	if !res.Steered {
		return
	}
	t0 := time.Now()
	switch sc.Cause {
	case "ctxCancel":
		ccancel()
	case "ctxDeadline":
		// expires by itself
	case "localClose":
		if sc.L == "inWrite" {
			go cli.Close() // (a Close that waits for the held write would hang the driver)
		} else {
			cli.Close()
		}
	case "peerClose":
		t.PeerClose()
	case "malformed":
		t.SendRaw([]byte{0xF0, 0x00}, "reserved-type")
	case "closeAfterFailedDisconnect":
		// another goroutine's Disconnect fails to write DISCONNECT (it returns the error, the transport stays open);
		// the application then ends the connection with Close()
		dret := make(chan callRet, 1)
		go func() {
			dctx, dcancel := context.WithTimeout(root, time.Second)
			defer dcancel()
			dret <- callRet{cli.Disconnect(dctx), time.Now()}
		}()
		also = make(chan callRet, 1)
		select {
		case r := <-dret:
			if r.err == nil || t.IsClosed() {
				res.Steered = false
				res.Note = "Disconnect did not fail as planned"
				return
			}
			also <- r
		case <-time.After(1500 * time.Millisecond):
			// Disconnect is held up somewhere else: Close() has to end the connection all the same, and Disconnect with it
			res.Note = "Disconnect had not returned when Close was called"
			also = dret
		}
		res.Also = "disconnect"
		t0 = time.Now()
		cli.Close()
	case "closeAfterStuckDisconnect":
		// another goroutine's Disconnect is blocked inside the DISCONNECT write (a peer that stopped reading) when the
		// application calls Close(); the blocked write returns once the transport is closed (A4)
		g := w.GateAtNextWrite()
		dret := make(chan callRet, 1)
		go func() {
			dctx, dcancel := context.WithTimeout(root, 5*time.Second)
			defer dcancel()
			dret <- callRet{cli.Disconnect(dctx), time.Now()}
		}()
		select {
		case <-g.Reached():
		case <-time.After(1500 * time.Millisecond):
			// it did not even get to its write: Close() has to end the connection all the same
			res.Note = "Disconnect had not reached its write when Close was called"
		}
		go func() {
			waitFor(t.IsClosed, 6*time.Second)
			g.Release()
		}()
		also = dret
		res.Also = "disconnect"
		t0 = time.Now()
		cli.Close()
	case "otherDisconnect":
		// another goroutine ends the session gracefully while the call waits: the waiting call ends with an error
		// (its acknowledgement did not come), Disconnect itself returns
		go func() {
			dctx, dcancel := context.WithTimeout(root, time.Second)
			defer dcancel()
			_ = cli.Disconnect(dctx)
		}()
	}
	select {
	case r := <-ret:
		res.Returned = true
		res.Res = netsim.ErrClass(r.err)
		res.DtMs = int(r.at.Sub(t0) / time.Millisecond)
	case <-time.After(2 * time.Second):
		res.Returned = false
		res.Res = "timeout"
		res.DtMs = 2000
	}
	if also != nil {
		select {
		case r := <-also:
			res.AlsoRet = true
			res.AlsoRes = netsim.ErrClass(r.err)
		case <-time.After(2 * time.Second):
			res.AlsoRes = "timeout"
		}
	}
	if sc.Done {
		dch := cli.Done()
		if dch != nil {
			select {
			case <-dch:
				res.DoneClosed = true
			case <-time.After(2 * time.Second):
			}
		}
	}
	// cleanup: end everything that may still be blocked
	rootCancel()
	cli.Close()
	t.Close()
	w.ReleaseAllGates()
	if !res.Returned {
		select {
		case <-ret:
		case <-time.After(3 * time.Second):
		}
	}
}

func runBlockReconn(sc *BlockCase, res *BlockResult) {
	plan := netsim.Plan{}
	switch sc.L {
	case "dialFailing", "loopDialing":
		for i := 0; i < 200; i++ {
			plan.Dials = append(plan.Dials, "fail")
		}
	case "waitConnack":
		plan.ConnAcks = []netsim.ConnAckPlan{{Silent: true}}
	}
	w := netsim.NewWorld(plan)
	rec := w.Rec
	root, rootCancel := context.WithTimeout(context.Background(), 8*time.Second)
	defer rootCancel()
	var cancelAtActive context.CancelFunc
	connReturned := make(chan struct{})
	if sc.L == "connectCancelledAtActive" {
		// Connect's context is cancelled at the very moment its first handshake has succeeded (inside the Active callback),
		// and the callback returns only after Connect has given up: the loop finds nobody waiting for its result
		w.OnActive = func(g int) {
			if g == 1 && cancelAtActive != nil {
				cancelAtActive()
				select {
				case <-connReturned:
				case <-time.After(time.Second):
				}
			}
		}
	}
	cli, err := mqtt.NewReconnectClient(w.Dialer(), mqtt.WithReconnectWait(2*time.Millisecond, 5*time.Millisecond))
	if err != nil {
		res.Note = err.Error()
		return
	}
	var cctx context.Context
	var ccancel context.CancelFunc
	if sc.Cause == "ctxDeadline" {
		cctx, ccancel = context.WithTimeout(root, 60*time.Millisecond)
	} else {
		cctx, ccancel = context.WithCancel(root)
	}
	defer ccancel()
	cancelAtActive = ccancel
	connRet := make(chan callRet, 1)
	go func() {
		_, err := cli.Connect(cctx, "blocking")
		close(connReturned)
		connRet <- callRet{err, time.Now()}
	}()
	nd := func() int {
		n := 0
		for _, e := range rec.Snapshot() {
			if e["e"] == "Dial" {
				n++
			}
		}
		return n
	}
	switch sc.L {
	case "dialFailing", "loopDialing":
		res.Steered = waitFor(func() bool { return nd() >= 2 }, 2*time.Second)
	case "waitConnack":
		res.Steered = waitFor(func() bool { return countWrites(rec, "CONNECT") >= 1 }, 2*time.Second)
	case "loopConnected":
		select {
		case r := <-connRet:
			res.Steered = r.err == nil
		case <-time.After(2 * time.Second):
		}
	case "connectCancelledAtActive":
		select {
		case r := <-connRet:
			// Connect gave up (context error) or, if it won the race, succeeded: either way the connection exists
			_ = r
			res.Steered = waitFor(func() bool { return countWrites(rec, "CONNECT") >= 1 }, time.Second)
		case <-time.After(2 * time.Second):
		}
	}
	if !res.Steered {
		return
	}
	t0 := time.Now()
	var ret chan callRet
	if sc.K == "rconnect" {
		ret = connRet
		if sc.Cause == "ctxCancel" {
			ccancel()
		}
	} else {
		ret = make(chan callRet, 1)
		if sc.L == "loopDialing" {
			// Connect has to be abandoned first: nothing ever connects
			ccancel()
			<-connRet
		}
		go func() {
			dctx, dcancel := context.WithTimeout(root, 3*time.Second)
			defer dcancel()
			var err error
			func() {
				defer func() {
					if r := recover(); r != nil {
						err = context.DeadlineExceeded
						res.Note = "panic in Disconnect"
					}
				}()
				err = cli.Disconnect(dctx)
			}()
			ret <- callRet{err, time.Now()}
		}()
	}
	select {
	case r := <-ret:
		res.Returned = true
		res.Res = netsim.ErrClass(r.err)
		res.DtMs = int(r.at.Sub(t0) / time.Millisecond)
	case <-time.After(2 * time.Second):
		res.Res = "timeout"
		res.DtMs = 2000
	}
	rootCancel()
	if sc.K == "rconnect" {
		// stop the loop: Disconnect is the documented way
		func() {
			defer func() { recover() }()
			dctx, dcancel := context.WithTimeout(context.Background(), time.Second)
			defer dcancel()
			cli.Disconnect(dctx)
		}()
	}
	if c := w.Current(); c != nil {
		c.PeerClose()
	}
}
