package main

import (
	"bytes"
	"context"
	"encoding/json"
	"runtime"
	"time"

	mqtt "github.com/at-wat/mqtt-go"

	"verifharness/netsim"
)

// ServeLetter is one broker->client packet of an inbound scenario (C04).
type ServeLetter struct {
	P   string `json:"p"` // PUB | REL
	Q   int    `json:"q"`
	ID  int    `json:"id"`
	Dup bool   `json:"dup"`
}

// ServeScenario feeds a sequence of packets to a connected BaseClient.
type ServeScenario struct {
	ID      string        `json:"id"`
	Letters []ServeLetter `json:"letters"`
	Handler bool          `json:"handler"`
	Slow    bool          `json:"slow"` // the handler yields before returning
	// Reply: the handler uses the client itself (a request/response application publishes its QoS 0 answer from inside
	// the handler); the handler must come back and the acknowledgement of the message must follow
	Reply bool `json:"reply,omitempty"`
	// Topic of the inbound messages (default "in"); scenarios also use names with multi-byte UTF-8 characters
	Topic string `json:"topic,omitempty"`
	// MaxPayload: the client's MaxPayloadLen (a limit on what the application may PUBLISH; what the broker sends is
	// within it here); PayloadLen: inbound payloads are padded to this many bytes
	MaxPayload int `json:"maxPayload,omitempty"`
	PayloadLen int `json:"payloadLen,omitempty"`
	// EmptyPayload: inbound messages carry no payload at all (tag 0 for every message of the scenario)
	EmptyPayload bool `json:"emptyPayload,omitempty"`
	// Faults: write faults on the client's acknowledgements (e.g. the first PUBCOMP cannot be written: cutBefore)
	Faults []netsim.FaultRule `json:"faults,omitempty"`
	// Batch: several scenarios in one line (amortises process/JSON overhead)
	Batch []ServeScenario `json:"batch,omitempty"`
}

// ServeResult is the recorded timeline: one entry per event
// ["in", p, id, tag, q] | ["he", tag] | ["hl", tag] | ["out", p, id]
type ServeResult struct {
	ID      string          `json:"id"`
	Handler bool            `json:"handler"`
	Faulty  bool            `json:"faulty"`
	TL      [][]interface{} `json:"tl"`
	Err     string          `json:"err"`
	Batch   []*ServeResult  `json:"batch,omitempty"`
}

func init() { register("serve", runServeRaw) }

func runServeRaw(raw json.RawMessage) interface{} {
	var sc ServeScenario
	if err := json.Unmarshal(raw, &sc); err != nil {
		return map[string]string{"id": "?", "infra": err.Error()}
	}
	if len(sc.Batch) > 0 {
		res := &ServeResult{ID: sc.ID}
		for i := range sc.Batch {
			res.Batch = append(res.Batch, runServe(&sc.Batch[i]))
		}
		return res
	}
	return runServe(&sc)
}

func runServe(sc *ServeScenario) *ServeResult {
	res := &ServeResult{ID: sc.ID, Handler: sc.Handler, Faulty: len(sc.Faults) > 0, TL: [][]interface{}{}}
	w := netsim.NewWorld(netsim.Plan{Writes: append([]netsim.FaultRule{}, sc.Faults...)})
	w.AutoRelease = false
	w.MaxPayloadLen = sc.MaxPayload
	ctx, cancel := context.WithTimeout(context.Background(), 5*time.Second)
	defer cancel()
	cli, err := w.Dial(ctx)
	if err != nil {
		res.Err = "dial: " + err.Error()
		return res
	}
	if sc.Handler {
		cli.Handle(mqtt.HandlerFunc(func(m *mqtt.Message) {
			tag := netsim.TagOf(m.Payload)
			w.Rec.Emit(netsim.Event{"e": "Handled", "phase": "enter", "tag": tag})
			if sc.Slow {
				runtime.Gosched()
				time.Sleep(200 * time.Microsecond)
			}
			if sc.Reply {
				rctx, rcancel := context.WithTimeout(ctx, time.Second)
				_ = cli.Publish(rctx, &mqtt.Message{Topic: "reply", QoS: mqtt.QoS0, Payload: []byte("r")})
				rcancel()
			}
			w.Rec.Emit(netsim.Event{"e": "Handled", "phase": "leave", "tag": tag})
		}))
	}
	if _, err := cli.Connect(ctx, "serve"); err != nil {
		res.Err = "connect: " + err.Error()
		return res
	}
	t := w.Conn(1)
	for i, l := range sc.Letters {
		switch l.P {
		case "PUB":
			topic := sc.Topic
			if topic == "" {
				topic = "in"
			}
			pl := netsim.PayloadOf(i + 1)
			if sc.PayloadLen > len(pl)+1 {
				pl = append(append(pl, ':'), bytes.Repeat([]byte{'.'}, sc.PayloadLen-len(pl)-1)...)
			}
			if sc.EmptyPayload {
				pl = nil
			}
			w.Send(t, netsim.Publish(topic, pl, l.Q, l.ID, l.Dup, false))
		case "REL":
			w.Send(t, netsim.Ack(0x62, l.ID))
		}
	}
	// barrier: the reader processes packets in order, so once PINGRESP has been dispatched
	// everything before it has been processed
	if err := cli.Ping(ctx); err != nil {
		res.Err = "barrier ping: " + netsim.ErrClass(err)
	}
	started := false
	for _, e := range w.Rec.Snapshot() {
		switch e["e"] {
		case "Read":
			if e["p"] == "CONNACK" {
				started = true
				continue
			}
			if e["p"] == "PINGRESP" {
				continue
			}
			res.TL = append(res.TL, []interface{}{"in", e["p"], e["id"], e["tag"], e["qos"]})
		case "Handled":
			k := "he"
			if e["phase"] == "leave" {
				k = "hl"
			}
			res.TL = append(res.TL, []interface{}{k, e["tag"]})
		case "Write":
			if !started || e["p"] == "PINGREQ" || e["p"] == "CONNECT" || e["p"] == "PUBLISH" {
				continue // (PUBLISH: the handler's own reply, not an acknowledgement)
			}
			if e["ok"] == false {
				continue // the write failed: nothing went out (the close event follows)
			}
			res.TL = append(res.TL, []interface{}{"out", e["p"], e["id"]})
		case "Close":
			res.TL = append(res.TL, []interface{}{"close", e["by"]})
		}
	}
	cli.Close()
	return res
}
