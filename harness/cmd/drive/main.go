// Command drive executes verification scenarios against the real mqtt-go code.
//
//	drive run <family> [-j workers] [-c concurrency] < scenarios.ndjson > results.ndjson
//	drive worker <family> [-c concurrency]            (internal: one scenario per stdin line)
//
// The supervisor ("run") feeds scenarios to child worker processes, so that a panic inside a
// library goroutine (which kills the whole process) is attributed to the scenario that caused it:
// scenarios in flight in a crashed worker are re-run alone; a scenario that crashes alone yields a
// result {"id":..., "crash": "<stderr tail>"}.
package main

import (
	"bufio"
	"encoding/json"
	"flag"
	"fmt"
	"os"
	"os/exec"
	"runtime"
	"strings"
	"sync"
	"time"
)

// Family executes one scenario (raw JSON) and returns a JSON-serialisable result carrying "id".
type Family func(raw json.RawMessage) interface{}

var families = map[string]Family{}

func register(name string, f Family) { families[name] = f }

type idOnly struct {
	ID string `json:"id"`
}

func main() {
	if len(os.Args) < 3 {
		fmt.Fprintln(os.Stderr, "usage: drive run|worker <family> [flags]")
		os.Exit(2)
	}
	mode, fam := os.Args[1], os.Args[2]
	fs := flag.NewFlagSet("drive", flag.ExitOnError)
	j := fs.Int("j", runtime.NumCPU(), "worker processes")
	c := fs.Int("c", 4, "scenarios in flight per worker")
	tmo := fs.Duration("timeout", 60*time.Second, "per-scenario timeout in the supervisor")
	fs.Parse(os.Args[3:])
	f, ok := families[fam]
	if !ok {
		fmt.Fprintf(os.Stderr, "unknown family %q\n", fam)
		os.Exit(2)
	}
	switch mode {
	case "worker":
		worker(f, *c)
	case "run":
		supervise(fam, *j, *c, *tmo)
	default:
		fmt.Fprintln(os.Stderr, "unknown mode", mode)
		os.Exit(2)
	}
}

func worker(f Family, conc int) {
	in := bufio.NewReaderSize(os.Stdin, 1<<20)
	var outMu sync.Mutex
	out := bufio.NewWriter(os.Stdout)
	sem := make(chan struct{}, conc)
	var wg sync.WaitGroup
	for {
		line, err := in.ReadBytes('\n')
		if len(line) > 1 {
			raw := append([]byte{}, line...)
			sem <- struct{}{}
			wg.Add(1)
			go func() {
				defer wg.Done()
				defer func() { <-sem }()
				res := f(json.RawMessage(raw))
				b, merr := json.Marshal(res)
				if merr != nil {
					var id idOnly
					json.Unmarshal(raw, &id)
					b, _ = json.Marshal(map[string]string{"id": id.ID, "infra": "marshal: " + merr.Error()})
				}
				outMu.Lock()
				out.Write(b)
				out.WriteByte('\n')
				out.Flush()
				outMu.Unlock()
			}()
		}
		if err != nil {
			break
		}
	}
	wg.Wait()
}

type job struct {
	id   string
	raw  []byte
	solo bool
}

// tailBuf keeps the beginning (a Go panic message and the panicking goroutine come first) and the end of a worker's stderr.
type tailBuf struct {
	mu   sync.Mutex
	head []byte
	buf  []byte
	cut  bool
}

func (t *tailBuf) Write(p []byte) (int, error) {
	t.mu.Lock()
	defer t.mu.Unlock()
	q := p
	if room := 8192 - len(t.head); room > 0 {
		if room > len(q) {
			room = len(q)
		}
		t.head = append(t.head, q[:room]...)
		q = q[room:]
	}
	t.buf = append(t.buf, q...)
	if len(t.buf) > 16384 {
		t.buf = t.buf[len(t.buf)-16384:]
		t.cut = true
	}
	return len(p), nil
}

func (t *tailBuf) String() string {
	t.mu.Lock()
	defer t.mu.Unlock()
	if t.cut {
		return string(t.head) + "\n[...]\n" + string(t.buf)
	}
	return string(t.head) + string(t.buf)
}

func supervise(fam string, nworkers, conc int, tmo time.Duration) {
	in := bufio.NewReaderSize(os.Stdin, 1<<20)
	var jobs []job
	for {
		line, err := in.ReadBytes('\n')
		if len(strings.TrimSpace(string(line))) > 0 {
			var id idOnly
			if jerr := json.Unmarshal(line, &id); jerr != nil {
				fmt.Fprintln(os.Stderr, "bad scenario line:", jerr)
				os.Exit(2)
			}
			if !strings.HasSuffix(string(line), "\n") {
				line = append(line, '\n')
			}
			jobs = append(jobs, job{id: id.ID, raw: line})
		}
		if err != nil {
			break
		}
	}
	queue := make(chan job, len(jobs)*2+16)
	for _, jb := range jobs {
		queue <- jb
	}
	var outMu sync.Mutex
	out := bufio.NewWriterSize(os.Stdout, 1<<20)
	emit := func(b []byte) {
		outMu.Lock()
		out.Write(b)
		if len(b) == 0 || b[len(b)-1] != '\n' {
			out.WriteByte('\n')
		}
		outMu.Unlock()
	}
	var pending sync.WaitGroup
	pending.Add(len(jobs))
	if nworkers > len(jobs) {
		nworkers = len(jobs)
	}
	if nworkers < 1 {
		nworkers = 1
	}
	self, _ := os.Executable()
	for w := 0; w < nworkers; w++ {
		go func() {
			for {
				// (re)start a worker process and feed it until it dies or the queue is closed
				runWorker(self, fam, conc, queue, emit, &pending, tmo)
			}
		}()
	}
	pending.Wait()
	outMu.Lock()
	out.Flush()
	outMu.Unlock()
}

// runWorker starts one worker process and keeps up to conc scenarios in flight in it.
func runWorker(self, fam string, conc int, queue chan job, emit func([]byte), pending *sync.WaitGroup, tmo time.Duration) {
	first := <-queue
	c := conc
	if first.solo {
		c = 1
	}
	cmd := exec.Command(self, "worker", fam, "-c", fmt.Sprint(c))
	stdin, _ := cmd.StdinPipe()
	stdout, _ := cmd.StdoutPipe()
	tail := &tailBuf{}
	cmd.Stderr = tail
	if err := cmd.Start(); err != nil {
		fmt.Fprintln(os.Stderr, "cannot start worker:", err)
		os.Exit(2)
	}
	var mu sync.Mutex
	inflight := map[string]job{}
	results := make(chan []byte, 64)
	go func() {
		r := bufio.NewReaderSize(stdout, 1<<20)
		for {
			line, err := r.ReadBytes('\n')
			if len(line) > 1 {
				results <- line
			}
			if err != nil {
				close(results)
				return
			}
		}
	}()
	send := func(jb job) {
		mu.Lock()
		inflight[jb.id] = jb
		mu.Unlock()
		stdin.Write(jb.raw)
	}
	send(first)
	n := 1
	timer := time.NewTimer(tmo)
	defer timer.Stop()
	dead := false
	draining := false
	for !dead {
		var q chan job
		if n < c && !first.solo && !draining {
			q = queue
		}
		if draining && n == 0 {
			stdin.Close()
			cmd.Wait()
			return
		}
		select {
		case jb := <-q:
			if jb.solo {
				// solo jobs get their own process: put it back, finish what is in flight, restart
				queue <- jb
				draining = true
				continue
			}
			send(jb)
			n++
		case line, ok := <-results:
			if !ok {
				dead = true
				break
			}
			var id idOnly
			json.Unmarshal(line, &id)
			mu.Lock()
			_, known := inflight[id.ID]
			delete(inflight, id.ID)
			mu.Unlock()
			if known {
				emit(line)
				pending.Done()
				n--
			}
			if !timer.Stop() {
				select {
				case <-timer.C:
				default:
				}
			}
			timer.Reset(tmo)
			if first.solo {
				stdin.Close()
				cmd.Wait()
				return
			}
		case <-timer.C:
			mu.Lock()
			empty := len(inflight) == 0
			mu.Unlock()
			if empty {
				timer.Reset(tmo)
				continue
			}
			cmd.Process.Kill()
			dead = true
		}
	}
	stdin.Close()
	cmd.Wait()
	mu.Lock()
	left := make([]job, 0, len(inflight))
	for _, jb := range inflight {
		left = append(left, jb)
	}
	mu.Unlock()
	for _, jb := range left {
		if jb.solo || len(left) == 1 {
			b, _ := json.Marshal(map[string]string{"id": jb.id, "crash": tail.String()})
			emit(b)
			pending.Done()
		} else {
			jb.solo = true
			queue <- jb
		}
	}
}
