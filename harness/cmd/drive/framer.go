package main

import (
	"context"
	"encoding/json"
	"fmt"
	"time"

	mqtt "github.com/at-wat/mqtt-go"

	"verifharness/netsim"
)

// FramerScenario (C06): mode "stream" feeds Bytes to a connected BaseClient after CONNACK;
// mode "parse" calls the real parser of packet type T on (F, Body).
type FramerScenario struct {
	ID    string `json:"id"`
	Mode  string `json:"mode"`
	Bytes []int  `json:"bytes,omitempty"`
	Split int    `json:"split,omitempty"` // deliver the stream in chunks of this many bytes (0: at once)
	T     int    `json:"t,omitempty"`
	F     int    `json:"f,omitempty"`
	Body  []int  `json:"body,omitempty"`
	// At: where the stream is placed: "" after the connection is established (default), "noconnack" instead of the
	// CONNACK, "withconnack" directly behind the CONNACK in the same segment (before Connect has returned)
	At string `json:"at,omitempty"`
	// Pending: a request of this kind ("sub1".."sub3" = Subscribe with 1..3 filters, "unsub", "pub1", "pub2", "ping") is
	// outstanding -- written, not answered by the broker model -- when Acks are sent: packets built around the request's
	// own identifier (first byte T, then a remaining length, then identifier + D, then X)
	// NoHandler: the application never called Handle (a publisher-only client)
	NoHandler bool             `json:"noHandler,omitempty"`
	Pending   string           `json:"pending,omitempty"`
	Acks      []FramerAck      `json:"acks,omitempty"`
	Batch     []FramerScenario `json:"batch,omitempty"`
}

// FramerAck is a packet answering (or pretending to answer) the outstanding request.
type FramerAck struct {
	T int   `json:"t"`
	D int   `json:"d"`
	X []int `json:"x"`
}

// FramerMsg is a message as the handler saw it.
type FramerMsg struct {
	T  []int `json:"t"`
	P  []int `json:"p"`
	Q  int   `json:"q"`
	R  bool  `json:"r"`
	D  bool  `json:"d"`
	ID int   `json:"id"`
}

// FramerResult is what was observed.
type FramerResult struct {
	ID       string          `json:"id"`
	Mode     string          `json:"mode"`
	Bytes    []int           `json:"bytes"`
	HO       []FramerMsg     `json:"ho"`
	Died     bool            `json:"died"`
	ErrNil   bool            `json:"errnil"`
	CbClosed bool            `json:"cbclosed"`
	MaxBuf   int             `json:"maxbuf"`
	Cls      string          `json:"cls"`
	T        int             `json:"t"`
	F        int             `json:"f"`
	Body     []int           `json:"body"`
	Res      string          `json:"res"`
	CallRet  bool            `json:"callret"` // Pending: the outstanding call has returned by the end of the run
	CallCls  string          `json:"callcls"`
	Batch    []*FramerResult `json:"batch,omitempty"`
}

func init() { register("framer", runFramerRaw) }

func runFramerRaw(raw json.RawMessage) interface{} {
	var sc FramerScenario
	if err := json.Unmarshal(raw, &sc); err != nil {
		return map[string]string{"id": "?", "infra": err.Error()}
	}
	if len(sc.Batch) > 0 {
		res := &FramerResult{ID: sc.ID, Mode: "batch"}
		for i := range sc.Batch {
			res.Batch = append(res.Batch, runFramer(&sc.Batch[i]))
		}
		return res
	}
	return runFramer(&sc)
}

func ints(b []byte) []int {
	out := make([]int, len(b))
	for i, x := range b {
		out[i] = int(x)
	}
	return out
}

func bytesOf(v []int) []byte {
	out := make([]byte, len(v))
	for i, x := range v {
		out[i] = byte(x)
	}
	return out
}

func runFramer(sc *FramerScenario) *FramerResult {
	if sc.Mode == "parse" {
		return runParse(sc)
	}
	res := &FramerResult{ID: sc.ID, Mode: "stream", Bytes: sc.Bytes, HO: []FramerMsg{}, Body: []int{}}
	if res.Bytes == nil {
		res.Bytes = []int{}
	}
	plan := netsim.Plan{}
	if sc.Pending != "" {
		// the broker model does not answer the outstanding request: the scenario's Acks do
		for _, pk := range []string{"SUBSCRIBE", "UNSUBSCRIBE", "PUBLISH", "PINGREQ"} {
			plan.Writes = append(plan.Writes, netsim.FaultRule{P: pk, N: 1, O: "dropAck"})
		}
	}
	w := netsim.NewWorld(plan)
	w.AutoRelease = false
	ctx, cancel := context.WithTimeout(context.Background(), 5*time.Second)
	defer cancel()
	cli, err := w.Dial(ctx)
	if err != nil {
		res.Res = "dial: " + err.Error()
		return res
	}
	closedErr := ""
	closedSeen := false
	prev := cli.ConnState
	cli.ConnState = func(s mqtt.ConnState, e error) {
		if s == mqtt.StateClosed {
			closedSeen = true
			if e != nil {
				closedErr = e.Error()
			}
		}
		if prev != nil {
			prev(s, e)
		}
	}
	// applications commonly dispatch through the library's ServeMux: whatever topic the broker's bytes decode to
	// goes through filter matching as well (handlers that do nothing; the hand-over record is taken before)
	mux := &mqtt.ServeMux{}
	for _, f := range []string{"#", "+", "+/+", "a/#", "a/+/c", "$SYS/#"} {
		_ = mux.HandleFunc(f, func(*mqtt.Message) {})
	}
	if !sc.NoHandler {
		cli.Handle(mqtt.HandlerFunc(func(m *mqtt.Message) {
			res.HO = append(res.HO, FramerMsg{T: ints([]byte(m.Topic)), P: ints(m.Payload), Q: int(m.QoS), R: m.Retain, D: m.Dup, ID: int(m.ID)})
			mux.Serve(m)
		}))
	}
	stream := bytesOf(sc.Bytes)
	if sc.At != "" {
		// the broker's first bytes are scripted: CONNECT is not answered by the broker model
		w.Plan.ConnAcks = []netsim.ConnAckPlan{{Silent: true}}
		cret := make(chan error, 1)
		go func() {
			_, err := cli.Connect(ctx, "framer")
			cret <- err
		}()
		waitWrites(w.Rec, 1)
		t0 := w.Conn(1)
		first := stream
		if sc.At == "withconnack" {
			first = append(netsim.ConnAck(false, 0), stream...)
		}
		t0.SendRaw(first, "raw")
		select {
		case <-cret:
		case <-time.After(3 * time.Second):
			res.Res = "Connect did not return"
			return res
		}
		stream = nil
	} else if _, err := cli.Connect(ctx, "framer"); err != nil {
		res.Res = "connect: " + err.Error()
		return res
	}
	t := w.Conn(1)
	callRet := make(chan error, 1)
	if sc.Pending != "" {
		pk := map[string]string{"sub1": "SUBSCRIBE", "sub2": "SUBSCRIBE", "sub3": "SUBSCRIBE", "unsub": "UNSUBSCRIBE", "pub1": "PUBLISH", "pub2": "PUBLISH", "ping": "PINGREQ"}[sc.Pending]
		go func() {
			var err error
			switch sc.Pending {
			case "sub1", "sub2", "sub3":
				subs := []mqtt.Subscription{{Topic: "p/1", QoS: mqtt.QoS1}, {Topic: "p/2", QoS: mqtt.QoS2}, {Topic: "p/3", QoS: mqtt.QoS0}}[:int(sc.Pending[3]-'0')]
				_, err = cli.Subscribe(ctx, subs...)
			case "unsub":
				err = cli.Unsubscribe(ctx, "p/1")
			case "pub1":
				err = cli.Publish(ctx, &mqtt.Message{Topic: "p", QoS: mqtt.QoS1, Payload: []byte("x")})
			case "pub2":
				err = cli.Publish(ctx, &mqtt.Message{Topic: "p", QoS: mqtt.QoS2, Payload: []byte("x")})
			case "ping":
				err = cli.Ping(ctx)
			}
			callRet <- err
		}()
		id := -1
		waitFor(func() bool {
			for _, e := range w.Rec.Snapshot() {
				if e["e"] == "Write" && e["p"] == pk {
					id = e["id"].(int)
					return true
				}
			}
			return false
		}, 2*time.Second)
		if id < 0 {
			res.Res = "outstanding request not written"
			return res
		}
		for _, a := range sc.Acks {
			x := (id + a.D) & 0xFFFF
			body := append([]byte{byte(x >> 8), byte(x)}, bytesOf(a.X)...)
			stream = append(stream, byte(a.T), byte(len(body)))
			stream = append(stream, body...)
		}
		res.Bytes = ints(stream)
	}
	if len(stream) == 0 {
		// already delivered
	} else if sc.Split > 0 {
		for i := 0; i < len(stream); i += sc.Split {
			j := i + sc.Split
			if j > len(stream) {
				j = len(stream)
			}
			t.SendRaw(stream[i:j], "raw")
		}
	} else {
		t.SendRaw(stream, "raw")
	}
	// wait until the client has died by itself, or has consumed everything and gone quiet
	deadline := time.Now().Add(3 * time.Second)
	done := cli.Done()
	died := false
	for time.Now().Before(deadline) {
		select {
		case <-done:
			died = true
		default:
		}
		if died || (t.Drained() && w.Rec.Quiet() > 3*time.Millisecond) {
			break
		}
		time.Sleep(200 * time.Microsecond)
	}
	if !died {
		// one more chance for a death that is in progress, then end the run from the peer side
		select {
		case <-done:
			died = true
		case <-time.After(2 * time.Millisecond):
		}
	}
	selfClosed := died && t.ClosedBy() == "local"
	if !died {
		t.PeerClose()
		select {
		case <-done:
		case <-time.After(2 * time.Second):
			res.Res = "reader did not exit after peer close"
		}
	}
	time.Sleep(200 * time.Microsecond)
	if sc.Pending != "" {
		// the connection has ended by now (by itself or by the peer close above): the outstanding call returns
		select {
		case err := <-callRet:
			res.CallRet = true
			res.CallCls = netsim.ErrClass(err)
		case <-time.After(2 * time.Second):
		}
	}
	e := cli.Err()
	res.ErrNil = e == nil
	res.Cls = netsim.ErrClass(e)
	// the client ended the connection by itself: it closed the transport, or (if the peer close of this
	// driver overtook a death in progress) its error is not the end-of-stream the peer close produces
	res.Died = selfClosed || (res.Cls != "eof" && res.Cls != "nil")
	res.CbClosed = closedSeen && e != nil && closedErr == e.Error()
	res.MaxBuf = t.MaxRead()
	if res.HO == nil {
		res.HO = []FramerMsg{}
	}
	return res
}

func runParse(sc *FramerScenario) (res *FramerResult) {
	res = &FramerResult{ID: sc.ID, Mode: "parse", T: sc.T, F: sc.F, Body: sc.Body, Bytes: []int{}, HO: []FramerMsg{}}
	if res.Body == nil {
		res.Body = []int{}
	}
	defer func() {
		if r := recover(); r != nil {
			res.Res = "panic"
			res.Cls = fmt.Sprint(r)
		}
	}()
	_, err := mqtt.VerifParse(byte(sc.T<<4), byte(sc.F), bytesOf(sc.Body))
	if err != nil {
		res.Res = "err"
		res.Cls = netsim.ErrClass(err)
	} else {
		res.Res = "ok"
	}
	return res
}
