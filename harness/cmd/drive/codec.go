package main

// Family "codec" (property C05): runs the real public API of mqtt-go on one test vector that TLC
// computed from spec/Codec.tla (see spec/CodecGen.tla for the vector format) and compares the
// bytes the client hands to its Transport byte-for-byte with the specification's encoding; in
// the other direction it feeds the specification's PUBLISH bytes to a connected client and
// compares the Message the handler receives.  Further operations sweep the remaining-length
// encoder / the packet reader over lengths.
//
// The transport is a tiny capturing one: it records every Write call, and answers by WRITE INDEX
// (script[n] is injected after the n-th Write), never by parsing what the client wrote, so that a
// malformed packet cannot derail the harness.  The broker answers (CONNACK, PUBACK, ...) are
// constants of this file.

import (
	"bufio"
	"bytes"
	"context"
	"encoding/hex"
	"encoding/json"
	"errors"
	"fmt"
	"io"
	"os"
	"sync"
	"time"

	mqtt "github.com/at-wat/mqtt-go"

	"verifharness/netsim"
)

func init() { register("codec", runCodecRaw) }

// codecBlob is the compact byte-string descriptor of CodecGen.tla:
// pre ++ [base + (a + s*i) % mod  for i in 0..n-1].
type codecBlob struct {
	Pre  []int `json:"pre"`
	N    int   `json:"n"`
	Base int   `json:"base"`
	Mod  int   `json:"mod"`
	A    int   `json:"a"`
	S    int   `json:"s"`
}

func (b codecBlob) bytes() []byte {
	out := make([]byte, 0, len(b.Pre)+b.N)
	for _, v := range b.Pre {
		out = append(out, byte(v))
	}
	for i := 0; i < b.N; i++ {
		out = append(out, byte(b.Base+(b.A+b.S*i)%b.Mod))
	}
	return out
}

func codecInts(v []int) []byte {
	out := make([]byte, len(v))
	for i, x := range v {
		out[i] = byte(x)
	}
	return out
}

type codecMsg struct {
	Topic   codecBlob `json:"topic"`
	Payload codecBlob `json:"payload"`
	QoS     int       `json:"qos"`
	Retain  bool      `json:"retain"`
	Dup     bool      `json:"dup"`
	ID      int       `json:"id"`
}

type codecConnOpts struct {
	Level      int   `json:"level"`
	Clean      bool  `json:"clean"`
	KeepAlive  int   `json:"keepalive"`
	ClientID   []int `json:"clientid"`
	HasWill    bool  `json:"hasWill"`
	WillTopic  []int `json:"willTopic"`
	WillMsg    []int `json:"willMsg"`
	WillQos    int   `json:"willQos"`
	WillRetain bool  `json:"willRetain"`
	HasUser    bool  `json:"hasUser"`
	User       []int `json:"user"`
	HasPass    bool  `json:"hasPass"`
	Pass       []int `json:"pass"`
}

type codecSub struct {
	Filter codecBlob `json:"filter"`
	QoS    int       `json:"qos"`
}

// codecScenario is one line of the scenario file (op selects the fields in use).
type codecScenario struct {
	ID string `json:"id"`
	Op string `json:"op"` // connect | publish | inbound | subscribe | unsubscribe | ping | disconnect | remlen_table | remlen_sweep | readpacket

	O        *codecConnOpts `json:"o,omitempty"`
	Explicit bool           `json:"explicit,omitempty"` // pass options even when they have the default value
	Exp      []int          `json:"exp,omitempty"`      // expected packet (connect, subscribe, unsubscribe, ping, disconnect)

	M *codecMsg `json:"m,omitempty"`
	// StaleDup: the application's Message struct still has Dup=true (a struct reused after a retransmission, or a
	// re-delivery it received and forwards); what it asks for is a first transmission all the same
	StaleDup bool  `json:"staleDup,omitempty"`
	Max      int   `json:"max,omitempty"`  // BaseClient.MaxPayloadLen
	Head     []int `json:"head,omitempty"` // expected PUBLISH bytes in front of the payload (empty: nothing expected)
	Rel      []int `json:"rel,omitempty"`  // expected PUBREL of a QoS 2 sender
	Ack1     []int `json:"ack1,omitempty"` // inbound: expected PUBACK / PUBREC
	Ack2     []int `json:"ack2,omitempty"` // inbound: expected PUBCOMP

	PID  int         `json:"pid,omitempty"` // packet identifier of SUBSCRIBE / UNSUBSCRIBE
	Subs []codecSub  `json:"subs,omitempty"`
	Fs   []codecBlob `json:"fs,omitempty"`

	Path   string `json:"path,omitempty"` // remlen_table
	From   int    `json:"from,omitempty"` // remlen_sweep: from <= n < to step stride, plus every value of "also"
	To     int    `json:"to,omitempty"`
	Stride int    `json:"stride,omitempty"`
	Lens   []int  `json:"lens,omitempty"` // readpacket
}

type codecResult struct {
	ID      string                 `json:"id"`
	Op      string                 `json:"op"`
	OK      bool                   `json:"ok"`
	Packets int                    `json:"packets"` // packets / messages / lengths compared with the specification
	Why     string                 `json:"why,omitempty"`
	Facts   map[string]interface{} `json:"facts,omitempty"`
}

// ---------------------------------------------------------------------------------------------
// capturing transport
// ---------------------------------------------------------------------------------------------
type codecTransport struct {
	mu         sync.Mutex
	cond       *sync.Cond
	writes     [][]byte
	pending    []byte // bytes written that do not form a whole frame yet
	in         []byte
	closed     bool
	script     map[int][]byte // injected after the n-th Write call (1-based)
	closeAfter int            // the transport dies right after the n-th Write call (0: never)
}

func newCodecTransport(script map[int][]byte) *codecTransport {
	t := &codecTransport{script: script}
	t.cond = sync.NewCond(&t.mu)
	return t
}

func (t *codecTransport) Write(p []byte) (int, error) {
	t.mu.Lock()
	defer t.mu.Unlock()
	if t.closed {
		return 0, io.ErrClosedPipe
	}
	// a packet may legitimately be handed over in several Write calls (the statement is about the byte stream):
	// bytes are collected until they form a whole frame; one recorded "write" = one frame
	t.pending = append(t.pending, p...)
	for {
		pkt, k := netsim.Frame(t.pending)
		if pkt == nil || k == 0 {
			break
		}
		t.writes = append(t.writes, append([]byte{}, t.pending[:k]...))
		t.pending = t.pending[k:]
		n := len(t.writes)
		if s, ok := t.script[n]; ok {
			t.in = append(t.in, s...)
		}
		if t.closeAfter == n {
			t.closed = true
		}
	}
	t.cond.Broadcast()
	return len(p), nil
}

func (t *codecTransport) Read(p []byte) (int, error) {
	t.mu.Lock()
	defer t.mu.Unlock()
	for len(t.in) == 0 && !t.closed {
		t.cond.Wait()
	}
	if len(t.in) == 0 {
		return 0, io.EOF
	}
	n := copy(p, t.in)
	t.in = t.in[n:]
	return n, nil
}

func (t *codecTransport) Close() error {
	t.mu.Lock()
	t.closed = true
	t.cond.Broadcast()
	t.mu.Unlock()
	return nil
}

// inject queues broker->client bytes.
func (t *codecTransport) inject(b []byte) {
	t.mu.Lock()
	t.in = append(t.in, b...)
	t.cond.Broadcast()
	t.mu.Unlock()
}

// waitWrites waits until at least n Write calls happened.
func (t *codecTransport) waitWrites(n int, d time.Duration) bool {
	deadline := time.Now().Add(d)
	for {
		t.mu.Lock()
		ok := len(t.writes) >= n
		t.mu.Unlock()
		if ok {
			return true
		}
		if time.Now().After(deadline) {
			return false
		}
		time.Sleep(200 * time.Microsecond)
	}
}

// after returns the concatenation of everything written after the first k Write calls, and the
// number of Write calls in total.
func (t *codecTransport) after(k int) ([]byte, int) {
	t.mu.Lock()
	defer t.mu.Unlock()
	var out []byte
	for i := k; i < len(t.writes); i++ {
		out = append(out, t.writes[i]...)
	}
	// bytes that never became a whole frame are part of what was written (and will not compare equal)
	out = append(out, t.pending...)
	return out, len(t.writes)
}

var codecConnAck = []byte{0x20, 0x02, 0x00, 0x00}

func codecAck(first byte, id int) []byte { return []byte{first, 0x02, byte(id >> 8), byte(id)} }

// codecTimeout bounds every API call / wait: everything is in memory, a healthy call takes well under a millisecond.
const codecTimeout = 6 * time.Second

// codecDiff describes the first difference of got and want.
func codecDiff(got, want []byte) string {
	if bytes.Equal(got, want) {
		return ""
	}
	i := 0
	for i < len(got) && i < len(want) && got[i] == want[i] {
		i++
	}
	cut := func(b []byte) string {
		lo := i - 8
		if lo < 0 {
			lo = 0
		}
		hi := i + 24
		if hi > len(b) {
			hi = len(b)
		}
		if lo > hi {
			lo = hi
		}
		return hex.EncodeToString(b[lo:hi])
	}
	head := func(b []byte) string {
		if len(b) > 48 {
			b = b[:48]
		}
		return hex.EncodeToString(b)
	}
	return fmt.Sprintf("first difference at byte %d: written len=%d head=%s around=%s; specification len=%d head=%s around=%s",
		i, len(got), head(got), cut(got), len(want), head(want), cut(want))
}

func codecConnected(t *codecTransport, max int) (*mqtt.BaseClient, error) {
	cli := &mqtt.BaseClient{Transport: t, MaxPayloadLen: max}
	ctx, cancel := context.WithTimeout(context.Background(), codecTimeout)
	defer cancel()
	if _, err := cli.Connect(ctx, "verif"); err != nil {
		return nil, err
	}
	return cli, nil
}

func codecFinish(cli *mqtt.BaseClient) {
	cli.Close()
	select {
	case <-cli.Done():
	case <-time.After(codecTimeout):
	}
}

func runCodecRaw(raw json.RawMessage) interface{} {
	var sc codecScenario
	if err := json.Unmarshal(raw, &sc); err != nil {
		var id idOnly
		json.Unmarshal(raw, &id)
		return map[string]string{"id": id.ID, "infra": "bad scenario: " + err.Error()}
	}
	res := &codecResult{ID: sc.ID, Op: sc.Op, Facts: map[string]interface{}{}}
	switch sc.Op {
	case "connect":
		codecConnect(&sc, res)
	case "publish":
		codecPublish(&sc, res)
	case "inbound":
		codecInbound(&sc, res)
	case "subscribe", "unsubscribe", "ping", "disconnect":
		codecRequest(&sc, res)
	case "remlen_table":
		codecRemLenTable(&sc, res)
	case "remlen_sweep":
		codecRemLenSweep(&sc, res)
	case "readpacket":
		codecReadPacket(&sc, res)
	default:
		return map[string]string{"id": sc.ID, "infra": "unknown op " + sc.Op}
	}
	return res
}

// ---------------------------------------------------------------------------------------------
// CONNECT
// ---------------------------------------------------------------------------------------------
func codecConnect(sc *codecScenario, res *codecResult) {
	o := sc.O
	t := newCodecTransport(map[int][]byte{1: codecConnAck})
	cli := &mqtt.BaseClient{Transport: t}
	var opts []mqtt.ConnectOption
	if o.Level != 4 || sc.Explicit {
		opts = append(opts, mqtt.WithProtocolLevel(mqtt.ProtocolLevel(o.Level)))
	}
	if o.Clean || sc.Explicit {
		opts = append(opts, mqtt.WithCleanSession(o.Clean))
	}
	if o.KeepAlive != 0 || sc.Explicit {
		opts = append(opts, mqtt.WithKeepAlive(uint16(o.KeepAlive)))
	}
	if o.HasWill {
		opts = append(opts, mqtt.WithWill(&mqtt.Message{
			Topic: string(codecInts(o.WillTopic)), Payload: codecInts(o.WillMsg), QoS: mqtt.QoS(o.WillQos), Retain: o.WillRetain,
		}))
	}
	if o.HasUser || o.HasPass {
		opts = append(opts, mqtt.WithUserNamePassword(string(codecInts(o.User)), string(codecInts(o.Pass))))
	}
	ctx, cancel := context.WithTimeout(context.Background(), codecTimeout)
	defer cancel()
	_, err := cli.Connect(ctx, string(codecInts(o.ClientID)), opts...)
	got, n := t.after(0)
	res.Packets = 1
	res.Facts["writes"] = n
	res.Facts["written"] = hex.EncodeToString(got[:codecMin(len(got), 64)])
	if err != nil {
		res.Facts["err"] = err.Error()
	}
	if d := codecDiff(got, codecInts(sc.Exp)); d != "" {
		res.Why = "CONNECT: " + d
	} else if err != nil {
		res.Why = "Connect failed although the specification's CONNECT was written and a CONNACK answered: " + err.Error()
		res.Facts["harness"] = true
	} else {
		res.OK = true
	}
	codecFinish(cli)
}

// ---------------------------------------------------------------------------------------------
// PUBLISH client -> broker (incl. the retransmission path for DUP = 1, and rejections)
// ---------------------------------------------------------------------------------------------
func codecPubScript(m *codecMsg) map[int][]byte {
	s := map[int][]byte{1: codecConnAck}
	switch m.QoS {
	case 1:
		s[2] = codecAck(0x40, m.ID)
	case 2:
		s[2] = codecAck(0x50, m.ID)
		s[3] = codecAck(0x70, m.ID)
	}
	return s
}

func codecPublish(sc *codecScenario, res *codecResult) {
	m := sc.M
	topic := string(m.Topic.bytes())
	payload := m.Payload.bytes()
	var want []byte
	if len(sc.Head) > 0 {
		want = append(append(append(want, codecInts(sc.Head)...), payload...), codecInts(sc.Rel)...)
	}
	msg := &mqtt.Message{Topic: topic, Payload: append([]byte{}, payload...), QoS: mqtt.QoS(m.QoS), Retain: m.Retain, ID: uint16(m.ID)}
	ctx, cancel := context.WithTimeout(context.Background(), codecTimeout)
	defer cancel()

	var t *codecTransport
	var err error
	if !m.Dup {
		msg.Dup = sc.StaleDup
		t = newCodecTransport(codecPubScript(m))
		cli, cerr := codecConnected(t, sc.Max)
		if cerr != nil {
			res.Why, res.Facts["harness"] = "harness: connect failed: "+cerr.Error(), true
			return
		}
		err = cli.Publish(ctx, msg)
		defer codecFinish(cli)
	} else {
		// DUP cannot be requested; it is set by the retransmission path: the first connection dies
		// right after the PUBLISH was written, the returned error is retried on a second client.
		ta := newCodecTransport(map[int][]byte{1: codecConnAck})
		ta.closeAfter = 2
		a, cerr := codecConnected(ta, sc.Max)
		if cerr != nil {
			res.Why, res.Facts["harness"] = "harness: connect failed: "+cerr.Error(), true
			return
		}
		perr := a.Publish(ctx, msg)
		codecFinish(a)
		var er mqtt.ErrorWithRetry
		if perr == nil || !errors.As(perr, &er) {
			res.Why, res.Facts["harness"] = fmt.Sprintf("harness: interrupted publish did not return an ErrorWithRetry: %v", perr), true
			return
		}
		t = newCodecTransport(codecPubScript(m))
		b, cerr := codecConnected(t, sc.Max)
		if cerr != nil {
			res.Why, res.Facts["harness"] = "harness: connect failed: "+cerr.Error(), true
			return
		}
		err = er.Retry(ctx, b)
		defer codecFinish(b)
	}
	got, n := t.after(1)
	res.Packets = 1
	if len(sc.Rel) > 0 {
		res.Packets = 2
	}
	res.Facts["writes_after_connect"] = n - 1
	res.Facts["bytes_after_connect"] = len(got)
	res.Facts["err_is_qos"] = errors.Is(err, mqtt.ErrInvalidQoS)
	res.Facts["err_is_len"] = errors.Is(err, mqtt.ErrPayloadLenExceeded)
	res.Facts["err_nil"] = err == nil
	if err != nil {
		res.Facts["err"] = err.Error()
	}
	if !bytes.Equal(msg.Payload, payload) || msg.Topic != topic {
		res.Facts["message_modified"] = true
	}
	d := codecDiff(got, want)
	res.Facts["stream_equal"] = d == ""
	if d != "" {
		res.Why = "PUBLISH: " + d
	} else if err != nil && len(want) > 0 {
		res.Why = "Publish failed although the specification's packets were written and acknowledged: " + err.Error()
		res.Facts["harness"] = true
	} else {
		res.OK = true
	}
}

// ---------------------------------------------------------------------------------------------
// PUBLISH broker -> client
// ---------------------------------------------------------------------------------------------
func codecInbound(sc *codecScenario, res *codecResult) {
	m := sc.M
	topic := m.Topic.bytes()
	payload := m.Payload.bytes()
	wire := append(append([]byte{}, codecInts(sc.Head)...), payload...)
	script := map[int][]byte{1: append(append([]byte{}, codecConnAck...), wire...)}
	expectWrites := 1
	switch m.QoS {
	case 1:
		expectWrites = 2
	case 2:
		script[2] = codecAck(0x62, m.ID)
		expectWrites = 3
	}
	t := newCodecTransport(script)
	cli := &mqtt.BaseClient{Transport: t}
	var mu sync.Mutex
	var got []*mqtt.Message
	var kept []*mqtt.Message // the messages themselves: ownership passes to the handler
	served := make(chan struct{}, 16)
	cli.Handle(mqtt.HandlerFunc(func(x *mqtt.Message) {
		c := &mqtt.Message{Topic: x.Topic, ID: x.ID, QoS: x.QoS, Retain: x.Retain, Dup: x.Dup, Payload: append([]byte{}, x.Payload...)}
		mu.Lock()
		got = append(got, c)
		kept = append(kept, x)
		mu.Unlock()
		served <- struct{}{}
	}))
	ctx, cancel := context.WithTimeout(context.Background(), codecTimeout)
	defer cancel()
	if _, err := cli.Connect(ctx, "verif"); err != nil {
		res.Why, res.Facts["harness"] = "harness: connect failed: "+err.Error(), true
		return
	}
	defer codecFinish(cli)
	timedOut := false
	select {
	case <-served:
	case <-cli.Done():
		timedOut = true
		res.Facts["client_closed"] = fmt.Sprint(cli.Err())
	case <-time.After(codecTimeout):
		timedOut = true
	}
	if !timedOut && !t.waitWrites(expectWrites, codecTimeout) {
		timedOut = true
	}
	acks, _ := t.after(1)
	// a later packet from the broker must not change what was handed over: follow up with a QoS 0 PUBLISH
	// whose body is at least as long, filled with a different byte
	if !timedOut {
		fill := make([]byte, len(payload)+len(topic)+8)
		for i := range fill {
			fill[i] = 0xEE
		}
		tr := []byte{0x30}
		tl := 2 + 1 + len(fill)
		for {
			d := byte(tl % 128)
			tl /= 128
			if tl > 0 {
				d |= 0x80
			}
			tr = append(tr, d)
			if tl == 0 {
				break
			}
		}
		tr = append(tr, 0x00, 0x01, 'z')
		tr = append(tr, fill...)
		t.inject(tr)
		select {
		case <-served:
		case <-time.After(codecTimeout):
		}
	}
	mu.Lock()
	defer mu.Unlock()
	if len(got) >= 1 && len(kept) >= 1 {
		if d := codecDiff(kept[0].Payload, got[0].Payload); d != "" || kept[0].Topic != got[0].Topic {
			res.Why = "the message handed to the handler changed when a later packet arrived (payload: " + d + ")"
			res.Packets = expectWrites
			return
		}
		if len(got) > 1 {
			got = got[:1]
		}
	}
	res.Packets = expectWrites
	res.Facts["delivered"] = len(got)
	res.Facts["timeout"] = timedOut
	if len(got) != 1 {
		res.Why = fmt.Sprintf("inbound PUBLISH (%d bytes, head %s) was delivered %d times (timeout=%v)", len(wire), hex.EncodeToString(codecInts(sc.Head)), len(got), timedOut)
		return
	}
	g := got[0]
	wantID := 0
	if m.QoS > 0 {
		wantID = m.ID
	}
	var bad []string
	if g.Topic != string(topic) {
		bad = append(bad, fmt.Sprintf("topic %q (len %d) instead of len %d", codecTrunc(g.Topic), len(g.Topic), len(topic)))
	}
	if d := codecDiff(g.Payload, payload); d != "" {
		bad = append(bad, "payload: "+d)
	}
	if int(g.QoS) != m.QoS {
		bad = append(bad, fmt.Sprintf("QoS %d instead of %d", g.QoS, m.QoS))
	}
	if g.Retain != m.Retain {
		bad = append(bad, fmt.Sprintf("retain %v instead of %v", g.Retain, m.Retain))
	}
	if g.Dup != m.Dup {
		bad = append(bad, fmt.Sprintf("dup %v instead of %v", g.Dup, m.Dup))
	}
	if int(g.ID) != wantID {
		bad = append(bad, fmt.Sprintf("id %d instead of %d", g.ID, wantID))
	}
	if len(bad) > 0 {
		res.Why = fmt.Sprintf("handler received a message that differs from the specification's Decode: %v", bad)
		return
	}
	wantAcks := append(append([]byte{}, codecInts(sc.Ack1)...), codecInts(sc.Ack2)...)
	if d := codecDiff(acks, wantAcks); d != "" {
		res.Why = "acknowledgements of the inbound PUBLISH: " + d
		return
	}
	res.OK = true
}

func codecTrunc(s string) string {
	if len(s) > 40 {
		return s[:40] + "..."
	}
	return s
}

// ---------------------------------------------------------------------------------------------
// SUBSCRIBE / UNSUBSCRIBE / PINGREQ / DISCONNECT
// ---------------------------------------------------------------------------------------------
func codecRequest(sc *codecScenario, res *codecResult) {
	script := map[int][]byte{1: codecConnAck}
	switch sc.Op {
	case "subscribe":
		sa := []byte{0x90, byte(2 + len(sc.Subs)), byte(sc.PID >> 8), byte(sc.PID)}
		for _, s := range sc.Subs {
			sa = append(sa, byte(s.QoS))
		}
		script[2] = sa
	case "unsubscribe":
		script[2] = codecAck(0xB0, sc.PID)
	case "ping":
		script[2] = []byte{0xD0, 0x00}
	}
	t := newCodecTransport(script)
	cli, err := codecConnected(t, 0)
	if err != nil {
		res.Why, res.Facts["harness"] = "harness: connect failed: "+err.Error(), true
		return
	}
	defer codecFinish(cli)
	ctx, cancel := context.WithTimeout(context.Background(), codecTimeout)
	defer cancel()
	switch sc.Op {
	case "subscribe":
		subs := make([]mqtt.Subscription, len(sc.Subs))
		for i, s := range sc.Subs {
			subs[i] = mqtt.Subscription{Topic: string(s.Filter.bytes()), QoS: mqtt.QoS(s.QoS)}
		}
		cli.VerifSetIDLast(uint32(sc.PID - 1))
		_, err = cli.Subscribe(ctx, subs...)
	case "unsubscribe":
		fs := make([]string, len(sc.Fs))
		for i, f := range sc.Fs {
			fs[i] = string(f.bytes())
		}
		cli.VerifSetIDLast(uint32(sc.PID - 1))
		err = cli.Unsubscribe(ctx, fs...)
	case "ping":
		err = cli.Ping(ctx)
	case "disconnect":
		err = cli.Disconnect(ctx)
	}
	got, n := t.after(1)
	res.Packets = 1
	res.Facts["writes_after_connect"] = n - 1
	res.Facts["written"] = hex.EncodeToString(got[:codecMin(len(got), 64)])
	if err != nil {
		res.Facts["err"] = err.Error()
	}
	if d := codecDiff(got, codecInts(sc.Exp)); d != "" {
		res.Why = sc.Op + ": " + d
	} else if err != nil {
		res.Why = sc.Op + " failed although the specification's packet was written and acknowledged: " + err.Error()
		res.Facts["harness"] = true
	} else {
		res.OK = true
	}
}

func codecMin(a, b int) int {
	if a < b {
		return a
	}
	return b
}

// ---------------------------------------------------------------------------------------------
// Remaining length
// ---------------------------------------------------------------------------------------------

// codecSpecRemLen is the transliteration of RemLen of spec/Codec.tla (MQTT 3.1.1 section 2.2.3):
//
//	RemLen(n) == IF n \div 128 > 0 THEN <<(n % 128) + 128>> \o RemLen(n \div 128) ELSE <<n % 128>>
//
// It is itself checked against TLC's evaluation of RemLen (op remlen_table) before it is used as
// the oracle of the full sweep.
func codecSpecRemLen(n int, out *[8]byte) int {
	i := 0
	for {
		if n/128 > 0 {
			out[i] = byte(n%128 + 128)
			i++
			n = n / 128
			continue
		}
		out[i] = byte(n % 128)
		return i + 1
	}
}

func codecRemLenTable(sc *codecScenario, res *codecResult) {
	f, err := os.Open(sc.Path)
	if err != nil {
		res.Why, res.Facts["harness"] = "harness: "+err.Error(), true
		return
	}
	defer f.Close()
	r := bufio.NewScanner(f)
	r.Buffer(make([]byte, 1<<20), 1<<20)
	var buf [8]byte
	var translit, code []string
	rows := 0
	for r.Scan() {
		if len(bytes.TrimSpace(r.Bytes())) == 0 {
			continue
		}
		var row []int
		if err := json.Unmarshal(r.Bytes(), &row); err != nil || len(row) < 2 {
			res.Why, res.Facts["harness"] = "harness: bad table row "+r.Text(), true
			return
		}
		rows++
		n, want := row[0], codecInts(row[1:])
		k := codecSpecRemLen(n, &buf)
		if !bytes.Equal(buf[:k], want) && len(translit) < 5 {
			translit = append(translit, fmt.Sprintf("n=%d transliteration=%x TLC=%x", n, buf[:k], want))
		}
		got, perr := codecCallRemLen(n)
		if (perr != "" || !bytes.Equal(got, want)) && len(code) < 5 {
			code = append(code, fmt.Sprintf("n=%d remainingLength=%x %s specification RemLen=%x", n, got, perr, want))
		}
	}
	res.Packets = rows
	res.Facts["rows"] = rows
	if len(translit) > 0 {
		res.Facts["harness"] = true
		res.Why = fmt.Sprintf("harness: Go transliteration of RemLen disagrees with TLC: %v", translit)
		return
	}
	if len(code) > 0 {
		res.Why = fmt.Sprintf("remaining length: %v", code)
		return
	}
	res.OK = true
}

func codecCallRemLen(n int) (out []byte, panicked string) {
	defer func() {
		if r := recover(); r != nil {
			panicked = fmt.Sprintf("panic: %v", r)
		}
	}()
	return mqtt.VerifRemainingLength(n), ""
}

func codecRemLenSweep(sc *codecScenario, res *codecResult) {
	var buf [8]byte
	var bad []string
	count, nbad := 0, 0
	check := func(n int) {
		count++
		k := codecSpecRemLen(n, &buf)
		got := mqtt.VerifRemainingLength(n)
		if !bytes.Equal(got, buf[:k]) {
			nbad++
			if len(bad) < 5 {
				bad = append(bad, fmt.Sprintf("n=%d remainingLength=%x specification RemLen=%x", n, got, buf[:k]))
			}
		}
	}
	func() {
		cur := sc.From
		defer func() {
			if r := recover(); r != nil {
				nbad++
				bad = append(bad, fmt.Sprintf("panic in remainingLength near n=%d: %v", cur, r))
			}
		}()
		st := sc.Stride
		if st < 1 {
			st = 1
		}
		for cur = sc.From; cur < sc.To; cur += st {
			check(cur)
		}
		for _, n := range sc.Lens {
			cur = n
			check(n)
		}
	}()
	res.Packets = count
	res.Facts["mismatches"] = nbad
	if nbad > 0 {
		res.Why = fmt.Sprintf("remaining length: %d of %d lengths differ: %v", nbad, count, bad)
		return
	}
	res.OK = true
}

// codecZeroReader yields a fixed header and then `zeros` zero bytes and then a sentinel trailer.
type codecZeroReader struct {
	head     []byte
	zeros    int
	trailer  []byte
	consumed int
}

func (z *codecZeroReader) Read(p []byte) (int, error) {
	if len(p) == 0 {
		return 0, nil
	}
	n := 0
	switch {
	case len(z.head) > 0:
		n = copy(p, z.head)
		z.head = z.head[n:]
	case z.zeros > 0:
		n = len(p)
		if n > z.zeros {
			n = z.zeros
		}
		q := p[:n]
		for i := range q {
			q[i] = 0
		}
		z.zeros -= n
	case len(z.trailer) > 0:
		n = copy(p, z.trailer)
		z.trailer = z.trailer[n:]
	default:
		return 0, io.EOF
	}
	z.consumed += n
	return n, nil
}

func codecReadPacket(sc *codecScenario, res *codecResult) {
	var buf [8]byte
	var bad []string
	for _, l := range sc.Lens {
		k := codecSpecRemLen(l, &buf)
		head := append([]byte{0x3B}, buf[:k]...)
		z := &codecZeroReader{head: head, zeros: l, trailer: []byte{0xEE, 0xEE, 0xEE}}
		var why string
		func() {
			defer func() {
				if r := recover(); r != nil {
					why = fmt.Sprintf("panic: %v", r)
				}
			}()
			typ, flag, contents, err := mqtt.VerifReadPacket(z)
			switch {
			case err != nil:
				why = "error " + err.Error()
			case typ != 0x30 || flag != 0x0B:
				why = fmt.Sprintf("type %x flags %x instead of 30 / b", typ, flag)
			case len(contents) != l:
				why = fmt.Sprintf("body of %d bytes", len(contents))
			case z.consumed != 1+k+l:
				why = fmt.Sprintf("%d bytes consumed instead of %d", z.consumed, 1+k+l)
			default:
				step := 1
				if l > 1<<20 {
					step = 4093
				}
				for i := 0; i < l; i += step {
					if contents[i] != 0 {
						why = fmt.Sprintf("body byte %d is %x", i, contents[i])
						break
					}
				}
			}
		}()
		res.Packets++
		if why != "" && len(bad) < 5 {
			bad = append(bad, fmt.Sprintf("remaining length %d (%x): %s", l, buf[:k], why))
		}
	}
	if len(bad) > 0 {
		res.Why = fmt.Sprintf("readPacket: %v", bad)
		return
	}
	res.OK = true
}
